(* C04 — change detection is exact: own writes invisible, diffs sound and complete.
   Only statements here; proofs in Proofs/C04*.v.  Models: Model/Diff.v (diffs.diff_iter / reduce_iter),
   Model/Storage.v (DiffBaseStorage.build = dbuild, ProgressStorage.clear = pclear, stores, marker),
   Model/Essence.v (old/new/diff as processing.py computes them, adjust_cause), Model/OwnWrites.v.
   All quantifiers are unbounded (every json body of any nesting, every prefix, every digest oracle dg). *)
From Coq Require Import ZArith NArith List String Bool Ascii.
From KV Require Import Base.Json Base.Dicts Model.Keys Model.Storage Model.Diff Model.Essence Model.OwnWrites.
From KV Require Import Proofs.C04Diff Proofs.C04Reduce Proofs.C04System Proofs.C04Own Proofs.C04Bridge Proofs.C04Other Proofs.C04Main Proofs.C04Witness.
Import ListNotations.
Open Scope string_scope.
Open Scope list_scope.

(* ======================= diffs ======================= *)
(* Full statement "diff a b = [] <-> a = b (JSON equality)" and "apply_diff (diff a b) a = b" are FALSE of the
   faithful model (known finding F3): *)
Theorem C04_diff_strict_refuted : exists a b, diff a b = [] /\ jeqb a b = false.
Proof. exact diff_strict_refuted. Qed.
Print Assumptions C04_diff_strict_refuted.

Theorem C04_diff_strict_bool_refuted :
  diff (JObj [("x", JNum 1)]) (JObj [("x", JBool true)]) = [] /\
  jeqb (JObj [("x", JNum 1)]) (JObj [("x", JBool true)]) = false.
Proof. exact diff_bool_int_refuted. Qed.
Print Assumptions C04_diff_strict_bool_refuted.

(* ... they hold exactly modulo deq (Model/Diff.v): Python ==, or mappings agreeing key by key with a
   null-valued key counting as absent.  wf = object keys unique (always true of parsed JSON). *)
Theorem C04_diff_complete : forall a b, wf a = true -> wf b = true -> (diff a b = [] <-> deq a b).
Proof. exact diff_complete. Qed.
Print Assumptions C04_diff_complete.

Theorem C04_diff_sound : forall a b, wf a = true -> wf b = true -> deq (apply_diff (diff a b) a) b.
Proof. exact diff_sound. Qed.
Print Assumptions C04_diff_sound.

(* the equivalence is not trivial, and does conflate null with absent *)
Theorem C04_deq_not_trivial : ~ deq (JObj [("x", JNum 1)]) (JObj [("x", JNum 2)]).
Proof. exact deq_not_trivial. Qed.
Print Assumptions C04_deq_not_trivial.

Theorem C04_deq_null_absent : deq (JObj [("x", JNull)]) (JObj []).
Proof. exact deq_null_absent. Qed.
Print Assumptions C04_deq_null_absent.

(* an update cause (for an object with a last-handled state) iff old and new differ essentially *)
Theorem C04_update_iff_essential_change : forall old new, wf old = true -> wf new = true ->
  (classify_change (Some old) (diff old new) = KUpdate <-> ~ deq old new).
Proof. exact classify_update_iff. Qed.
Print Assumptions C04_update_iff_essential_change.

(* ======================= reduce / field handlers ======================= *)
Theorem C04_reduce_exact : forall a b p, wf a = true -> wf b = true ->
  reduce (diff a b) p = diff (resolve_d a p) (resolve_d b p).
Proof. exact reduce_exact. Qed.
Print Assumptions C04_reduce_exact.

Theorem C04_field_handler_exact : forall old new p, wf old = true -> wf new = true ->
  adjust_cause p (Some old) new (diff old new)
  = (resolve_d old p, resolve_d new p, diff (resolve_d old p) (resolve_d new p)).
Proof. exact field_handler_exact. Qed.
Print Assumptions C04_field_handler_exact.

Theorem C04_field_handler_exact_create : forall new p, wf new = true ->
  adjust_cause p None new (diff JNull new) = (JNull, resolve_d new p, diff JNull (resolve_d new p)).
Proof. exact field_handler_exact_create. Qed.
Print Assumptions C04_field_handler_exact_create.

Example C04_reduce_exact_ex :
  reduce (diff (JObj [("spec", JObj [("a", JNum 1); ("b", JNum 2)])])
               (JObj [("spec", JObj [("a", JNum 3); ("b", JNum 2)])])) ["spec"; "a"]
  = [mk_ditem DChange [] (JNum 1) (JNum 3)].
Proof. exact reduce_exact_ex. Qed.
Print Assumptions C04_reduce_exact_ex.

(* ======================= system fields never count ======================= *)
(* every storage configuration ds/ps (any nesting of Multi), every body; extra = the handlers' fields *)
Theorem C04_system_fields_invisible_status : forall dg ds ps kvs s extra,
  (forall f, In f extra -> hd_error f <> Some "status") ->
  essence dg ds ps (JObj (set "status" s kvs)) extra = essence dg ds ps (JObj kvs) extra.
Proof. exact system_status_invisible. Qed.
Print Assumptions C04_system_fields_invisible_status.

Theorem C04_system_fields_invisible_status_removed : forall dg ds ps kvs extra,
  (forall f, In f extra -> hd_error f <> Some "status") ->
  essence dg ds ps (JObj (del "status" kvs)) extra = essence dg ds ps (JObj kvs) extra.
Proof. exact system_status_del_invisible. Qed.
Print Assumptions C04_system_fields_invisible_status_removed.

Theorem C04_system_fields_invisible_apiversion : forall dg ds ps kvs s extra,
  (forall f, In f extra -> hd_error f <> Some "apiVersion") ->
  essence dg ds ps (JObj (set "apiVersion" s kvs)) extra = essence dg ds ps (JObj kvs) extra.
Proof. exact system_apiversion_invisible. Qed.
Print Assumptions C04_system_fields_invisible_apiversion.

(* resourceVersion, generation, uid, managedFields, finalizers, deletionTimestamp, ...: every metadata key
   except labels / annotations (essential) and ownerReferences (selects the -ofDRS storage keys) *)
Theorem C04_system_fields_invisible_metadata : forall dg ds ps kvs md k v extra,
  lookup "metadata" kvs = Some (JObj md) ->
  k <> "labels" -> k <> "annotations" -> k <> "ownerReferences" ->
  (forall f, In f extra -> hd_error f <> Some "metadata") ->
  essence dg ds ps (JObj (set "metadata" (JObj (set k v md)) kvs)) extra = essence dg ds ps (JObj kvs) extra.
Proof. exact system_metadata_invisible. Qed.
Print Assumptions C04_system_fields_invisible_metadata.

Theorem C04_system_fields_invisible_metadata_removed : forall dg ds ps kvs md k extra,
  lookup "metadata" kvs = Some (JObj md) ->
  k <> "labels" -> k <> "annotations" -> k <> "ownerReferences" ->
  (forall f, In f extra -> hd_error f <> Some "metadata") ->
  essence dg ds ps (JObj (set "metadata" (JObj (del k md)) kvs)) extra = essence dg ds ps (JObj kvs) extra.
Proof. exact system_metadata_del_invisible. Qed.
Print Assumptions C04_system_fields_invisible_metadata_removed.

(* ======================= payload always counts ======================= *)
(* every top-level field other than apiVersion/kind/metadata/status that no configured field
   (extra / ignored_fields / status storage field) reaches into is copied verbatim into the essence *)
Theorem C04_payload_visible : forall dg ds ps kvs k extra e,
  k <> "apiVersion" -> k <> "kind" -> k <> "metadata" -> k <> "status" ->
  fields_avoid k ds ps extra ->
  essence dg ds ps (JObj kvs) extra = Ok e ->
  exists ekvs, e = JObj ekvs /\ lookup k ekvs = lookup k kvs.
Proof. exact payload_visible. Qed.
Print Assumptions C04_payload_visible.

Theorem C04_payload_change_visible : forall dg ds ps kvs kvs' k extra e e',
  k <> "apiVersion" -> k <> "kind" -> k <> "metadata" -> k <> "status" ->
  fields_avoid k ds ps extra -> lookup k kvs <> lookup k kvs' ->
  essence dg ds ps (JObj kvs) extra = Ok e -> essence dg ds ps (JObj kvs') extra = Ok e' -> e <> e'.
Proof. exact payload_change_visible. Qed.
Print Assumptions C04_payload_change_visible.

(* ======================= own writes ======================= *)
(* Full statement "every framework write leaves the essence unchanged" is FALSE of the faithful model:
   F41 (the first marker under the diff-base prefix hides annotations that were visible) *)
Theorem C04_own_writes_invisible_refuted :
  exists ds ps body e b', essence w_dg ds ps body [] = Ok e /\ own_body_after w_dg ds ps body [OwDiffbase e] = Ok b' /\
    res_jeqb (essence w_dg ds ps b' []) (Ok e) = false.
Proof. exact own_writes_invisible_refuted. Qed.
Print Assumptions C04_own_writes_invisible_refuted.

(* F42 (MultiDiffBaseStorage strips `<key>` instead of `<key>-ofDRS` for a ReplicaSet of a Deployment) is masked
   since kopf commit e6fe434: the prefix is always marked or known, so the own annotation is dropped with it *)
Example C04_own_writes_multi_drs_ex :
  match essence w_dg w42_ds w41_ps w42_body [] with
  | Ok e =>
      match own_body_after w_dg w42_ds w41_ps w42_body [OwDiffbase e] with
      | Ok b' => res_jeqb (essence w_dg w42_ds w41_ps b' []) (Ok e)
                 && match resolve b' ["metadata"; "annotations"; "kopf.dev/last-handled-configuration-ofDRS"] with Some _ => true | None => false end
      | _ => false
      end
  | _ => false
  end = true.
Proof. exact own_writes_multi_drs_ex. Qed.
Print Assumptions C04_own_writes_multi_drs_ex.

(* Partial (annotation storages DAnn P / PAnn P', any prefixes, v1/v2, any body with a metadata mapping,
   ignored_fields = extra_fields = []): the essence is a function of the VISIBLE annotations only ... *)
Theorem C04_essence_depends_on_visible_annotations : forall dg P key v1 P' pv1 verbose tk kvs md A1 A2,
  P' <> "" -> lookup "metadata" kvs = Some (JObj md) ->
  filter (fun kv => vis P' (full_keys dg P v1 (body_with kvs md A1) key) A1 (fst kv)) A1
  = filter (fun kv => vis P' (full_keys dg P v1 (body_with kvs md A2) key) A2 (fst kv)) A2 ->
  essence dg (DAnn P key v1 []) (PAnn P' pv1 verbose tk) (body_with kvs md A1) []
  = essence dg (DAnn P key v1 []) (PAnn P' pv1 verbose tk) (body_with kvs md A2) [].
Proof. exact essence_ann_congr. Qed.
Print Assumptions C04_essence_depends_on_visible_annotations.

(* ... so writing or deleting ANY annotation under the progress prefix (records, touch-dummy, marker) ... *)
Theorem C04_own_writes_invisible_progress : forall dg P key v1 P' pv1 verbose tk kvs md A k v,
  P' <> "" -> lookup "metadata" kvs = Some (JObj md) ->
  C04Own.no_slash P' = true -> under_prefix P' k = true ->
  essence dg (DAnn P key v1 []) (PAnn P' pv1 verbose tk) (body_with kvs md (set k v A)) []
  = essence dg (DAnn P key v1 []) (PAnn P' pv1 verbose tk) (body_with kvs md A) [].
Proof. exact own_progress_write_invisible. Qed.
Print Assumptions C04_own_writes_invisible_progress.

Theorem C04_own_writes_invisible_progress_delete : forall dg P key v1 P' pv1 verbose tk kvs md A k,
  P' <> "" -> lookup "metadata" kvs = Some (JObj md) ->
  C04Own.no_slash P' = true -> under_prefix P' k = true ->
  essence dg (DAnn P key v1 []) (PAnn P' pv1 verbose tk) (body_with kvs md (del k A)) []
  = essence dg (DAnn P key v1 []) (PAnn P' pv1 verbose tk) (body_with kvs md A) [].
Proof. exact own_progress_delete_invisible. Qed.
Print Assumptions C04_own_writes_invisible_progress_delete.

(* ... the last-handled annotation (own diff-base key), unless it marks a prefix not marked before ... *)
Theorem C04_own_writes_invisible_diffbase : forall dg P key v1 P' pv1 verbose tk kvs md A k v,
  P' <> "" -> lookup "metadata" kvs = Some (JObj md) ->
  mem_str k (full_keys dg P v1 (body_with kvs md A) key) = true ->
  (key_marks_prefix k = None \/ exists q, key_marks_prefix k = Some q /\ In q (marked_prefixes (keys A))) ->
  essence dg (DAnn P key v1 []) (PAnn P' pv1 verbose tk) (body_with kvs md (set k v A)) []
  = essence dg (DAnn P key v1 []) (PAnn P' pv1 verbose tk) (body_with kvs md A) [].
Proof. exact own_diffbase_write_invisible. Qed.
Print Assumptions C04_own_writes_invisible_diffbase.

(* ... and the marker, exactly under the guard F41 violates: nothing under its prefix was visible before *)
Theorem C04_own_marker_write_invisible_partial : forall dg P key v1 P' pv1 verbose tk kvs md A k v q,
  P' <> "" -> lookup "metadata" kvs = Some (JObj md) ->
  key_marks_prefix k = Some q ->
  (forall j, In j (keys A) -> under_prefix q j = true ->
     vis P' (full_keys dg P v1 (body_with kvs md A) key) A j = false) ->
  essence dg (DAnn P key v1 []) (PAnn P' pv1 verbose tk) (body_with kvs md (set k v A)) []
  = essence dg (DAnn P key v1 []) (PAnn P' pv1 verbose tk) (body_with kvs md A) [].
Proof. exact own_marker_write_invisible. Qed.
Print Assumptions C04_own_marker_write_invisible_partial.

(* The same at the level of what kopf really does: the RFC 7386 merge of the patch that the storage
   function itself produces (model functions pstore / ppurge / ptouch / dstore of Model/Storage.v). *)
Theorem C04_own_progress_store_invisible : forall dg P key v1 P' pv1 verbose tk kvs md A hkey record p,
  P' <> "" -> C04Own.no_slash P' = true ->
  lookup "metadata" kvs = Some (JObj md) -> lookup "annotations" md = Some (JObj A) ->
  pstore dg (PAnn P' pv1 verbose tk) hkey record (JObj kvs) (JObj []) = Ok p ->
  essence dg (DAnn P key v1 []) (PAnn P' pv1 verbose tk) (merge (JObj kvs) p) []
  = essence dg (DAnn P key v1 []) (PAnn P' pv1 verbose tk) (JObj kvs) [].
Proof. exact own_progress_store_invisible. Qed.
Print Assumptions C04_own_progress_store_invisible.

Theorem C04_own_progress_store_invisible_first : forall dg P key v1 P' pv1 verbose tk kvs md hkey record p,
  P' <> "" -> C04Own.no_slash P' = true ->
  lookup "metadata" kvs = Some (JObj md) -> lookup "annotations" md = None ->
  pstore dg (PAnn P' pv1 verbose tk) hkey record (JObj kvs) (JObj []) = Ok p ->
  essence dg (DAnn P key v1 []) (PAnn P' pv1 verbose tk) (merge (JObj kvs) p) []
  = essence dg (DAnn P key v1 []) (PAnn P' pv1 verbose tk) (JObj kvs) [].
Proof. exact own_progress_store_invisible_first. Qed.
Print Assumptions C04_own_progress_store_invisible_first.

Theorem C04_own_progress_purge_invisible : forall dg P key v1 P' pv1 verbose tk kvs md A hkey p,
  P' <> "" -> C04Own.no_slash P' = true ->
  lookup "metadata" kvs = Some (JObj md) -> lookup "annotations" md = Some (JObj A) ->
  ppurge dg (PAnn P' pv1 verbose tk) hkey (JObj kvs) (JObj []) = Ok p ->
  essence dg (DAnn P key v1 []) (PAnn P' pv1 verbose tk) (merge (JObj kvs) p) []
  = essence dg (DAnn P key v1 []) (PAnn P' pv1 verbose tk) (JObj kvs) [].
Proof. exact own_progress_purge_invisible. Qed.
Print Assumptions C04_own_progress_purge_invisible.

Theorem C04_own_touch_invisible : forall dg P key v1 P' pv1 verbose tk kvs md A v p,
  P' <> "" -> C04Own.no_slash P' = true -> is_obj v = false ->
  lookup "metadata" kvs = Some (JObj md) -> lookup "annotations" md = Some (JObj A) ->
  ptouch dg (PAnn P' pv1 verbose tk) (JObj kvs) (JObj []) v = Ok p ->
  essence dg (DAnn P key v1 []) (PAnn P' pv1 verbose tk) (merge (JObj kvs) p) []
  = essence dg (DAnn P key v1 []) (PAnn P' pv1 verbose tk) (JObj kvs) [].
Proof. exact own_touch_invisible. Qed.
Print Assumptions C04_own_touch_invisible.

(* kopf's defaults: SmartProgressStorage *)
Theorem C04_own_progress_store_invisible_smart :
  forall dg P key v1 P' pv1 verbose tk field tf kvs md A hkey record p,
  P' <> "" -> C04Own.no_slash P' = true -> hd_error field = Some "status" ->
  lookup "metadata" kvs = Some (JObj md) -> lookup "annotations" md = Some (JObj A) ->
  pstore dg (smart P' pv1 verbose tk field tf) hkey record (JObj kvs) (JObj []) = Ok p ->
  essence dg (DAnn P key v1 []) (smart P' pv1 verbose tk field tf) (merge (JObj kvs) p) []
  = essence dg (DAnn P key v1 []) (smart P' pv1 verbose tk field tf) (JObj kvs) [].
Proof. exact own_progress_store_invisible_smart. Qed.
Print Assumptions C04_own_progress_store_invisible_smart.

Theorem C04_own_touch_invisible_smart :
  forall dg P key v1 P' pv1 verbose tk field tf kvs md A v p,
  P' <> "" -> C04Own.no_slash P' = true -> hd_error field = Some "status" -> is_obj v = false ->
  lookup "metadata" kvs = Some (JObj md) -> lookup "annotations" md = Some (JObj A) ->
  ptouch dg (smart P' pv1 verbose tk field tf) (JObj kvs) (JObj []) v = Ok p ->
  essence dg (DAnn P key v1 []) (smart P' pv1 verbose tk field tf) (merge (JObj kvs) p) []
  = essence dg (DAnn P key v1 []) (smart P' pv1 verbose tk field tf) (JObj kvs) [].
Proof. exact own_touch_invisible_smart. Qed.
Print Assumptions C04_own_touch_invisible_smart.

(* the last-handled state: invisible once the diff-base prefix is marked on the object (the guard F41 needs) *)
Theorem C04_own_diffbase_store_invisible_partial : forall dg P key v1 P' pv1 verbose tk kvs md A e p,
  P <> "" -> C04Own.no_slash P = true -> P' <> "" ->
  lookup "metadata" kvs = Some (JObj md) -> lookup "annotations" md = Some (JObj A) ->
  In P (marked_prefixes (keys A)) ->
  dstore dg (DAnn P key v1 []) (JObj kvs) (JObj []) e = Ok p ->
  essence dg (DAnn P key v1 []) (PAnn P' pv1 verbose tk) (merge (JObj kvs) p) []
  = essence dg (DAnn P key v1 []) (PAnn P' pv1 verbose tk) (JObj kvs) [].
Proof. exact own_diffbase_store_invisible_partial. Qed.
Print Assumptions C04_own_diffbase_store_invisible_partial.

Theorem C04_own_diffbase_store_invisible_smart_partial :
  forall dg P key v1 P' pv1 verbose tk field tf kvs md A e p,
  P <> "" -> C04Own.no_slash P = true -> P' <> "" -> hd_error field = Some "status" ->
  lookup "metadata" kvs = Some (JObj md) -> lookup "annotations" md = Some (JObj A) ->
  In P (marked_prefixes (keys A)) ->
  dstore dg (DAnn P key v1 []) (JObj kvs) (JObj []) e = Ok p ->
  essence dg (DAnn P key v1 []) (smart P' pv1 verbose tk field tf) (merge (JObj kvs) p) []
  = essence dg (DAnn P key v1 []) (smart P' pv1 verbose tk field tf) (JObj kvs) [].
Proof. exact own_diffbase_store_invisible_smart_partial. Qed.
Print Assumptions C04_own_diffbase_store_invisible_smart_partial.

(* kopf's default progress storage (smart = annotations + no-write status) behaves as the annotations one *)
Theorem C04_smart_progress_as_annotations : forall dg P key v1 P' pv1 verbose tk field tf nw kvs md A,
  lookup "metadata" kvs = Some (JObj md) -> hd_error field = Some "status" ->
  essence dg (DAnn P key v1 []) (PMulti [PAnn P' pv1 verbose tk; PStatus field tf nw]) (body_with kvs md A) []
  = essence dg (DAnn P key v1 []) (PAnn P' pv1 verbose tk) (body_with kvs md A) [].
Proof. exact essence_smart_eq. Qed.
Print Assumptions C04_smart_progress_as_annotations.

(* non-vacuity: a whole cycle of own writes under kopf's defaults changes the body, not the essence *)
Example C04_own_cycle_invisible_ex :
  match essence w_dg w_ds w_ps w_body [] with
  | Ok e =>
      match own_body_after w_dg w_ds w_ps w_body [OwStore "create_fn" w_record; OwDiffbase e; OwTouch (JStr "t")] with
      | Ok b' => res_jeqb (essence w_dg w_ds w_ps b' []) (Ok e) && negb (jeqb b' w_body)
                 && jeqb e (JObj [("spec", JObj [("field", JStr "v")]);
                                  ("metadata", JObj [("labels", JObj [("app", JStr "v")]); ("annotations", JObj [("note", JStr "x")])])])
      | _ => false
      end
  | _ => false
  end = true.
Proof. exact own_cycle_invisible_ex. Qed.
Print Assumptions C04_own_cycle_invisible_ex.

(* ======================= other Kopf operators ======================= *)
(* F5 is fixed (kopf commit e6fe434: _store_marker skips only kopf.zalando.org and its subdomains, which are
   detected without a marker).  Full statement, for EVERY non-empty slash-free prefix P (kopf.dev included):
   after the first store of an operator under P, P is detectable on the object ... *)
Theorem C04_prefix_detectable_after_store : forall dg P pv1 verbose tk hkey record kvs md A p,
  P <> "" -> C04Own.no_slash P = true ->
  lookup "metadata" kvs = Some (JObj md) -> lookup "annotations" md = Some (JObj A) ->
  pstore dg (PAnn P pv1 verbose tk) hkey record (JObj kvs) (JObj []) = Ok p ->
  exists A', merge (JObj kvs) p = body_with kvs md A' /\ In P (marked_prefixes (keys A')).
Proof. exact prefix_detectable_after_store. Qed.
Print Assumptions C04_prefix_detectable_after_store.

Theorem C04_prefix_detectable_after_diffbase_store : forall dg P key v1 ign e kvs md A p,
  P <> "" -> C04Own.no_slash P = true ->
  lookup "metadata" kvs = Some (JObj md) -> lookup "annotations" md = Some (JObj A) ->
  dstore dg (DAnn P key v1 ign) (JObj kvs) (JObj []) e = Ok p ->
  exists A', merge (JObj kvs) p = body_with kvs md A' /\ In P (marked_prefixes (keys A')).
Proof. exact prefix_detectable_after_diffbase_store. Qed.
Print Assumptions C04_prefix_detectable_after_diffbase_store.

(* ... hence, for EVERY storage configuration ds/ps and extra fields of the observing operator, nothing under P/
   reaches its essence ... *)
Theorem C04_other_operator_invisible : forall dg' P pv1 verbose tk hkey record kvs md A p dg ds ps extra e j,
  P <> "" -> C04Own.no_slash P = true ->
  lookup "metadata" kvs = Some (JObj md) -> lookup "annotations" md = Some (JObj A) ->
  pstore dg' (PAnn P pv1 verbose tk) hkey record (JObj kvs) (JObj []) = Ok p ->
  (forall f, In f extra -> hd_error f <> Some "metadata") ->
  essence dg ds ps (merge (JObj kvs) p) extra = Ok e ->
  under_prefix P j = true ->
  resolve e ["metadata"; "annotations"; j] = None.
Proof. exact other_operator_absent_after_store. Qed.
Print Assumptions C04_other_operator_invisible.

Theorem C04_other_operator_invisible_diffbase : forall dg' P key v1 ign e0 kvs md A p dg ds ps extra e j,
  P <> "" -> C04Own.no_slash P = true ->
  lookup "metadata" kvs = Some (JObj md) -> lookup "annotations" md = Some (JObj A) ->
  dstore dg' (DAnn P key v1 ign) (JObj kvs) (JObj []) e0 = Ok p ->
  (forall f, In f extra -> hd_error f <> Some "metadata") ->
  essence dg ds ps (merge (JObj kvs) p) extra = Ok e ->
  under_prefix P j = true ->
  resolve e ["metadata"; "annotations"; j] = None.
Proof. exact other_operator_absent_after_diffbase_store. Qed.
Print Assumptions C04_other_operator_invisible_diffbase.

(* ... and (annotation storages of the observing operator) the essence is UNCHANGED by the other operator's store,
   at first contact (nothing under P/ on the object yet) and at every later store (P marked by then).  The
   general guard "nothing under P/ was visible before" is the one F41 violates (annotations left under P/ by
   users or by a Kopf older than the marker). *)
Theorem C04_other_operator_first_store_invisible : forall dg Q key v1 Q' pv1 verbose tk kvs md A dg' P pv1' verbose' tk' hkey record p,
  Q' <> "" -> P <> "" -> C04Own.no_slash P = true ->
  lookup "metadata" kvs = Some (JObj md) -> lookup "annotations" md = Some (JObj A) ->
  (forall j, In j (keys A) -> under_prefix P j = false) ->
  pstore dg' (PAnn P pv1' verbose' tk') hkey record (JObj kvs) (JObj []) = Ok p ->
  essence dg (DAnn Q key v1 []) (PAnn Q' pv1 verbose tk) (merge (JObj kvs) p) []
  = essence dg (DAnn Q key v1 []) (PAnn Q' pv1 verbose tk) (JObj kvs) [].
Proof. exact other_operator_first_store_invisible. Qed.
Print Assumptions C04_other_operator_first_store_invisible.

Theorem C04_other_operator_later_store_invisible : forall dg Q key v1 Q' pv1 verbose tk kvs md A dg' P pv1' verbose' tk' hkey record p,
  Q' <> "" -> P <> "" -> C04Own.no_slash P = true ->
  lookup "metadata" kvs = Some (JObj md) -> lookup "annotations" md = Some (JObj A) ->
  In P (marked_prefixes (keys A)) ->
  pstore dg' (PAnn P pv1' verbose' tk') hkey record (JObj kvs) (JObj []) = Ok p ->
  essence dg (DAnn Q key v1 []) (PAnn Q' pv1 verbose tk) (merge (JObj kvs) p) []
  = essence dg (DAnn Q key v1 []) (PAnn Q' pv1 verbose tk) (JObj kvs) [].
Proof. exact other_operator_later_store_invisible. Qed.
Print Assumptions C04_other_operator_later_store_invisible.

Theorem C04_other_operator_store_invisible_partial : forall dg Q key v1 Q' pv1 verbose tk kvs md A dg' P pv1' verbose' tk' hkey record p,
  Q' <> "" -> P <> "" -> C04Own.no_slash P = true ->
  lookup "metadata" kvs = Some (JObj md) -> lookup "annotations" md = Some (JObj A) ->
  (forall j, In j (keys A) -> under_prefix P j = true ->
     vis Q' (full_keys dg Q v1 (body_with kvs md A) key) A j = false) ->
  pstore dg' (PAnn P pv1' verbose' tk') hkey record (JObj kvs) (JObj []) = Ok p ->
  essence dg (DAnn Q key v1 []) (PAnn Q' pv1 verbose tk) (merge (JObj kvs) p) []
  = essence dg (DAnn Q key v1 []) (PAnn Q' pv1 verbose tk) (JObj kvs) [].
Proof. exact other_operator_store_invisible. Qed.
Print Assumptions C04_other_operator_store_invisible_partial.

Theorem C04_other_operator_diffbase_store_invisible_partial : forall dg Q key v1 Q' pv1 verbose tk kvs md A dg' P key' v1' ign e0 p,
  Q' <> "" -> P <> "" -> C04Own.no_slash P = true ->
  lookup "metadata" kvs = Some (JObj md) -> lookup "annotations" md = Some (JObj A) ->
  (forall j, In j (keys A) -> under_prefix P j = true ->
     vis Q' (full_keys dg Q v1 (body_with kvs md A) key) A j = false) ->
  dstore dg' (DAnn P key' v1' ign) (JObj kvs) (JObj []) e0 = Ok p ->
  essence dg (DAnn Q key v1 []) (PAnn Q' pv1 verbose tk) (merge (JObj kvs) p) []
  = essence dg (DAnn Q key v1 []) (PAnn Q' pv1 verbose tk) (JObj kvs) [].
Proof. exact other_operator_diffbase_store_invisible. Qed.
Print Assumptions C04_other_operator_diffbase_store_invisible_partial.

(* regression example for F5: an operator with prefix kopf.dev gets its marker and is invisible *)
Example C04_other_operator_kopf_dev_ex :
  match own_body_after w_dg w_other_ds w_other_ps w_body [OwStore "create_fn" w_record; OwDiffbase (JObj [("spec", JObj [])]); OwTouch (JStr "t")] with
  | Ok b' => res_jeqb (essence w_dg w_ds w_ps b' []) (essence w_dg w_ds w_ps w_body []) && negb (jeqb b' w_body)
             && match resolve b' ["metadata"; "annotations"; "kopf.dev/kopf-managed"] with Some (JStr "yes") => true | _ => false end
  | _ => false
  end = true.
Proof. exact other_operator_kopf_dev_ex. Qed.
Print Assumptions C04_other_operator_kopf_dev_ex.

(* The two detection facts used above, on their own: with the marker q/kopf-managed on the object (every
   configuration, every body) nothing under q/ reaches the essence; the same for kopf.zalando.org without a marker *)
Theorem C04_other_operator_marked_absent : forall dg ds ps kvs md anns q j extra e,
  lookup "metadata" kvs = Some (JObj md) -> lookup "annotations" md = Some (JObj anns) ->
  C04System.no_slash q = true -> In (q ++ "/" ++ marker_name)%string (keys anns) ->
  under_prefix q j = true ->
  (forall f, In f extra -> hd_error f <> Some "metadata") ->
  essence dg ds ps (JObj kvs) extra = Ok e ->
  resolve e ["metadata"; "annotations"; j] = None.
Proof. exact other_operator_marked_absent. Qed.
Print Assumptions C04_other_operator_marked_absent.

Theorem C04_other_operator_known_prefix_absent : forall dg ds ps kvs md anns n j extra e,
  lookup "metadata" kvs = Some (JObj md) -> lookup "annotations" md = Some (JObj anns) ->
  In (known_prefix ++ "/" ++ n)%string (keys anns) ->
  under_prefix known_prefix j = true ->
  (forall f, In f extra -> hd_error f <> Some "metadata") ->
  essence dg ds ps (JObj kvs) extra = Ok e ->
  resolve e ["metadata"; "annotations"; j] = None.
Proof. exact other_operator_known_absent. Qed.
Print Assumptions C04_other_operator_known_prefix_absent.

(* and a write under an already marked prefix leaves the essence unchanged (annotation storages) *)
Theorem C04_other_operator_write_invisible_partial : forall dg P key v1 P' pv1 verbose tk kvs md A q k v,
  P' <> "" -> lookup "metadata" kvs = Some (JObj md) ->
  In q (marked_prefixes (keys A)) -> under_prefix q k = true ->
  (key_marks_prefix k = None \/ exists q', key_marks_prefix k = Some q' /\ In q' (marked_prefixes (keys A))) ->
  essence dg (DAnn P key v1 []) (PAnn P' pv1 verbose tk) (body_with kvs md (set k v A)) []
  = essence dg (DAnn P key v1 []) (PAnn P' pv1 verbose tk) (body_with kvs md A) [].
Proof. exact other_operator_write_invisible. Qed.
Print Assumptions C04_other_operator_write_invisible_partial.

Example C04_other_operator_marked_ex :
  match own_body_after w_dg (DAnn "my-op.example.com" "last-handled-configuration" true []) (PAnn "my-op.example.com" true false "touch-dummy")
          w_body [OwStore "create_fn" w_record; OwDiffbase (JObj [("spec", JObj [])]); OwTouch (JStr "t")] with
  | Ok b' => res_jeqb (essence w_dg w_ds w_ps b' []) (essence w_dg w_ds w_ps w_body []) && negb (jeqb b' w_body)
  | _ => false
  end = true.
Proof. exact other_operator_marked_ex. Qed.
Print Assumptions C04_other_operator_marked_ex.
