(* C04 — change detection is exact.  Only statements here; proofs in Proofs/. (stub, being filled) *)
From Coq Require Import ZArith NArith List String Bool Ascii.
From KV Require Import Base.Json Base.Dicts Model.Keys Model.Storage Model.Diff Model.Essence Model.OwnWrites.
Import ListNotations.
Open Scope string_scope.

Example C04_stub : diff (JObj [("x", JNull)]) (JObj []) = [].
Proof. vm_compute. exact eq_refl. Qed.
Print Assumptions C04_stub.
