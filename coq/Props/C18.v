(* C18 — admission responses faithfully reflect handler outcomes and requested mutations.
   Only statements here; proofs in Proofs/{Admission,MergeDsl,JsonPatch}.v.

   CLAUSE AUDIT (statement and quantifier of properties.jsonl, C18)
   ---------------------------------------------------------------------------------------------------------------
   clause                                          | status
   ------------------------------------------------+--------------------------------------------------------------
   a response is produced at all (implicit)        | FULL  C18_response_exact (every mapping-rooted object, every
                                                   |       well-formed patch content, fns, handlers, outcomes)
   allowed iff no selected handler raised          | REFUTED C18_allowed_iff_no_exception_refuted (finding F18a) +
                                                   |   EXACT for every handler set: C18_allowed_exact (allowed iff no
                                                   |   handler that is the LAST of its id raised), C18_outcomes_exact;
                                                   |   unguarded halves C18_no_raise_allowed, C18_denied_raised;
                                                   |   guarded corollary C18_allowed_iff_no_exception_partial;
                                                   |   build_response level FULL: C18_allowed_iff_no_outcome_exception
   message/code of the most specific error         | FULL at build_response level: C18_most_specific_error (+ unique:
   (admission, permanent, temporary, other)        |   C18_first_min_unique), C18_rank_table, C18_code_default,
                                                   |   C18_message; per selected handlers EXACT: C18_status_exact
                                                   |   (errors kept per F18a), guarded C18_most_specific_error_served
   warnings returned in order                      | FULL  C18_warnings_in_order
   only handlers matching the webhook id,          | FULL for id / reason / subresource / filters (filters = one
   operation, subresource and filters run          |   oracle boolean, property C15): C18_selection_rule,
                                                   |   C18_selection; "operation": REFUTED
                                                   |   C18_selection_operation_refuted (finding F18b), the code's
                                                   |   rule being C18_selection_rule
   mutating ones not on DELETE unless opted in     | FULL  C18_mutating_on_delete (opt-in = declared for DELETE only)
   returned JSON patch applied to the reviewed     | FULL modulo two oracle laws: C18_patch_fidelity (law of
   object yields the requested changes and the     |   jsonpatch.from_diff: hypothesis; fails for the installed
   transformations                                 |   library on some list changes = finding F18d, validated per
                                                   |   case) and C18_patch_received (law of the wire encoding:
                                                   |   hypothesis, validated per response)
   ... set, overwrite, delete, recursive merge,    | FULL  C18_requested_changes (the result at EVERY path),
   type changes; nothing else changes              |   C18_clauses (set/overwrite, delete, mapping node, untouched),
                                                   |   C18_clause_cases (every path falls under one clause),
                                                   |   C18_dsl_is_merge (= RFC 7386 merge leaf for leaf)
   ... up to the presence of empty mappings        | FULL  statements are about leaf_at (non-mapping values at paths);
                                                   |   C18_prune_invisible relates it to removing empty mappings
   ... special characters in keys                  | FULL for the pointer syntax: C18_pointer_roundtrip,
                                                   |   C18_special_keys; the library's use of it: inside the law
   handlers' requests reach the patch content      | FULL for one write: C18_write_recorded (Patch / view item
   (Patch.__setitem__, views)                      |   assignment = dicts.ensure); the content itself is the
                                                   |   quantified input of the fidelity theorems
   reviewed object = new object, else old object   | monitored + tied only (harness: source of from_diff must be it)
   exception -> outcome (errors=None, PERMANENT)   | model assumption (the raised exception itself is the outcome),
                                                   |   tied by D:outcomes / D:response; classification is C11's
   find_resource, envelope versions, servers       | not covered (outside the property)
   --------------------------------------------------------------------------------------------------------------- *)
From Coq Require Import ZArith List String Bool Ascii.
From KV Require Import Base.Json Base.Dicts Model.JsonPatch Model.MergeDsl Model.Admission
                       Proofs.JsonPatch Proofs.MergeDsl Proofs.Admission.
Import ListNotations.
Open Scope string_scope.
Open Scope Z_scope.
Open Scope list_scope.

(* ---- allowed iff nothing raised ---- *)

(* build_response: allowed iff no outcome it is given carries an exception (any outcome table) *)
Theorem C18_allowed_iff_no_outcome_exception : forall uid (outs : outcomes) ws ops,
  r_allowed (build_response uid outs ws ops) = true <-> (forall id e, In (id, e) outs -> e = None).
Proof. exact allowed_iff_no_outcome_exception. Qed.
Print Assumptions C18_allowed_iff_no_outcome_exception.

(* Full statement "allowed iff no SELECTED handler raised" is false of the faithful model: outcomes are keyed by
   handler id, a second selected handler with the same id overwrites the denial of the first (finding F18a) ... *)
Theorem C18_allowed_iff_no_exception_refuted :
  exists c hs run r h,
    serve root_replace_diff "u" c hs run (JObj []) [] (JObj []) = Ok r /\
    r_allowed r = true /\ In h (select_webhooks c hs) /\ snd (run h) <> None.
Proof. exact serve_allowed_refuted. Qed.
Print Assumptions C18_allowed_iff_no_exception_refuted.

(* ... and holds for every handler set, cause, handler behaviour, patch and diff function when the ids of the
   selected handlers are pairwise distinct. *)
Theorem C18_allowed_iff_no_exception_partial : forall from_diff uid c hs run patch fns body r,
  NoDup (map h_id (select_webhooks c hs)) ->
  serve from_diff uid c hs run patch fns body = Ok r ->
  (r_allowed r = true <-> forall h, In h (select_webhooks c hs) -> snd (run h) = None).
Proof. exact serve_allowed_partial. Qed.
Print Assumptions C18_allowed_iff_no_exception_partial.

(* EXACTLY which outcomes reach build_response, for every list of selected handlers (no guard): per id, in order of
   first occurrence, the outcome of the LAST selected handler carrying that id. *)
Theorem C18_outcomes_exact : forall run sel, collect_outcomes run sel = effective_outcomes run sel.
Proof. exact collect_outcomes_exact. Qed.
Print Assumptions C18_outcomes_exact.

(* allowed, exactly, for EVERY handler set, cause, behaviour, patch and diff function *)
Theorem C18_allowed_exact : forall from_diff uid c hs run patch fns body r,
  serve from_diff uid c hs run patch fns body = Ok r ->
  (r_allowed r = true <->
   forall h, In h (select_webhooks c hs) -> last_by_id (h_id h) (select_webhooks c hs) = Some h -> snd (run h) = None).
Proof. exact serve_allowed_exact. Qed.
Print Assumptions C18_allowed_exact.

(* the two halves of "allowed iff nothing raised" that hold without any guard *)
Theorem C18_no_raise_allowed : forall from_diff uid c hs run patch fns body r,
  serve from_diff uid c hs run patch fns body = Ok r ->
  (forall h, In h (select_webhooks c hs) -> snd (run h) = None) -> r_allowed r = true.
Proof. exact serve_no_raise_allowed. Qed.
Print Assumptions C18_no_raise_allowed.

Theorem C18_denied_raised : forall from_diff uid c hs run patch fns body r,
  serve from_diff uid c hs run patch fns body = Ok r ->
  r_allowed r = false -> exists h, In h (select_webhooks c hs) /\ snd (run h) <> None.
Proof. exact serve_denied_raised. Qed.
Print Assumptions C18_denied_raised.

(* message and code, exactly, for every handler set: the first error of minimal rank among the KEPT outcomes *)
Theorem C18_status_exact : forall from_diff uid c hs run patch fns body r,
  serve from_diff uid c hs run patch fns body = Ok r ->
  let kept := errors_of (effective_outcomes run (select_webhooks c hs)) in
  (kept = [] -> r_status r = None) /\
  (kept <> [] -> exists e, first_min kept e /\ r_status r = Some (message e, code e)).
Proof. exact serve_status_exact. Qed.
Print Assumptions C18_status_exact.

(* A response is ALWAYS produced for a mapping-rooted reviewed object and a well-formed patch content, and every field
   of it is determined: nothing else influences it (e.g. the patch does not depend on the outcomes, allowed does not
   depend on the patch). *)
Theorem C18_response_exact : forall from_diff uid c hs run patch fns body,
  is_obj patch = true -> wf patch = true -> is_obj body = true ->
  exists ops, as_json_patch from_diff patch fns body = Ok ops /\
    serve from_diff uid c hs run patch fns body =
    Ok {| r_uid := uid;
          r_allowed := forallb (fun kv => match snd kv with None => true | Some _ => false end)
                               (effective_outcomes run (select_webhooks c hs));
          r_warnings := match flat_map (fun h => fst (run h)) (select_webhooks c hs) with [] => None | ws => Some ws end;
          r_patch := match ops with [] => None | _ => Some ops end;
          r_status := match sort_errors (errors_of (effective_outcomes run (select_webhooks c hs))) with
                      | e :: _ => Some (message e, code e)
                      | [] => None
                      end |}.
Proof. exact serve_total_exact. Qed.
Print Assumptions C18_response_exact.

(* ---- message and code come from the most specific error ---- *)

(* rank: admission 0, permanent 1, temporary 2, anything else 9 *)
Theorem C18_rank_table : forall e,
  (e_adm e = true -> rank e = 0) /\
  (e_adm e = false -> e_perm e = true -> rank e = 1) /\
  (e_adm e = false -> e_perm e = false -> e_temp e = true -> rank e = 2) /\
  (e_adm e = false -> e_perm e = false -> e_temp e = false -> rank e = 9).
Proof. exact rank_table. Qed.
Print Assumptions C18_rank_table.

(* the reported error is the FIRST (in outcome order) among those of minimal rank; no status when nothing raised *)
Theorem C18_most_specific_error : forall uid (outs : outcomes) ws ops,
  (errors_of outs = [] -> r_status (build_response uid outs ws ops) = None) /\
  (errors_of outs <> [] ->
     exists e, first_min (errors_of outs) e /\
               r_status (build_response uid outs ws ops) = Some (message e, code e)).
Proof. exact status_most_specific. Qed.
Print Assumptions C18_most_specific_error.

Theorem C18_first_min_unique : forall l e e', first_min l e -> first_min l e' -> e = e'.
Proof. exact first_min_unique. Qed.
Print Assumptions C18_first_min_unique.

(* code: the admission error's own code unless absent or 0; 500 for every other error class *)
Theorem C18_code_default : forall e,
  (e_adm e = true -> forall c, e_code e = Some c -> c <> 0 -> code e = c) /\
  (e_adm e = false \/ e_code e = None \/ e_code e = Some 0 -> code e = 500).
Proof. exact code_spec. Qed.
Print Assumptions C18_code_default.

Theorem C18_message : forall e,
  (e_str e <> EmptyString -> message e = e_str e) /\ (e_str e = EmptyString -> message e = e_repr e).
Proof. exact message_spec. Qed.
Print Assumptions C18_message.

(* the same at the level of the selected handlers (distinct ids) *)
Theorem C18_most_specific_error_served : forall from_diff uid c hs run patch fns body r,
  NoDup (map h_id (select_webhooks c hs)) ->
  serve from_diff uid c hs run patch fns body = Ok r ->
  let raised := flat_map (fun h => match snd (run h) with Some e => [e] | None => [] end) (select_webhooks c hs) in
  (raised = [] -> r_status r = None) /\
  (raised <> [] -> exists e, first_min raised e /\ r_status r = Some (message e, code e)).
Proof. exact serve_status_partial. Qed.
Print Assumptions C18_most_specific_error_served.

(* ---- warnings in order ---- *)
Theorem C18_warnings_in_order : forall from_diff uid c hs run patch fns body r,
  serve from_diff uid c hs run patch fns body = Ok r ->
  r_warnings r = match flat_map (fun h => fst (run h)) (select_webhooks c hs) with
                 | [] => None
                 | ws => Some ws
                 end.
Proof. exact serve_warnings. Qed.
Print Assumptions C18_warnings_in_order.

(* ---- selection ---- *)

(* the code's rule, clause by clause *)
Theorem C18_selection_rule : forall c h,
  wh_selected c h = true <->
    (c_reason c = None \/ c_reason c = Some (h_mutating h)) /\
    (c_webhook c = None \/ c_webhook c = Some (h_id h)) /\
    (h_mutating h = false \/ c_op c <> Some "DELETE" \/ only_delete (h_ops h) = true) /\
    (h_sub h = Some "*" \/ h_sub h = c_sub c) /\
    h_extra h = true.
Proof. exact wh_selected_spec. Qed.
Print Assumptions C18_selection_rule.

(* exactly the matching handlers run, each function once per id *)
Theorem C18_selection : forall c hs,
  (forall h, In h (select_webhooks c hs) -> In h hs /\ wh_selected c h = true) /\
  (forall h, In h hs -> wh_selected c h = true ->
     exists h', In h' (select_webhooks c hs) /\ h_fn h' = h_fn h /\ h_id h' = h_id h) /\
  NoDup (map hkey (select_webhooks c hs)).
Proof. exact selection_exact. Qed.
Print Assumptions C18_selection.

(* mutating handlers do not run on DELETE unless declared for DELETE only *)
Theorem C18_mutating_on_delete : forall c hs h,
  In h (select_webhooks c hs) -> c_op c = Some "DELETE" -> h_mutating h = true ->
  exists o l, h_ops h = Some (o :: l) /\ forall x, In x (o :: l) -> x = "DELETE".
Proof. exact mutating_on_delete. Qed.
Print Assumptions C18_mutating_on_delete.

(* "only handlers matching the operation run" is false of the faithful model: the declared operations are
   not compared with the review's operation (finding F18b); C18_selection_rule is the true statement *)
Theorem C18_selection_operation_refuted :
  exists c hs h, In h (select_webhooks c hs) /\ h_mutating h = false /\
                 h_ops h = Some ["CREATE"] /\ c_op c = Some "UPDATE".
Proof. exact selection_operation_refuted. Qed.
Print Assumptions C18_selection_operation_refuted.

(* ---- the requested changes ---- *)

(* Full statement (after the repair 1b39531 of findings F4 and F18c): for every mapping-rooted object and every
   well-formed patch content, of any size and depth — non-mapping values under mappings of the patch included —
   Patch._apply_patch succeeds and its result has the same non-mapping values at the same paths as the RFC 7386
   merge, i.e. equals it up to empty mappings. *)
Theorem C18_dsl_is_merge : forall p body,
  is_obj p = true -> wf p = true -> is_obj body = true ->
  exists b', apply_dsl p body = Ok b' /\ forall q, leaf_at b' q = leaf_at (merge body p) q.
Proof. exact dsl_is_merge. Qed.
Print Assumptions C18_dsl_is_merge.

(* The result at EVERY path, in closed form: an untouched path keeps the object's value; a non-null leaf of the patch is
   there (and nothing below it); nothing at or below a null; a mapping node of the patch is a mapping. *)
Theorem C18_requested_changes : forall p body,
  is_obj p = true -> wf p = true -> is_obj body = true ->
  exists b', apply_dsl p body = Ok b' /\ forall q, leaf_at b' q = requested p body q.
Proof. exact dsl_requested. Qed.
Print Assumptions C18_requested_changes.

(* the same, clause by clause: set / overwrite, delete, recursive merge (mapping nodes), and what must NOT change *)
Theorem C18_clauses : forall p body,
  is_obj p = true -> wf p = true -> is_obj body = true ->
  exists b', apply_dsl p body = Ok b' /\
    (forall q v r, resolve p q = Some v -> is_obj v = false -> v <> JNull -> leaf_at b' (q ++ r) = leaf_at v r) /\
    (forall q r, resolve p q = Some JNull -> leaf_at b' (q ++ r) = None) /\
    (forall q o, resolve p q = Some (JObj o) -> leaf_at b' q = None) /\
    (forall q, untouchedb p q = true -> leaf_at b' q = leaf_at body q).
Proof. exact dsl_clauses. Qed.
Print Assumptions C18_clauses.

(* every path is untouched, at or below a leaf (set or null) of the patch, or a mapping node of it *)
Theorem C18_clause_cases : forall p q,
  untouchedb p q = true \/
  (exists q1 r v, q = q1 ++ r /\ resolve p q1 = Some v /\ is_obj v = false) \/
  (exists o, resolve p q = Some (JObj o)) \/
  (q = [] /\ is_obj p = false).
Proof. exact clause_cases. Qed.
Print Assumptions C18_clause_cases.

(* a handler's item / view assignment (dicts.ensure on the Patch) that does not raise is in the content *)
Theorem C18_write_recorded : forall writes q v,
  q <> [] -> (exists c, ensure (content_of writes) q v = Ok c) -> resolve (content_of (writes ++ [(q, v)])) q = Some v.
Proof. exact last_write_recorded. Qed.
Print Assumptions C18_write_recorded.

(* removing empty mappings does not change what leaf_at observes *)
Theorem C18_prune_invisible : forall j, wf j = true -> forall q, leaf_at (prune j) q = leaf_at j q.
Proof. exact leaf_at_prune. Qed.
Print Assumptions C18_prune_invisible.

(* regression: the former witnesses of F4 (a mapping over a string) and F18c (an empty mapping over a scalar) *)
Theorem C18_type_change_regression :
  apply_dsl f4_patch f4_body = Ok (JObj [("spec", JObj [("a", JObj [("b", JNum 1)])])]) /\
  leaf_at (merge f4_body f4_patch) ["spec"; "a"; "b"] = Some (JNum 1).
Proof. exact type_change_regression. Qed.
Print Assumptions C18_type_change_regression.

Theorem C18_empty_over_scalar_regression :
  apply_dsl f18c_patch f18c_body = Ok (JObj [("spec", JObj [("a", JObj [])])]) /\
  leaf_at (merge f18c_body f18c_patch) ["spec"; "a"] = None.
Proof. exact empty_over_scalar_regression. Qed.
Print Assumptions C18_empty_over_scalar_regression.

(* The returned JSON patch, applied to the reviewed object by the RFC 6902 semantics, yields the object with the
   requested changes (as above) and then the transformation functions applied — for every diff function that
   satisfies the law, every reflexive comparison of documents, every list of transformation functions. *)
Theorem C18_patch_fidelity : forall (same : json -> json -> Prop), (forall x, same x x) ->
  forall from_diff, (forall a b, exists r, apply_ops (from_diff a b) a = Some r /\ same r b) ->
  forall p fns body,
    is_obj p = true -> wf p = true -> is_obj body = true ->
    exists ops b' r,
      as_json_patch from_diff p fns body = Ok ops /\
      apply_dsl p body = Ok b' /\
      (forall q, leaf_at b' q = leaf_at (merge body p) q) /\
      apply_ops ops body = Some r /\ same r (run_fns fns b').
Proof. exact patch_fidelity. Qed.
Print Assumptions C18_patch_fidelity.

(* for any body (also one whose root is not a mapping): whatever the interpreter produced is what the returned operations rebuild *)
Theorem C18_patch_applies : forall (same : json -> json -> Prop), (forall x, same x x) ->
  forall from_diff, (forall a b, exists r, apply_ops (from_diff a b) a = Some r /\ same r b) ->
  forall p fns body b',
    apply_dsl p body = Ok b' ->
    exists ops r, as_json_patch from_diff p fns body = Ok ops /\
                  apply_ops ops body = Some r /\ same r (run_fns fns b').
Proof. exact patch_applies. Qed.
Print Assumptions C18_patch_applies.

(* ---- the patch on the wire ---- *)

(* For every encoding of the operations into the `patch` field and every decoder on the API server's side that
   satisfy the round-trip law (Python json.dumps + STANDARD base64 / strict standard base64 + JSON parse: validated
   on every real response by the check): what the server decodes from the response is exactly what as_json_patch
   computed — nothing when the operation list is empty (field absent). *)
Theorem C18_patch_received : forall (text : Type) (encode : list jop -> text) (decode_std : text -> option (list jop)),
  (forall ops, decode_std (encode ops) = Some ops) ->
  forall from_diff uid c hs run patch fns body r,
    serve from_diff uid c hs run patch fns body = Ok r ->
    exists ops, as_json_patch from_diff patch fns body = Ok ops /\
                received_patch encode decode_std r = Some ops.
Proof. exact serve_patch_received. Qed.
Print Assumptions C18_patch_received.

Theorem C18_wire_law_satisfiable :
  exists (text : Type) (encode : list jop -> text) (decode_std : text -> option (list jop)),
    forall ops, decode_std (encode ops) = Some ops.
Proof. exact wire_law_satisfiable. Qed.
Print Assumptions C18_wire_law_satisfiable.

(* ---- special characters in keys ---- *)

(* every path over arbitrary keys survives RFC 6901 escaping: parse (render p) = p *)
Theorem C18_pointer_roundtrip : forall p, jp_parse (jp_render p) = Some p.
Proof. exact jp_parse_render. Qed.
Print Assumptions C18_pointer_roundtrip.

(* add / replace / remove addressed by the rendered pointer of ANY member name act on exactly that member *)
Theorem C18_special_keys : forall (o : obj) k v,
  jp_parse (jp_render [k]) = Some [k] /\
  apply_ops [OAdd (jp_render [k]) v] (JObj o) = Some (JObj (set k v o)) /\
  (has k o = true -> apply_ops [OReplace (jp_render [k]) v] (JObj o) = Some (JObj (set k v o))) /\
  (has k o = true -> apply_ops [ORemove (jp_render [k])] (JObj o) = Some (JObj (del k o))).
Proof. exact special_keys_all. Qed.
Print Assumptions C18_special_keys.

(* ---- non-vacuity ---- *)

(* the hypotheses of C18_dsl_is_merge / C18_patch_fidelity are satisfiable (set, overwrite, delete, nested merge,
   special key, a mapping over a string), and the law of from_diff has a model *)
Theorem C18_hypotheses_satisfiable : is_obj ex_patch = true /\ wf ex_patch = true /\ is_obj ex_body = true.
Proof. exact hypotheses_satisfiable. Qed.
Print Assumptions C18_hypotheses_satisfiable.

Theorem C18_from_diff_law_satisfiable : forall a b, apply_ops (root_replace_diff a b) a = Some b.
Proof. exact root_replace_law. Qed.
Print Assumptions C18_from_diff_law_satisfiable.
