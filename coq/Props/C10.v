(* C10 — timer schedule laws: no self-overlap, interval / sharp / idle / initial-delay timing.
   Only statements here; proofs in Proofs/Timer.v; model in Model/Timer.v (kopf/_core/engines/daemons.py:_timer,
   aiotime.sleep, the in-memory progression.State, execute_handler_once's classification).
   Non-vacuity Examples (one per implication, `nv_<theorem>`): Proofs/TimerExamples.v.

   Every theorem quantifies over EVERY configuration (interval, sharp, idle, initial_delay, retries, timeout,
   backoff, errors mode — absent ones included), EVERY script of handler durations, patch latencies and outcomes
   (return / TemporaryError(delay|None) / PermanentError / arbitrary exception / HandlerChildrenRetry) of ANY length,
   EVERY list of instants of essential changes — early (before the timer's task step of that instant) and late
   (after it), which is every order there is, because the timer reads idle_reset_time only in its own steps and
   makes all reads of one instant in one step (S-tie C10_skeleton) — EVERY stop instant / horizon / spawn instant
   and every fuel of the waiting loops.  The cycle list of a script is a prefix of the cycle list of every longer
   script (C10_prefix_stable), so the laws hold of the whole, unbounded behaviour.
   `y_pend` = instant after the result patch ("the previous run ended"), `y_hend` = instant the function
   returned/raised, `y_start` = instant of `started = clock()` = the function's entry.
   `idle_ok e idle b s` : s is the FIRST instant >= b not within `idle` after the last essential change, i.e.
   the run is postponed by idling and by nothing else.

   CLAUSE AUDIT (statement and quantifier of properties.jsonl C10)
   ------------------------------------------------------------------------------------------------------------
   clause                                             | stated by
   ---------------------------------------------------+--------------------------------------------------------
   S1 a timer never overlaps with itself              | FULL  C10_no_overlap (any two cycles, patch included)
   S2 after a successful run the next run starts one  | FULL  C10_after_success (exact: first instant >= end+interval
      interval after the previous run ended, unless   |       that idling allows), C10_after_success_no_idle (=);
      idling postpones it                             |       it exists: C10_progress; it is a RUN exactly when the
                                                      |       strict checks allow: C10_run_after_success (exact),
                                                      |       C10_run_after_success_partial / _refuted  (the handler
                                                      |       timeout counts the idle wait: CANDIDATE FINDING, reported,
                                                      |       not recorded; monitors count it only)
   S3 ... or on the interval grid counted from its    | FULL for "its start" = the previous run's start:
      start, when sharp                               |       C10_after_success_sharp (exact); for "its" = the timer's
                                                      |       first start: C10_sharp_grid_partial + C10_sharp_grid_refuted
                                                      |       (idling re-anchors the grid; a reading, not a defect)
   S4 after a failed run: the error's delay or the    | FULL  C10_after_failure (two consecutive runs, any retries/
      handler's backoff instead                       |       timeout setting), C10_after_failure_exact (exact next start,
                                                      |       interval unused); final failure => no run ever again:
                                                      |       C10_no_run_after_final_failure
   S5 first run not earlier than the initial delay    | FULL  C10_initial_delay (every run), C10_first_run (exact),
                                                      |       C10_first_cycle_run (whether it is a run)
   S6 no run within the idle time after the last      | FULL  C10_idle (early and late changes), C10_idle_only
      essential change                                |
   Q1 every combination of interval/sharp/idle/       | universally quantified `cfg` (options); degenerate numbers
      initial_delay incl. absent                      |       (<= 0) included; one-shot: C10_one_shot; ends only for
                                                      |       modelled causes: C10_final_causes
   Q2 every handler duration (<, =, > interval)       | `e_dur` any Z (negative = 0)
   Q3 every outcome script                            | any list of entries, any length: C10_script_order,
                                                      |       C10_prefix_stable, C10_progress
   Q4 every timing of object changes                  | any instants, early/late order within an instant; atomicity of
                                                      |       check -> started -> invocation: C10_skeleton (S-tie)
   sleeps are genuine / stop                          | C10_sleep_exact, C10_no_suspension_after_stop,
                                                      |       C10_not_after_stop (the stall-under-stop monitor's law)
   NOT COVERED: float rounding for non-dyadic numbers (monitor-only float stream); callable initial_delay (user
   code: its value is the model's number); sync functions in threads; cancellation of the task (C09);
   fuel of the idle-only polling loop (bounded by horizon/idle, not proved; C10_idle_wait_fuel covers the idle wait).
   ------------------------------------------------------------------------------------------------------------ *)
From Coq Require Import ZArith List Bool.
From KV Require Import Model.Timer Proofs.Timer Proofs.TimerAwaits Proofs.TimerExamples.
Import ListNotations.
Open Scope Z_scope.

(* S-tie: no suspension point between the idle check, `started = clock()` and the invocation; the shape
   of the schedule decision after the patch is the one modelled (skeleton re-extracted on every run). *)
Theorem C10_skeleton : Gen.Awaits.awaits_timer = expected_awaits_timer.
Proof. exact awaits_timer_ok. Qed.
Print Assumptions C10_skeleton.

(* the model's cycles consume the script entries one by one, in order *)
Theorem C10_script_order : forall fuel c e spawn script,
  exists n, map y_en (timer_cycles fuel c e spawn script) = firstn n script.
Proof. exact timer_script_prefix. Qed.
Print Assumptions C10_script_order.

(* 1. A timer never overlaps with itself: a later cycle starts at or after the end (incl. patch) of every earlier one. *)
Theorem C10_no_overlap : forall fuel c e spawn script i j yi yj, (i < j)%nat ->
  nth_error (timer_cycles fuel c e spawn script) i = Some yi ->
  nth_error (timer_cycles fuel c e spawn script) j = Some yj ->
  y_start yi <= y_hend yi /\ y_hend yi <= y_pend yi /\ y_pend yi <= y_start yj.
Proof. exact law_no_overlap. Qed.
Print Assumptions C10_no_overlap.

(* 2. After a finished run of a non-sharp timer the next one starts exactly one interval after the previous
      run ended, unless idling postpones it (and then at the first instant idling allows). *)
Theorem C10_after_success : forall fuel c e spawn script k y1 y2 i,
  nth_error (timer_cycles fuel c e spawn script) k = Some y1 ->
  nth_error (timer_cycles fuel c e spawn script) (S k) = Some y2 ->
  y_done y1 = true -> c_interval c = Some i -> c_sharp c = false ->
  idle_ok e (c_idle c) (y_pend y1 + Z.max 0 i) (y_start y2).
Proof. exact law_after_success_interval. Qed.
Print Assumptions C10_after_success.

Theorem C10_after_success_no_idle : forall fuel c e spawn script k y1 y2 i,
  nth_error (timer_cycles fuel c e spawn script) k = Some y1 ->
  nth_error (timer_cycles fuel c e spawn script) (S k) = Some y2 ->
  y_done y1 = true -> c_interval c = Some i -> c_sharp c = false -> c_idle c = None ->
  y_start y2 = y_pend y1 + Z.max 0 i.
Proof. exact law_after_success_interval_noidle. Qed.
Print Assumptions C10_after_success_no_idle.

(* 3. Sharp: the next run is due at the first point of (previous start) + interval * {1,2,...} strictly after the
      previous end (the grid is counted from the previous run's own start), unless idling postpones it. *)
Theorem C10_after_success_sharp : forall fuel c e spawn script k y1 y2 i,
  nth_error (timer_cycles fuel c e spawn script) k = Some y1 ->
  nth_error (timer_cycles fuel c e spawn script) (S k) = Some y2 ->
  y_done y1 = true -> c_interval c = Some i -> c_sharp c = true -> 0 < i ->
  exists m, 1 <= m /\ y_pend y1 < y_start y1 + m * i <= y_pend y1 + i /\
            idle_ok e (c_idle c) (y_start y1 + m * i) (y_start y2).
Proof. exact law_after_success_sharp. Qed.
Print Assumptions C10_after_success_sharp.

(* Without idling and failures every start is on the grid of the FIRST start ... *)
Theorem C10_sharp_grid_partial : forall fuel c e spawn script i,
  c_interval c = Some i -> c_sharp c = true -> 0 < i -> c_idle c = None ->
  (forall y, In y (timer_cycles fuel c e spawn script) -> y_done y = true) ->
  forall k y0 y, nth_error (timer_cycles fuel c e spawn script) 0 = Some y0 ->
                 nth_error (timer_cycles fuel c e spawn script) k = Some y ->
                 exists m, 0 <= m /\ y_start y = y_start y0 + m * i.
Proof. exact sharp_grid. Qed.
Print Assumptions C10_sharp_grid_partial.

(* ... but "the grid counted from the timer's start" is false once idling postpones a run: the grid is re-anchored. *)
Theorem C10_sharp_grid_refuted :
  exists fuel c e spawn script i y0 y1,
    c_interval c = Some i /\ c_sharp c = true /\ 0 < i /\
    (forall y, In y (timer_cycles fuel c e spawn script) -> y_done y = true) /\
    nth_error (timer_cycles fuel c e spawn script) 0 = Some y0 /\
    nth_error (timer_cycles fuel c e spawn script) 1 = Some y1 /\
    (y_start y1 - y_start y0) mod i <> 0.
Proof. exact sharp_global_grid_refuted. Qed.
Print Assumptions C10_sharp_grid_refuted.

(* 4. After a failed run that is to be retried: the error's delay (TemporaryError) or the handler's backoff
      (arbitrary exception, TEMPORARY mode), counted from the end of the function, NOT the interval. *)
Theorem C10_after_failure_exact : forall fuel c e spawn script k y1 y2,
  nth_error (timer_cycles fuel c e spawn script) k = Some y1 ->
  nth_error (timer_cycles fuel c e spawn script) (S k) = Some y2 ->
  y_inv y1 = true -> y_done y1 = false ->
  (forall d, retry_delay c (e_out (y_en y1)) = Some d ->
      y_hend y1 + d <= y_start y2 /\ idle_ok e (c_idle c) (Z.max (y_pend y1) (y_hend y1 + d)) (y_start y2)) /\
  (retry_delay c (e_out (y_en y1)) = None -> idle_ok e (c_idle c) (y_pend y1) (y_start y2)).
Proof. exact law_after_failure. Qed.
Print Assumptions C10_after_failure_exact.

(* The full statement of the law, for two consecutive RUNS (both cycles entered the function): whatever the
   retries/timeout settings, a TemporaryError imposes its delay and an arbitrary exception (unless ignored)
   the backoff.  (Before the fix e01f313 of /repo this was refuted: a final failure was followed by the
   interval; now a final failure is followed by no run at all, see C10_no_run_after_final_failure.) *)
Theorem C10_after_failure : forall fuel c e spawn script k y1 y2,
  nth_error (timer_cycles fuel c e spawn script) k = Some y1 ->
  nth_error (timer_cycles fuel c e spawn script) (S k) = Some y2 ->
  y_inv y1 = true -> y_inv y2 = true ->
  e_out (y_en y1) <> OOk -> (e_out (y_en y1) = OArb -> c_errors c <> EIgnored) ->
  y_done y1 = false /\
  (forall d, retry_delay c (e_out (y_en y1)) = Some d ->       (* TemporaryError / children-retry delay, or the backoff *)
     y_hend y1 + d <= y_start y2 /\ idle_ok e (c_idle c) (Z.max (y_pend y1) (y_hend y1 + d)) (y_start y2)) /\
  (retry_delay c (e_out (y_en y1)) = None -> idle_ok e (c_idle c) (y_pend y1) (y_start y2)).
Proof. exact law_after_failure_full. Qed.
Print Assumptions C10_after_failure.

(* After a final failure (PermanentError, retries or timeout exhausted, strict checks) the function is never
   entered again: every later cycle only sleeps the interval / idle. *)
Theorem C10_no_run_after_final_failure : forall fuel c e spawn script i j yi yj, (i < j)%nat ->
  nth_error (timer_cycles fuel c e spawn script) i = Some yi -> y_failed yi = true ->
  nth_error (timer_cycles fuel c e spawn script) j = Some yj ->
  y_inv yj = false /\ y_failed yj = true.
Proof. exact law_no_run_after_final_failure. Qed.
Print Assumptions C10_no_run_after_final_failure.

(* 5. No run is earlier than the initial delay; the first one is at the first instant idling allows after it. *)
Theorem C10_initial_delay : forall fuel c e spawn script d y,
  c_initial c = Some d -> In y (timer_cycles fuel c e spawn script) -> spawn + d <= y_start y.
Proof. exact law_initial_delay. Qed.
Print Assumptions C10_initial_delay.

Theorem C10_first_run : forall fuel c e spawn script y,
  nth_error (timer_cycles fuel c e spawn script) 0 = Some y ->
  idle_ok e (c_idle c) (spawn + Z.max 0 (match c_initial c with Some d => d | None => 0 end)) (y_start y).
Proof. exact law_first_run. Qed.
Print Assumptions C10_first_run.

(* 6. No run starts within the idle time after the last essential change (incl. the one that created the memory). *)
Theorem C10_idle : forall fuel c e spawn script i y,
  c_idle c = Some i -> In y (timer_cycles fuel c e spawn script) ->
  (forall r, r = v_irt0 e \/ In r (v_resets e) -> r <= y_start y -> r + i <= y_start y) /\
  (forall r, In r (v_late e) -> r < y_start y -> r + i <= y_start y).
Proof. exact law_idle. Qed.
Print Assumptions C10_idle.

(* idle-only timers: a further run needs an essential change after the previous run started *)
Theorem C10_idle_only : forall fuel c e spawn script k y1 y2 i,
  c_interval c = None -> c_idle c = Some i ->
  nth_error (timer_cycles fuel c e spawn script) k = Some y1 ->
  nth_error (timer_cycles fuel c e spawn script) (S k) = Some y2 -> y_done y1 = true ->
  y_pend y1 <= y_start y2 /\ y_start y1 < irt e (y_start y2).
Proof. exact law_idle_only. Qed.
Print Assumptions C10_idle_only.

(* neither interval nor idle: the finished run is the last one *)
Theorem C10_one_shot : forall fuel c e spawn script k y,
  c_interval c = None -> c_idle c = None ->
  nth_error (timer_cycles fuel c e spawn script) k = Some y -> y_done y = true ->
  List.length (timer_cycles fuel c e spawn script) = S k.
Proof. exact law_one_shot. Qed.
Print Assumptions C10_one_shot.

(* no cycle starts once the stopper is set *)
Theorem C10_not_after_stop : forall fuel c e spawn script y s,
  In y (timer_cycles fuel c e spawn script) -> v_stop e = Some s -> y_start y < s.
Proof. exact law_not_after_stop. Qed.
Print Assumptions C10_not_after_stop.

(* fuel: the model's idle wait (the loop before a run) never runs out of fuel when fuel >= |changes| + 2;
   the harness evaluates the model with fuel 400 and at most 4 changes. *)
Theorem C10_idle_wait_fuel : forall e i fuel now evs t, (List.length (v_resets e ++ v_late e) + 2 <= fuel)%nat ->
  idle_wait fuel e i now <> (evs, WEnd (FFuel t)).
Proof. exact idle_wait_fuel_enough. Qed.
Print Assumptions C10_idle_wait_fuel.

(* Is a due cycle a RUN?  The state is created at the instant the run is due (after the idle wait: /repo 071710e,
   finding F1001), so the strict checks of execute_handler_once see runtime 0 and 0 retries: the first cycle and
   every cycle after a success enters the function unless the handler is declared with timeout <= 0 or retries <= 0. *)
Theorem C10_run_after_success : forall fuel c e spawn script k y1 y2,
  nth_error (timer_cycles fuel c e spawn script) k = Some y1 ->
  nth_error (timer_cycles fuel c e spawn script) (S k) = Some y2 ->
  y_done y1 = true -> y_failed y1 = false ->
  y_inv y2 = run_allowed c.
Proof. exact law_run_after_success. Qed.
Print Assumptions C10_run_after_success.

Theorem C10_first_cycle_run : forall fuel c e spawn script y,
  nth_error (timer_cycles fuel c e spawn script) 0 = Some y -> y_inv y = run_allowed c.
Proof. exact law_first_cycle_run. Qed.
Print Assumptions C10_first_cycle_run.

(* the full statement: every due run is MADE, however long idling postponed it (regression Examples
   ex_idle_wait_not_counted, ex_f1001_witness in Proofs/Timer.v: the former refutation witnesses) *)
Theorem C10_run_made : forall fuel c e spawn script,
  (c_timeout c = None \/ exists T, c_timeout c = Some T /\ 0 < T) ->
  (c_retries c = None \/ exists N, c_retries c = Some N /\ 0 < N) ->
  (forall y, nth_error (timer_cycles fuel c e spawn script) 0 = Some y -> y_inv y = true) /\
  (forall k y1 y2, nth_error (timer_cycles fuel c e spawn script) k = Some y1 ->
                   nth_error (timer_cycles fuel c e spawn script) (S k) = Some y2 ->
                   y_done y1 = true -> y_failed y1 = false -> y_inv y2 = true).
Proof. exact law_run_made. Qed.
Print Assumptions C10_run_made.

(* Unboundedness of "every outcome script": a longer script only extends the behaviour ... *)
Theorem C10_prefix_stable : forall fuel c e spawn script more,
  exists tail, timer_cycles fuel c e spawn (script ++ more) = timer_cycles fuel c e spawn script ++ tail.
Proof. exact law_prefix_stable. Qed.
Print Assumptions C10_prefix_stable.

(* ... a run that ended for any reason but the end of the script is not changed at all by more script ... *)
Theorem C10_final_stable : forall fuel c e spawn script more,
  (forall t, snd (timer_run fuel c e spawn script) <> FOut t) ->
  timer_run fuel c e spawn (script ++ more) = timer_run fuel c e spawn script.
Proof. exact law_final_not_out_stable. Qed.
Print Assumptions C10_final_stable.

(* ... and when only the script ended (FOut t) the next cycle DOES come, at t (progress: the timer is not stuck). *)
Theorem C10_progress : forall fuel c e spawn script t en more,
  snd (timer_run fuel c e spawn script) = FOut t ->
  exists y tail, timer_cycles fuel c e spawn (script ++ en :: more) = timer_cycles fuel c e spawn script ++ y :: tail /\
                 y_start y = t /\ y_en y = en.
Proof. exact law_progress. Qed.
Print Assumptions C10_progress.

(* What must NOT happen: a timer ends only for these causes — `break` needs neither interval nor idle; the stopper;
   a non-suspending idle-only wait needs idle <= 0 and NO stopper set; ZeroDivisionError needs sharp with interval 0. *)
Theorem C10_final_causes : forall fuel c e spawn script,
  match snd (timer_run fuel c e spawn script) with
  | FExited _ => c_interval c = None /\ c_idle c = None
  | FStopped t => stopped e t = true
  | FStall t => stopped e t = false /\ c_interval c = None /\ exists i, c_idle c = Some i /\ i <= 0
  | FCrash _ => c_interval c = Some 0 /\ c_sharp c = true
  | FOut t => stopped e t = false
  | FHorizon _ | FFuel _ => True
  end.
Proof. exact timer_final_ok. Qed.
Print Assumptions C10_final_causes.

(* every recorded sleep is aiotime.sleep's: once the stopper is set nothing suspends any more ... *)
Theorem C10_no_suspension_after_stop : forall fuel c e spawn script t d w,
  In (ESleep t d w) (fst (timer_run fuel c e spawn script)) -> stopped e t = true -> w = Some t.
Proof. exact law_no_suspension_after_stop. Qed.
Print Assumptions C10_no_suspension_after_stop.

(* ... and a sleep not cut short by the stopper lasts exactly max(0, delay). *)
Theorem C10_sleep_exact : forall fuel c e spawn script t d u,
  In (ESleep t d (Some u)) (fst (timer_run fuel c e spawn script)) -> stopped e u = false -> u = t + Z.max 0 d.
Proof. exact law_sleep_exact. Qed.
Print Assumptions C10_sleep_exact.

(* an event resets the idle time iff it is the first sight of the object (no last-handled essence) or its essence
   differs from the last-handled one -- whatever its type (tied to processing._detect_causes by D:reset and by the
   timer histories, whose essential changes arrive as ADDED / MODIFIED / re-listing (None) events) *)
Theorem C10_reset_rule : forall has_last_handled essence_changed,
  reset_flag has_last_handled essence_changed = true <-> (has_last_handled = false \/ essence_changed = true).
Proof. exact reset_flag_rule. Qed.
Print Assumptions C10_reset_rule.
