(* C10 — timer schedule laws: no self-overlap, interval / sharp / idle / initial-delay timing.
   Only statements here; proofs in Proofs/Timer.v; model in Model/Timer.v (kopf/_core/engines/daemons.py:_timer).

   Every theorem quantifies over EVERY configuration (interval, sharp, idle, initial_delay, retries,
   timeout, backoff, errors mode — absent ones included), EVERY script of handler durations, patch
   latencies and outcomes (of any length), EVERY list of instants of essential changes, EVERY stop
   instant / horizon / spawn instant and every fuel of the waiting loops: the produced cycle list is a
   prefix of the timer's behaviour, and the laws hold of every prefix.
   `y_pend` is the instant after the result patch ("the previous run ended"), `y_hend` the instant the
   function returned/raised, `y_start` the instant `started = clock()` = the function's entry.
   `idle_ok e idle b s` : s is the FIRST instant >= b that is not within `idle` after the last essential
   change, i.e. the run is postponed by idling and by nothing else. *)
From Coq Require Import ZArith List Bool.
From KV Require Import Model.Timer Proofs.Timer Proofs.TimerAwaits.
Import ListNotations.
Open Scope Z_scope.

(* S-tie: no suspension point between the idle check, `started = clock()` and the invocation; the shape
   of the schedule decision after the patch is the one modelled (skeleton re-extracted on every run). *)
Theorem C10_skeleton : Gen.Awaits.awaits_timer = expected_awaits_timer.
Proof. exact awaits_timer_ok. Qed.
Print Assumptions C10_skeleton.

(* the model's cycles consume the script entries one by one, in order *)
Theorem C10_script_order : forall fuel c e spawn script,
  exists n, map y_en (timer_cycles fuel c e spawn script) = firstn n script.
Proof. exact timer_script_prefix. Qed.
Print Assumptions C10_script_order.

(* 1. A timer never overlaps with itself: a later cycle starts at or after the end (incl. patch) of every earlier one. *)
Theorem C10_no_overlap : forall fuel c e spawn script i j yi yj, (i < j)%nat ->
  nth_error (timer_cycles fuel c e spawn script) i = Some yi ->
  nth_error (timer_cycles fuel c e spawn script) j = Some yj ->
  y_start yi <= y_hend yi /\ y_hend yi <= y_pend yi /\ y_pend yi <= y_start yj.
Proof. exact law_no_overlap. Qed.
Print Assumptions C10_no_overlap.

(* 2. After a finished run of a non-sharp timer the next one starts exactly one interval after the previous
      run ended, unless idling postpones it (and then at the first instant idling allows). *)
Theorem C10_after_success : forall fuel c e spawn script k y1 y2 i,
  nth_error (timer_cycles fuel c e spawn script) k = Some y1 ->
  nth_error (timer_cycles fuel c e spawn script) (S k) = Some y2 ->
  y_done y1 = true -> c_interval c = Some i -> c_sharp c = false ->
  idle_ok e (c_idle c) (y_pend y1 + Z.max 0 i) (y_start y2).
Proof. exact law_after_success_interval. Qed.
Print Assumptions C10_after_success.

Theorem C10_after_success_no_idle : forall fuel c e spawn script k y1 y2 i,
  nth_error (timer_cycles fuel c e spawn script) k = Some y1 ->
  nth_error (timer_cycles fuel c e spawn script) (S k) = Some y2 ->
  y_done y1 = true -> c_interval c = Some i -> c_sharp c = false -> c_idle c = None ->
  y_start y2 = y_pend y1 + Z.max 0 i.
Proof. exact law_after_success_interval_noidle. Qed.
Print Assumptions C10_after_success_no_idle.

(* 3. Sharp: the next run is due at the first point of (previous start) + interval * {1,2,...} strictly after the
      previous end (the grid is counted from the previous run's own start), unless idling postpones it. *)
Theorem C10_after_success_sharp : forall fuel c e spawn script k y1 y2 i,
  nth_error (timer_cycles fuel c e spawn script) k = Some y1 ->
  nth_error (timer_cycles fuel c e spawn script) (S k) = Some y2 ->
  y_done y1 = true -> c_interval c = Some i -> c_sharp c = true -> 0 < i ->
  exists m, 1 <= m /\ y_pend y1 < y_start y1 + m * i <= y_pend y1 + i /\
            idle_ok e (c_idle c) (y_start y1 + m * i) (y_start y2).
Proof. exact law_after_success_sharp. Qed.
Print Assumptions C10_after_success_sharp.

(* Without idling and failures every start is on the grid of the FIRST start ... *)
Theorem C10_sharp_grid_partial : forall fuel c e spawn script i,
  c_interval c = Some i -> c_sharp c = true -> 0 < i -> c_idle c = None ->
  (forall y, In y (timer_cycles fuel c e spawn script) -> y_done y = true) ->
  forall k y0 y, nth_error (timer_cycles fuel c e spawn script) 0 = Some y0 ->
                 nth_error (timer_cycles fuel c e spawn script) k = Some y ->
                 exists m, 0 <= m /\ y_start y = y_start y0 + m * i.
Proof. exact sharp_grid. Qed.
Print Assumptions C10_sharp_grid_partial.

(* ... but "the grid counted from the timer's start" is false once idling postpones a run: the grid is re-anchored. *)
Theorem C10_sharp_grid_refuted :
  exists fuel c e spawn script i y0 y1,
    c_interval c = Some i /\ c_sharp c = true /\ 0 < i /\
    (forall y, In y (timer_cycles fuel c e spawn script) -> y_done y = true) /\
    nth_error (timer_cycles fuel c e spawn script) 0 = Some y0 /\
    nth_error (timer_cycles fuel c e spawn script) 1 = Some y1 /\
    (y_start y1 - y_start y0) mod i <> 0.
Proof. exact sharp_global_grid_refuted. Qed.
Print Assumptions C10_sharp_grid_refuted.

(* 4. After a failed run that is to be retried: the error's delay (TemporaryError) or the handler's backoff
      (arbitrary exception, TEMPORARY mode), counted from the end of the function, NOT the interval. *)
Theorem C10_after_failure_exact : forall fuel c e spawn script k y1 y2,
  nth_error (timer_cycles fuel c e spawn script) k = Some y1 ->
  nth_error (timer_cycles fuel c e spawn script) (S k) = Some y2 ->
  y_inv y1 = true -> y_done y1 = false ->
  (forall d, e_out (y_en y1) = OTemp (Some d) ->
      y_hend y1 + d <= y_start y2 /\ idle_ok e (c_idle c) (Z.max (y_pend y1) (y_hend y1 + d)) (y_start y2)) /\
  (e_out (y_en y1) = OTemp None -> idle_ok e (c_idle c) (y_pend y1) (y_start y2)) /\
  (e_out (y_en y1) = OArb ->
      y_hend y1 + c_backoff c <= y_start y2 /\
      idle_ok e (c_idle c) (Z.max (y_pend y1) (y_hend y1 + c_backoff c)) (y_start y2)).
Proof. exact law_after_failure. Qed.
Print Assumptions C10_after_failure_exact.

(* The full statement of the law, for two consecutive RUNS (both cycles entered the function): whatever the
   retries/timeout settings, a TemporaryError imposes its delay and an arbitrary exception (unless ignored)
   the backoff.  (Before the fix e01f313 of /repo this was refuted: a final failure was followed by the
   interval; now a final failure is followed by no run at all, see C10_no_run_after_final_failure.) *)
Theorem C10_after_failure : forall fuel c e spawn script k y1 y2,
  nth_error (timer_cycles fuel c e spawn script) k = Some y1 ->
  nth_error (timer_cycles fuel c e spawn script) (S k) = Some y2 ->
  y_inv y1 = true -> y_inv y2 = true ->
  (forall d, e_out (y_en y1) = OTemp (Some d) -> y_hend y1 + d <= y_start y2) /\
  (e_out (y_en y1) = OArb -> c_errors c <> EIgnored -> y_hend y1 + c_backoff c <= y_start y2).
Proof. exact law_after_failure_full. Qed.
Print Assumptions C10_after_failure.

(* After a final failure (PermanentError, retries or timeout exhausted, strict checks) the function is never
   entered again: every later cycle only sleeps the interval / idle. *)
Theorem C10_no_run_after_final_failure : forall fuel c e spawn script i j yi yj, (i < j)%nat ->
  nth_error (timer_cycles fuel c e spawn script) i = Some yi -> y_failed yi = true ->
  nth_error (timer_cycles fuel c e spawn script) j = Some yj ->
  y_inv yj = false /\ y_failed yj = true.
Proof. exact law_no_run_after_final_failure. Qed.
Print Assumptions C10_no_run_after_final_failure.

(* 5. No run is earlier than the initial delay; the first one is at the first instant idling allows after it. *)
Theorem C10_initial_delay : forall fuel c e spawn script d y,
  c_initial c = Some d -> In y (timer_cycles fuel c e spawn script) -> spawn + d <= y_start y.
Proof. exact law_initial_delay. Qed.
Print Assumptions C10_initial_delay.

Theorem C10_first_run : forall fuel c e spawn script y,
  nth_error (timer_cycles fuel c e spawn script) 0 = Some y ->
  idle_ok e (c_idle c) (spawn + Z.max 0 (match c_initial c with Some d => d | None => 0 end)) (y_start y).
Proof. exact law_first_run. Qed.
Print Assumptions C10_first_run.

(* 6. No run starts within the idle time after the last essential change (incl. the one that created the memory). *)
Theorem C10_idle : forall fuel c e spawn script i y r,
  c_idle c = Some i -> In y (timer_cycles fuel c e spawn script) ->
  (r = v_irt0 e \/ In r (v_resets e)) -> r <= y_start y -> r + i <= y_start y.
Proof. exact law_idle. Qed.
Print Assumptions C10_idle.

(* idle-only timers: a further run needs an essential change after the previous run started *)
Theorem C10_idle_only : forall fuel c e spawn script k y1 y2 i,
  c_interval c = None -> c_idle c = Some i ->
  nth_error (timer_cycles fuel c e spawn script) k = Some y1 ->
  nth_error (timer_cycles fuel c e spawn script) (S k) = Some y2 -> y_done y1 = true ->
  y_pend y1 <= y_start y2 /\ y_start y1 < irt e (y_start y2).
Proof. exact law_idle_only. Qed.
Print Assumptions C10_idle_only.

(* neither interval nor idle: the finished run is the last one *)
Theorem C10_one_shot : forall fuel c e spawn script k y,
  c_interval c = None -> c_idle c = None ->
  nth_error (timer_cycles fuel c e spawn script) k = Some y -> y_done y = true ->
  List.length (timer_cycles fuel c e spawn script) = S k.
Proof. exact law_one_shot. Qed.
Print Assumptions C10_one_shot.

(* no cycle starts once the stopper is set *)
Theorem C10_not_after_stop : forall fuel c e spawn script y s,
  In y (timer_cycles fuel c e spawn script) -> v_stop e = Some s -> y_start y < s.
Proof. exact law_not_after_stop. Qed.
Print Assumptions C10_not_after_stop.

(* fuel: the model's idle wait (the loop before a run) never runs out of fuel when fuel >= |changes| + 2;
   the harness evaluates the model with fuel 400 and at most 4 changes. *)
Theorem C10_idle_wait_fuel : forall e i fuel now evs t, (List.length (v_resets e) + 2 <= fuel)%nat ->
  idle_wait fuel e i now <> (evs, WEnd (FFuel t)).
Proof. exact idle_wait_fuel_enough. Qed.
Print Assumptions C10_idle_wait_fuel.
