(* C11 — handler error policy: retry delays, permanence, retries/timeout limits.
   Only statements here (`exact <lemma>`); proofs in Proofs/Outcome.v, OutcomeLive.v, AttemptsApply.v, AttemptsBatch.v.
   Models (hand-written, tied to /repo on every run by harness/kv/props/c11.py + c11_loop.py):
     Model/Outcome.v        execute_handler_once (strict checks, classification, look-ahead), HandlerState algebra,
                            storage record, State.done/delays/delay, aiotime.sleep
     Model/Attempts.v       generic driver LTS (Tick/Reset labels, ANY tick times), run_activity/_daemon/_timer loops,
                            the persisted driver (state re-read from the stored record each cycle, restarts)
     Model/AttemptsApply.v  application.apply (patch -> sleep -> touch) and the closed loop it forms with
                            process_changing_cause when nobody else touches the object
     Model/AttemptsBatch.v  several handlers per execute_handlers_once batch under ANY lifecycle, the three
                            lifecycles of lifecycles.py, run_activity over several handlers, subhandling.execute's tail
   Times are integer milliseconds. [exec e c retries rt_call rt_end r]: the strict checks read the runtime at the
   call, the look-ahead checks at the moment the handler raised.

   CLAUSE TABLE (statement of C11 in properties.jsonl; quantifier: every errors mode, every retries/timeout/backoff
   setting, every script of raised kinds and delays, every restart position — all theorems quantify over these
   unboundedly; "generic" = for every label list of the generic driver, i.e. every sleeping policy, every event in
   between, every position in a batch):
   +----+----------------------------------------------------------+------------------------------------------------------+
   | #  | clause                                                   | stated in full by                                    |
   +----+----------------------------------------------------------+------------------------------------------------------+
   | 1  | temporary error / arbitrary error in default mode        | one invocation: C11_temp_retried_after_delay,        |
   |    | "is retried" (liveness)                                  | C11_arbitrary_by_mode (state stays unfinished and is |
   |    |                                                          | awakened from end+delay on). Drivers (the next       |
   |    |                                                          | iteration happens at exactly end + max 0 delay and   |
   |    |                                                          | executes the handler): C11_activity_retried,         |
   |    |                                                          | C11_daemon_retried (stopper not set before),         |
   |    |                                                          | C11_timer_retried, C11_change_handler_retried        |
   |    |                                                          | (closed loop through application.apply, no foreign   |
   |    |                                                          | events, keep-alive cap incl.), C11_apply_wakes,      |
   |    |                                                          | C11_parent_follows_children (parent of sub-handlers).|
   |    |                                                          | With foreign events / restarts during the wait the   |
   |    |                                                          | liveness of the whole operator is C03's; here: safety|
   | 2  | "never sooner than the requested delay or backoff"       | C11_delay_respected (generic), C11_apply_touch_after_|
   |    |                                                          | delay, exactness in the *_retried theorems           |
   | 3  | permanent error / arbitrary in permanent mode "ends it   | C11_perm_final, C11_arbitrary_by_mode,               |
   |    | without retry"                                           | C11_failed_for_good, C11_failed_forever (generic)    |
   | 4  | "in ignored mode an arbitrary error counts as done"      | C11_arbitrary_by_mode (success recorded),            |
   |    |                                                          | C11_failed_for_good (nothing entered afterwards)     |
   | 5  | "with retries=N invoked at most N times"                 | C11_retries_bound, C11_retry_counts_attempts,        |
   |    |                                                          | C11_every_lifetime (generic)                         |
   | 6  | "with timeout=T no attempt starts later than T after the | C11_timeout_bound (generic; strict: < T)             |
   |    | first one"                                               |                                                      |
   | 7  | "after which it is recorded as failed for good"          | C11_limits_fail_for_good (the skipped call records   |
   |    |                                                          | the failure), look-ahead cases: C11_arbitrary_by_mode|
   |    |                                                          | C11_temp_at_limit_fails; C11_failed_forever          |
   | 8a | "... for change handlers"                                | C11_across_restarts (persisted driver, any event     |
   |    |                                                          | times), C11_change_handler_retried                   |
   | 8b | "sub-handlers"                                           | C11_batch_lifetimes (each handler of a batch, under  |
   |    |                                                          | EVERY lifecycle, is a generic run),                  |
   |    |                                                          | C11_parent_follows_children                          |
   | 8c | "daemons"                                                | C11_daemon_driver, C11_daemon_retried                |
   | 8d | "timers"                                                 | C11_timer_whole_life, C11_reset_only_after_success,  |
   |    |                                                          | C11_timer_retried, C11_timer_after_success (F9 fixed |
   |    |                                                          | by e01f313: no _refuted/_partial pair left)          |
   | 8e | "activities"                                             | C11_activity_driver, C11_activity_retried,           |
   |    |                                                          | C11_multi_activity_driver, C11_lifecycles_plan_ok    |
   | 9  | "for change handlers also across operator restarts"      | C11_across_restarts (restarts AND changes of the     |
   |    | (incl. the cause changing while the handler sleeps:      | cause at ANY positions), C11_restarts_invisible,     |
   |    | resume->update after a restart, update->delete)          | C11_repurpose_preserves, C11_repurposings_invisible, |
   |    |                                                          | C11_storage_roundtrip                                |
   +----+----------------------------------------------------------+------------------------------------------------------+
   Monitored only (no theorem): the verdict of run_activity (ActivityError iff a handler failed; D:activity compares
   it with the model's final state), "no entry after the stopper is set" (C09's clause), busy loops (not-finished).
   Not covered: the default errors mode per handler KIND is an argument (e_errors) — that on.event/index handlers pass
   IGNORED and webhooks PERMANENT is C15/C18 territory; timers with idle=, initial_delay (C09/C10); sync handlers in
   thread pools; BaseException other than cancellation; liveness with foreign events or restarts DURING the wait
   (the per-object level-triggered convergence is C03); the ROk branch of [sub_raise] is tied only through the
   closing of the handling cycle. *)
From Coq Require Import ZArith List Bool.
From KV Require Import Model.Outcome Model.Attempts Model.AttemptsApply Model.AttemptsBatch.
From KV Require Import Proofs.Outcome Proofs.OutcomeLive Proofs.AttemptsApply Proofs.AttemptsBatch.
Import ListNotations.
Open Scope Z_scope.

(* ---- one invocation: the decision table, for ALL settings, counters, runtimes, delays (unbounded) ---- *)

(* a temporary error below the look-ahead limits: the handler was entered, stays unfinished, the attempt is
   counted, and it is awakened again exactly from te + delay on (never sooner than the requested delay) *)
Theorem C11_temp_retried_after_delay : forall e c n rc rx d te s,
  strict c n rc = None ->
  reaches (rx + or0 d) (c_timeout c) = false -> reaches (n + 1) (c_retries c) = false ->
  let s' := with_outcome te s (fst (exec e c n rc rx (RTemp d))) in
  snd (exec e c n rc rx (RTemp d)) = true /\
  finished s' = false /\ s_retries s' = s_retries s + 1 /\
  (forall t, te <= t -> (awakened t s' = true <-> te + or0 d <= t)).
Proof. exact thm_temp_retried_after_delay. Qed.
Print Assumptions C11_temp_retried_after_delay.

(* an arbitrary error: IGNORED counts as done; PERMANENT ends it as failed, no delay; TEMPORARY (the default of
   handlers) below the limits is retried exactly from te + backoff on, at a limit it fails for good *)
Theorem C11_arbitrary_by_mode : forall e c n rc rx te s, strict c n rc = None ->
  let s' := with_outcome te s (fst (exec e c n rc rx RArb)) in
  snd (exec e c n rc rx RArb) = true /\
  (eff_mode e c = MIgnored -> s_success s' = true /\ s_failure s' = false) /\
  (eff_mode e c = MPermanent -> s_failure s' = true /\ s_success s' = false /\ s_delayed s' = None) /\
  (eff_mode e c = MTemporary ->
     reaches (rx + eff_backoff e c) (c_timeout c) = false -> reaches (n + 1) (c_retries c) = false ->
     finished s' = false /\ (forall t, awakened t s' = true <-> te + eff_backoff e c <= t)) /\
  (eff_mode e c = MTemporary ->
     reaches (rx + eff_backoff e c) (c_timeout c) = true \/ reaches (n + 1) (c_retries c) = true ->
     s_failure s' = true /\ s_success s' = false).
Proof. exact thm_arbitrary_by_mode. Qed.
Print Assumptions C11_arbitrary_by_mode.

(* a temporary error AT a limit (the retry would start at/after the timeout, or would be the (N+1)-th attempt) is
   recorded as failed for good at once *)
Theorem C11_temp_at_limit_fails : forall e c n rc rx d, strict c n rc = None ->
  (reaches (rx + or0 d) (c_timeout c) = true -> fst (exec e c n rc rx (RTemp d)) = final_with XTimeout) /\
  (reaches (rx + or0 d) (c_timeout c) = false -> reaches (n + 1) (c_retries c) = true ->
     fst (exec e c n rc rx (RTemp d)) = final_with XRetries).
Proof. exact temp_limits. Qed.
Print Assumptions C11_temp_at_limit_fails.

(* a permanent error ends it without retry: failed, no delay, never awakened again *)
Theorem C11_perm_final : forall e c n rc rx r te s,
  (r = RPerm \/ r = RTimeoutE \/ r = RRetriesE) -> strict c n rc = None ->
  let s' := with_outcome te s (fst (exec e c n rc rx r)) in
  snd (exec e c n rc rx r) = true /\ s_failure s' = true /\ s_success s' = false /\
  s_delayed s' = None /\ (forall t, awakened t s' = false).
Proof. exact thm_perm_final. Qed.
Print Assumptions C11_perm_final.

(* the user function is skipped only because timeout or retries is reached, and then the handler is
   recorded as failed for good *)
Theorem C11_limits_fail_for_good : forall e c n rc rx r te s,
  snd (exec e c n rc rx r) = false ->
  ((exists T, c_timeout c = Some T /\ T <= rc) \/ (exists N, c_retries c = Some N /\ N <= n)) /\
  s_failure (with_outcome te s (fst (exec e c n rc rx r))) = true /\
  (forall t, awakened t (with_outcome te s (fst (exec e c n rc rx r))) = false).
Proof. exact thm_limits_fail_for_good. Qed.
Print Assumptions C11_limits_fail_for_good.

(* ---- the generic driver: ALL scripts, ALL tick times (any sleeping policy, any event in between) ---- *)

(* with retries=N the user function is entered at most N times (N <= 0: never) *)
Theorem C11_retries_bound : forall e c t0 tr s N, run e c (init t0) tr = Some s -> forallb is_tick tr = true ->
  c_retries c = Some N -> Z.of_nat (List.length (whole s)) <= Z.max 0 N.
Proof. exact thm_retries_bound. Qed.
Print Assumptions C11_retries_bound.

(* with timeout=T no entry at now - started >= T; hence no attempt starts T or later after the first one *)
Theorem C11_timeout_bound : forall e c t0 tr s T, run e c (init t0) tr = Some s -> forallb is_tick tr = true ->
  c_timeout c = Some T ->
  (forall a, In a (whole s) -> t0 <= en_time a /\ en_time a - t0 < T) /\
  (forall a b, In a (whole s) -> In b (whole s) -> en_time b - en_time a < T).
Proof. exact thm_timeout_bound. Qed.
Print Assumptions C11_timeout_bound.

(* consecutive entries are at least the requested delay/backoff apart (measured from the end of the failed
   attempt), and so will the next one be, whatever arrives in between *)
Theorem C11_delay_respected : forall e c t0 tr s, run e c (init t0) tr = Some s ->
  spaced e c (d_log s) /\ (forall a, In a (d_log s) -> en_time a <= en_end a) /\
  match d_log s with
  | last :: _ => forall t, d_clock s <= t -> awakened t (d_hs s) = true ->
                           en_end last + requested e c (en_raised last) <= t
  | [] => True
  end.
Proof. exact thm_delay_respected. Qed.
Print Assumptions C11_delay_respected.

(* the retry kwarg counts the previous attempts: 0, 1, 2, ... *)
Theorem C11_retry_counts_attempts : forall e c t0 tr s, run e c (init t0) tr = Some s -> counted (d_log s).
Proof. exact thm_retry_counts_attempts. Qed.
Print Assumptions C11_retry_counts_attempts.

(* after a final outcome (success, ignored, failure) nothing is entered any more while the state lives *)
Theorem C11_failed_for_good : forall e c t0 tr1 tr2 s1 s2,
  run e c (init t0) tr1 = Some s1 -> finished (d_hs s1) = true ->
  forallb is_tick tr2 = true -> run e c s1 tr2 = Some s2 ->
  d_log s2 = d_log s1 /\ d_hs s2 = d_hs s1 /\ whole s2 = whole s1.
Proof. exact thm_failed_for_good. Qed.
Print Assumptions C11_failed_for_good.

(* with state resets (the timer, after successes): every state lifetime satisfies all of the above *)
Theorem C11_every_lifetime : forall e c t0 tr s, run e c (init t0) tr = Some s ->
  Forall (lifetime_ok e c) (d_log s :: d_past s).
Proof. exact thm_every_lifetime. Qed.
Print Assumptions C11_every_lifetime.

(* ---- the four drivers as the code has them ---- *)

(* activities.run_activity: every script, every fuel: a run of the generic driver without resets *)
Theorem C11_activity_driver : forall fuel e c t0 sc,
  exists s, run e c (init t0) (act_trace fuel e c t0 (from_scratch t0) sc) = Some s /\
            d_past s = [] /\ lifetime_ok e c (d_log s).
Proof. exact activity_ok. Qed.
Print Assumptions C11_activity_driver.

(* daemons._daemon, with a stopper set at any time *)
Theorem C11_daemon_driver : forall fuel e c stop t0 sc,
  exists s, run e c (init t0) (dmn_trace fuel e c stop t0 (from_scratch t0) sc) = Some s /\
            d_past s = [] /\ lifetime_ok e c (d_log s).
Proof. exact daemon_ok. Qed.
Print Assumptions C11_daemon_driver.

(* once FAILED for good nothing is entered ever again, whatever follows — ticks and resets alike: a Reset is
   not accepted after a failure (daemons._timer since fix e01f313: `if state.done and not ...failure`) *)
Theorem C11_failed_forever : forall e c t0 tr1 tr2 s1 s2,
  run e c (init t0) tr1 = Some s1 -> s_failure (d_hs s1) = true ->
  run e c s1 tr2 = Some s2 ->
  d_hs s2 = d_hs s1 /\ d_log s2 = d_log s1 /\ whole s2 = whole s1.
Proof. exact thm_failed_forever. Qed.
Print Assumptions C11_failed_forever.

(* a state lifetime ends (Reset) only at a success *)
Theorem C11_reset_only_after_success : forall e c t0 tr s t s',
  run e c (init t0) tr = Some s -> step e c s (Reset t) = Some s' ->
  s_success (d_hs s) = true /\ s_failure (d_hs s) = false /\ d_past s' = d_log s :: d_past s /\ d_log s' = [].
Proof. exact reset_only_after_success. Qed.
Print Assumptions C11_reset_only_after_success.

(* daemons._timer over its WHOLE life, every script/interval/sharp/stop/fuel: an accepted run of the generic
   driver; every lifetime (ended only by a success) obeys the policy, in particular has at most N entries — so
   at most N entries since the last success —, and once failed for good the handler is never entered again *)
Theorem C11_timer_whole_life : forall fuel e c iv sharp stop t0 sc,
  exists s, run e c (init t0) (tmr_trace fuel e c iv sharp stop t0 (from_scratch t0) sc) = Some s /\
    Forall (lifetime_ok e c) (d_log s :: d_past s) /\
    (forall N, c_retries c = Some N ->
       Forall (fun log => Z.of_nat (List.length log) <= Z.max 0 N) (d_log s :: d_past s)) /\
    (s_failure (d_hs s) = true -> forall tr2 s2, run e c s tr2 = Some s2 ->
       d_hs s2 = d_hs s /\ whole s2 = whole s).
Proof. exact timer_whole_life. Qed.
Print Assumptions C11_timer_whole_life.

(* the persisted driver (process_changing_cause): the state is re-read from the stored record on every cycle;
   for every sequence of cycles at any event times with operator restarts at any positions the entries obey
   the policy: the bounds count the retries/started read back from storage *)
Theorem C11_across_restarts : forall e c tr t0 ps, prun e c (pinit t0) tr = Some ps -> lifetime_ok e c (p_log ps).
Proof. exact persisted_ok. Qed.
Print Assumptions C11_across_restarts.

Theorem C11_restarts_invisible : forall e c tr ps, prun e c ps tr = prun e c ps (no_restarts tr).
Proof. exact restarts_invisible. Qed.
Print Assumptions C11_restarts_invisible.

(* a change of the cause while the handler sleeps off its delay (resume -> update after a restart, update -> delete
   for an id shared by both): HandlerState.with_purpose keeps delayed / retries / started / stopped / success /
   failure / active, hence awakened and sleeping at every instant — everything but the purpose *)
Theorem C11_repurpose_preserves : forall s,
  s_delayed (with_purpose s) = s_delayed s /\ s_retries (with_purpose s) = s_retries s /\
  s_started (with_purpose s) = s_started s /\ s_stopped (with_purpose s) = s_stopped s /\
  s_success (with_purpose s) = s_success s /\ s_failure (with_purpose s) = s_failure s /\
  s_active (with_purpose s) = s_active s /\
  (forall t, awakened t (with_purpose s) = awakened t s) /\ (forall t, sleeping t (with_purpose s) = sleeping t s).
Proof. exact repurpose_keeps. Qed.
Print Assumptions C11_repurpose_preserves.

(* ... so for every history of cycles, restarts and re-purposings (at ANY positions) the re-purposings are
   invisible: same entries, same stored record, same closing (and C11_across_restarts covers such histories) *)
Theorem C11_repurposings_invisible : forall e c tr t0,
  prun e c (pinit t0) tr = prun e c (pinit t0) (no_repurposings tr).
Proof. exact repurposings_invisible. Qed.
Print Assumptions C11_repurposings_invisible.

(* what is read back from a stored record continues the count, the started time and the delay *)
Theorem C11_storage_roundtrip : forall now s, s_active s = true -> state_for now (Some (for_storage s)) = s.
Proof. exact state_for_roundtrip. Qed.
Print Assumptions C11_storage_roundtrip.

(* ---- "is retried": the drivers wake up at exactly the first instant the handler is awakened again ---- *)

(* run_activity: after an attempt that did not end the handler, the next iteration is at end + max 0 requested,
   the handler is awakened then and at no instant before, and that iteration executes it (it is the next label) *)
Theorem C11_activity_retried : forall f e c now hs sc, s_active hs = true -> awakened now hs = true ->
  let it := iterate e c now hs sc in
  finished (it_hs it) = false ->
  let now' := it_end it + Z.max 0 (requested e c (fst (next_act sc))) in
  awakened now' (it_hs it) = true /\
  (forall t, it_end it <= t -> t < now' -> awakened t (it_hs it) = false) /\
  exists rest, act_trace (S (S f)) e c now hs sc
               = it_lab it :: it_lab (iterate e c now' (it_hs it) (tl sc)) :: rest.
Proof. exact activity_retried. Qed.
Print Assumptions C11_activity_retried.

Theorem C11_daemon_retried : forall f e c stop now hs sc, s_active hs = true -> awakened now hs = true ->
  let it := iterate e c now hs sc in
  finished (it_hs it) = false ->
  let now' := it_end it + Z.max 0 (requested e c (fst (next_act sc))) in
  not_stopped_before stop now' -> now <= now' ->
  awakened now' (it_hs it) = true /\
  (forall t, it_end it <= t -> t < now' -> awakened t (it_hs it) = false) /\
  exists rest, dmn_trace (S (S f)) e c stop now hs sc
               = it_lab it :: it_lab (iterate e c now' (it_hs it) (tl sc)) :: rest.
Proof. exact daemon_retried. Qed.
Print Assumptions C11_daemon_retried.

Theorem C11_timer_retried : forall f e c iv sharp stop now hs sc, s_active hs = true -> awakened now hs = true ->
  let it := iterate e c now hs sc in
  finished (it_hs it) = false ->
  let now' := it_end it + Z.max 0 (requested e c (fst (next_act sc))) in
  not_stopped_before stop now' -> now <= now' ->
  awakened now' (it_hs it) = true /\
  (forall t, it_end it <= t -> t < now' -> awakened t (it_hs it) = false) /\
  exists rest, tmr_trace (S (S f)) e c iv sharp stop now hs sc
               = it_lab it :: it_lab (iterate e c now' (it_hs it) (tl sc)) :: rest.
Proof. exact timer_retried. Qed.
Print Assumptions C11_timer_retried.

(* after a SUCCESS the timer starts from scratch one interval (or the rest of the sharp grid) later *)
Theorem C11_timer_after_success : forall f e c iv (sharp : bool) stop now hs sc, s_active hs = true -> awakened now hs = true ->
  0 < iv ->
  let it := iterate e c now hs sc in
  s_success (it_hs it) = true -> s_failure (it_hs it) = false ->
  let now' := it_end it + (if sharp then iv - ((it_end it - now) mod iv) else iv) in
  not_stopped_before stop now' ->
  exists rest, tmr_trace (S (S f)) e c (Some iv) sharp stop now hs sc
               = it_lab it :: Reset now' :: it_lab (iterate e c now' (from_scratch now') (it_sc it)) :: rest.
Proof. exact timer_after_success. Qed.
Print Assumptions C11_timer_after_success.

(* application.apply: with a delay pending and no new change during the sleep the object IS woken up (by the patch
   itself or by a touch) — whatever the patch, whatever the delays *)
Theorem C11_apply_wakes : forall patch delays, delays <> [] ->
  ap_patched (apply_plan patch delays None) || ap_touched (apply_plan patch delays None) = true.
Proof. exact apply_wakes. Qed.
Print Assumptions C11_apply_wakes.

(* ... and a touch comes only after the whole delay (capped by the keep-alive interval), never with a pending patch *)
Theorem C11_apply_touch_after_delay : forall patch delays wake d,
  zmin_list delays = Some d -> ap_touched (apply_plan patch delays wake) = true ->
  ap_slept (apply_plan patch delays wake) = Z.min (Z.max 0 d) KEEPALIVE /\
  ap_patched (apply_plan patch delays wake) = patch /\ (patch = true -> False).
Proof. exact apply_touch_after_delay. Qed.
Print Assumptions C11_apply_touch_after_delay.

(* change handlers, closed loop (process_changing_cause + apply, nobody else touching the object): after an attempt
   that did not end the handler the loop makes only idle cycles, all before W = end + max 0 requested (the patch echo,
   then one per keep-alive interval), and then a cycle at exactly W at which the handler is awakened *)
Theorem C11_change_handler_retried : forall f e c sc now ps,
  p_closed ps = false -> p_clock ps <= now ->
  let hs := state_for now (p_stored ps) in
  awakened now hs = true ->
  let it := iterate e c now hs sc in
  finished (it_hs it) = false ->
  let W := it_end it + Z.max 0 (requested e c (fst (next_act sc))) in
  exists k idle ps',
    pcl_trace (S (k + S f)) e c now ps sc
      = plabel_of (it_lab it) :: idle ++ pcl_trace (S f) e c W ps' (tl sc) /\
    Forall (idle_before W) idle /\
    live ps' (it_hs it) /\ p_clock ps' <= W /\ awakened W (state_for W (p_stored ps')) = true.
Proof. exact change_handler_retried. Qed.
Print Assumptions C11_change_handler_retried.

(* ---- several handlers per batch: sub-handlers, activities with several handlers, any lifecycle ---- *)

(* for EVERY sequence of batches whose plans pick distinct awakened handlers (every lifecycle, also randomized,
   shuffled, user-written): each handler's entries obey the whole policy; settings are never mixed up *)
Theorem C11_batch_lifetimes : forall e t0 hs tr s, brun e (binit t0 hs) tr = Some s ->
  Forall (fun sl => lifetime_ok e (b_cfg sl) (b_log sl)) (bs_slots s) /\
  map b_cfg (bs_slots s) = map fst hs.
Proof. exact batch_lifetimes. Qed.
Print Assumptions C11_batch_lifetimes.

(* all_at_once, one_by_one, asap pick distinct handlers among the awakened ones *)
Theorem C11_lifecycles_plan_ok : forall lc ta slots, plan_ok ta slots (choose lc slots (todo ta slots)) = true.
Proof. exact choose_ok. Qed.
Print Assumptions C11_lifecycles_plan_ok.

(* run_activity over several handlers under these lifecycles: an accepted run of the batch LTS *)
Theorem C11_multi_activity_driver : forall fuel e lc t0 hs,
  exists s, brun e (binit t0 hs) (mact_trace fuel e lc t0 (bs_slots (binit t0 hs))) = Some s /\
            Forall (fun sl => lifetime_ok e (b_cfg sl) (b_log sl)) (bs_slots s) /\
            map b_cfg (bs_slots s) = map fst hs.
Proof. exact multi_activity_ok. Qed.
Print Assumptions C11_multi_activity_driver.

(* subhandling.execute: the parent returns once all sub-handlers are done; otherwise it stays unfinished, the
   re-entry is counted, and it is awakened again EXACTLY when one of its pending sub-handlers is *)
Theorem C11_parent_follows_children : forall e c n rx te children parent,
  (st_done children = true -> sub_raise te children = ROk) /\
  (st_done children = false ->
     let parent' := with_outcome te parent (classify e c n rx (sub_raise te children)) in
     finished parent' = false /\ s_retries parent' = s_retries parent + 1 /\
     forall t, te <= t ->
       (awakened t parent' = true <-> exists ch, In ch children /\ s_active ch = true /\ awakened t ch = true)).
Proof. exact parent_follows_children. Qed.
Print Assumptions C11_parent_follows_children.
