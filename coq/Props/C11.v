(* C11 — handler error policy: retry delays, permanence, retries/timeout limits.
   Only statements here; proofs in Proofs/Outcome.v.  Models: Model/Outcome.v (execute_handler_once,
   HandlerState algebra), Model/Attempts.v (generic driver LTS, run_activity/_daemon/_timer/persisted).
   Times are integer milliseconds; [exec e c retries rt_call rt_end r]: the strict checks read the runtime
   at the call, the look-ahead checks at the moment the handler raised. *)
From Coq Require Import ZArith List Bool.
From KV Require Import Model.Outcome Model.Attempts Proofs.Outcome.
Import ListNotations.
Open Scope Z_scope.

(* ---- one invocation: the decision table, for ALL settings, counters, runtimes, delays (unbounded) ---- *)

(* a temporary error below the look-ahead limits: the handler was entered, stays unfinished, the attempt is
   counted, and it is awakened again exactly from te + delay on (never sooner than the requested delay) *)
Theorem C11_temp_retried_after_delay : forall e c n rc rx d te s,
  strict c n rc = None ->
  reaches (rx + or0 d) (c_timeout c) = false -> reaches (n + 1) (c_retries c) = false ->
  let s' := with_outcome te s (fst (exec e c n rc rx (RTemp d))) in
  snd (exec e c n rc rx (RTemp d)) = true /\
  finished s' = false /\ s_retries s' = s_retries s + 1 /\
  (forall t, te <= t -> (awakened t s' = true <-> te + or0 d <= t)).
Proof. exact thm_temp_retried_after_delay. Qed.
Print Assumptions C11_temp_retried_after_delay.

(* an arbitrary error: IGNORED counts as done; PERMANENT ends it as failed, no delay; TEMPORARY (the default of
   handlers) below the limits is retried exactly from te + backoff on, at a limit it fails for good *)
Theorem C11_arbitrary_by_mode : forall e c n rc rx te s, strict c n rc = None ->
  let s' := with_outcome te s (fst (exec e c n rc rx RArb)) in
  snd (exec e c n rc rx RArb) = true /\
  (eff_mode e c = MIgnored -> s_success s' = true /\ s_failure s' = false) /\
  (eff_mode e c = MPermanent -> s_failure s' = true /\ s_success s' = false /\ s_delayed s' = None) /\
  (eff_mode e c = MTemporary ->
     reaches (rx + eff_backoff e c) (c_timeout c) = false -> reaches (n + 1) (c_retries c) = false ->
     finished s' = false /\ (forall t, awakened t s' = true <-> te + eff_backoff e c <= t)) /\
  (eff_mode e c = MTemporary ->
     reaches (rx + eff_backoff e c) (c_timeout c) = true \/ reaches (n + 1) (c_retries c) = true ->
     s_failure s' = true /\ s_success s' = false).
Proof. exact thm_arbitrary_by_mode. Qed.
Print Assumptions C11_arbitrary_by_mode.

(* a permanent error ends it without retry: failed, no delay, never awakened again *)
Theorem C11_perm_final : forall e c n rc rx r te s,
  (r = RPerm \/ r = RTimeoutE \/ r = RRetriesE) -> strict c n rc = None ->
  let s' := with_outcome te s (fst (exec e c n rc rx r)) in
  snd (exec e c n rc rx r) = true /\ s_failure s' = true /\ s_success s' = false /\
  s_delayed s' = None /\ (forall t, awakened t s' = false).
Proof. exact thm_perm_final. Qed.
Print Assumptions C11_perm_final.

(* the user function is skipped only because timeout or retries is reached, and then the handler is
   recorded as failed for good *)
Theorem C11_limits_fail_for_good : forall e c n rc rx r te s,
  snd (exec e c n rc rx r) = false ->
  ((exists T, c_timeout c = Some T /\ T <= rc) \/ (exists N, c_retries c = Some N /\ N <= n)) /\
  s_failure (with_outcome te s (fst (exec e c n rc rx r))) = true /\
  (forall t, awakened t (with_outcome te s (fst (exec e c n rc rx r))) = false).
Proof. exact thm_limits_fail_for_good. Qed.
Print Assumptions C11_limits_fail_for_good.

(* ---- the generic driver: ALL scripts, ALL tick times (any sleeping policy, any event in between) ---- *)

(* with retries=N the user function is entered at most N times (N <= 0: never) *)
Theorem C11_retries_bound : forall e c t0 tr s N, run e c (init t0) tr = Some s -> forallb is_tick tr = true ->
  c_retries c = Some N -> Z.of_nat (List.length (whole s)) <= Z.max 0 N.
Proof. exact thm_retries_bound. Qed.
Print Assumptions C11_retries_bound.

(* with timeout=T no entry at now - started >= T; hence no attempt starts T or later after the first one *)
Theorem C11_timeout_bound : forall e c t0 tr s T, run e c (init t0) tr = Some s -> forallb is_tick tr = true ->
  c_timeout c = Some T ->
  (forall a, In a (whole s) -> t0 <= en_time a /\ en_time a - t0 < T) /\
  (forall a b, In a (whole s) -> In b (whole s) -> en_time b - en_time a < T).
Proof. exact thm_timeout_bound. Qed.
Print Assumptions C11_timeout_bound.

(* consecutive entries are at least the requested delay/backoff apart (measured from the end of the failed
   attempt), and so will the next one be, whatever arrives in between *)
Theorem C11_delay_respected : forall e c t0 tr s, run e c (init t0) tr = Some s ->
  spaced e c (d_log s) /\ (forall a, In a (d_log s) -> en_time a <= en_end a) /\
  match d_log s with
  | last :: _ => forall t, d_clock s <= t -> awakened t (d_hs s) = true ->
                           en_end last + requested e c (en_raised last) <= t
  | [] => True
  end.
Proof. exact thm_delay_respected. Qed.
Print Assumptions C11_delay_respected.

(* the retry kwarg counts the previous attempts: 0, 1, 2, ... *)
Theorem C11_retry_counts_attempts : forall e c t0 tr s, run e c (init t0) tr = Some s -> counted (d_log s).
Proof. exact thm_retry_counts_attempts. Qed.
Print Assumptions C11_retry_counts_attempts.

(* after a final outcome (success, ignored, failure) nothing is entered any more while the state lives *)
Theorem C11_failed_for_good : forall e c t0 tr1 tr2 s1 s2,
  run e c (init t0) tr1 = Some s1 -> finished (d_hs s1) = true ->
  forallb is_tick tr2 = true -> run e c s1 tr2 = Some s2 ->
  d_log s2 = d_log s1 /\ d_hs s2 = d_hs s1 /\ whole s2 = whole s1.
Proof. exact thm_failed_for_good. Qed.
Print Assumptions C11_failed_for_good.

(* with state resets (the timer, after successes): every state lifetime satisfies all of the above *)
Theorem C11_every_lifetime : forall e c t0 tr s, run e c (init t0) tr = Some s ->
  Forall (lifetime_ok e c) (d_log s :: d_past s).
Proof. exact thm_every_lifetime. Qed.
Print Assumptions C11_every_lifetime.

(* ---- the four drivers as the code has them ---- *)

(* activities.run_activity: every script, every fuel: a run of the generic driver without resets *)
Theorem C11_activity_driver : forall fuel e c t0 sc,
  exists s, run e c (init t0) (act_trace fuel e c t0 (from_scratch t0) sc) = Some s /\
            d_past s = [] /\ lifetime_ok e c (d_log s).
Proof. exact activity_ok. Qed.
Print Assumptions C11_activity_driver.

(* daemons._daemon, with a stopper set at any time *)
Theorem C11_daemon_driver : forall fuel e c stop t0 sc,
  exists s, run e c (init t0) (dmn_trace fuel e c stop t0 (from_scratch t0) sc) = Some s /\
            d_past s = [] /\ lifetime_ok e c (d_log s).
Proof. exact daemon_ok. Qed.
Print Assumptions C11_daemon_driver.

(* once FAILED for good nothing is entered ever again, whatever follows — ticks and resets alike: a Reset is
   not accepted after a failure (daemons._timer since fix e01f313: `if state.done and not ...failure`) *)
Theorem C11_failed_forever : forall e c t0 tr1 tr2 s1 s2,
  run e c (init t0) tr1 = Some s1 -> s_failure (d_hs s1) = true ->
  run e c s1 tr2 = Some s2 ->
  d_hs s2 = d_hs s1 /\ d_log s2 = d_log s1 /\ whole s2 = whole s1.
Proof. exact thm_failed_forever. Qed.
Print Assumptions C11_failed_forever.

(* a state lifetime ends (Reset) only at a success *)
Theorem C11_reset_only_after_success : forall e c t0 tr s t s',
  run e c (init t0) tr = Some s -> step e c s (Reset t) = Some s' ->
  s_success (d_hs s) = true /\ s_failure (d_hs s) = false /\ d_past s' = d_log s :: d_past s /\ d_log s' = [].
Proof. exact reset_only_after_success. Qed.
Print Assumptions C11_reset_only_after_success.

(* daemons._timer over its WHOLE life, every script/interval/sharp/stop/fuel: an accepted run of the generic
   driver; every lifetime (ended only by a success) obeys the policy, in particular has at most N entries — so
   at most N entries since the last success —, and once failed for good the handler is never entered again *)
Theorem C11_timer_whole_life : forall fuel e c iv sharp stop t0 sc,
  exists s, run e c (init t0) (tmr_trace fuel e c iv sharp stop t0 (from_scratch t0) sc) = Some s /\
    Forall (lifetime_ok e c) (d_log s :: d_past s) /\
    (forall N, c_retries c = Some N ->
       Forall (fun log => Z.of_nat (List.length log) <= Z.max 0 N) (d_log s :: d_past s)) /\
    (s_failure (d_hs s) = true -> forall tr2 s2, run e c s tr2 = Some s2 ->
       d_hs s2 = d_hs s /\ whole s2 = whole s).
Proof. exact timer_whole_life. Qed.
Print Assumptions C11_timer_whole_life.

(* the persisted driver (process_changing_cause): the state is re-read from the stored record on every cycle;
   for every sequence of cycles at any event times with operator restarts at any positions the entries obey
   the policy: the bounds count the retries/started read back from storage *)
Theorem C11_across_restarts : forall e c tr t0 ps, prun e c (pinit t0) tr = Some ps -> lifetime_ok e c (p_log ps).
Proof. exact persisted_ok. Qed.
Print Assumptions C11_across_restarts.

Theorem C11_restarts_invisible : forall e c tr ps, prun e c ps tr = prun e c ps (no_restarts tr).
Proof. exact restarts_invisible. Qed.
Print Assumptions C11_restarts_invisible.

(* what is read back from a stored record continues the count, the started time and the delay *)
Theorem C11_storage_roundtrip : forall now s, s_active s = true -> state_for now (Some (for_storage s)) = s.
Proof. exact state_for_roundtrip. Qed.
Print Assumptions C11_storage_roundtrip.
