(* C12 — infrastructure errors are retried, then contained per object, never fatal.
   Only statements here; proofs in Proofs/Retry.v, Proofs/Vault.v, Proofs/Throttle.v.
   Name clashes between the three models are resolved by qualification (Retry.x, Vault.x, Throttle.x).

   CLAUSE AUDIT (statement and quantifier of properties.jsonl C12)
   ---------------------------------------------------------------------------------------------------
   clause                                              | stated by
   ---------------------------------------------------------------------------------------------------
   1 transient failures (network errors, 5xx, 403,     | full: C12_transient_retried (retried set = exactly that
     429) are retried per the configured backoff list  |   list), C12_retry_schedule, C12_retry_attempts(_bounded),
                                                       |   C12_retry_config (scalar / list / () / endless),
                                                       |   C12_wait_ge_backoff, C12_wait_exact_backoff,
                                                       |   C12_wait_with_retry_after, C12_attempt_times.
                                                       |   (an SSL-closed ClientOSError is a network error that the
                                                       |   code sends to re-authentication, not to the backoffs:
                                                       |   FSsl is KReauth in the model — by the code's design)
   2 never waiting less than a server-requested        | full: C12_retry_after (every retried status, header or
     Retry-After                                       |   details, enforce on/off; F1201 fixed by kopf 69e02a7)
   3 ... and then escalate                             | full: C12_retry_exhaustion, C12_retry_schedule (ending)
   4 other 4xx escalate at once                        | full: C12_plain_4xx_at_once
   5 a 401 triggers a single re-authentication         | full: C12_unauthorized_at_once, C12_single_reauth (bound by
                                                       |   DISTINCT invalidated identities), C12_reauth_started,
                                                       |   C12_authenticated_call (request + @authenticated composed)
   6 after which all blocked requests proceed with     | full for a login that yields usable credentials:
     fresh credentials                                 |   C12_report_waits, C12_blocked_progress,
                                                       |   C12_all_blocked_resume, C12_recheck_again (no end-of-cycle
                                                       |   error, also when the item expired in flight), C12_resume_fresh,
                                                       |   C12_reauth_restarts_cycle;
                                                       |   refuted after a barren login:
                                                       |   C12_recovery_after_barren_login_refuted (finding F1203)
   7 invalidated credentials are not reused            | identity level full: C12_resume_fresh; value level:
                                                       |   C12_no_reuse_of_invalid_partial (history of 3 per key) +
                                                       |   C12_no_reuse_of_invalid_refuted (finding F1202)
   8 an escalated/unexpected error pauses the object   | full: C12_throttle_sequence(_endless), C12_throttle_sequence_proc,
     for the configured error delays, growing per      |   C12_throttle_skip, C12_pause_respected, C12_pause_in_time
     consecutive error, reset by a success             |
   9 pauses ONLY that object / does not delay others   | full at the level of process_resource_event's throttling:
                                                       |   C12_noninterference (any interleaving, any number of
                                                       |   objects), C12_contained_sequence, C12_containment (1 step).
                                                       |   Scheduling of the workers themselves (queueing) is C01's.
  10 does not stop the operator                        | full at the same level: C12_proc_never_fatal (every cycle,
                                                       |   every history; no side condition), C12_never_fatal.
                                                       |   CancelledError/BaseException escalate by design (BEsc).
  11 processing recovers once errors stop              | C12_recovers, C12_pause_respected (runs as soon as the pause
                                                       |   is over); credentials side: see clause 6 / F1203
   quantifier: fault sequences                         | all theorems quantify over every list of faults (any length)
   quantifier: backoff / error-delay configurations    | backoffs: BScalar / BList (incl. []) / BEndless; error delays:
                                                       |   dl_list (incl. []) / dl_fun.  One-shot iterators are outside
                                                       |   the quantifier ("re-iterable") and not modelled
   quantifier: number of concurrent requests on a 401  | the Vault theorems hold for every trace, i.e. any number of
                                                       |   requesters and any interleaving of their critical sections
   credentials expiry (_expire, post-yield re-check of _items): C12_expire_effect, C12_select_unexpired,
   C12_recheck_again, C12_all_blocked_resume (requesters waiting in _expire).
   not covered: Retry-After outside integer seconds (int(float(x)) truncates,
   HTTP-date raises ValueError); aiohttp/SSL internals; the `errors=` narrowing of throttled (default used).
   --------------------------------------------------------------------------------------------------- *)
From Coq Require Import ZArith List Bool Arith.
From KV Require Import Model.Retry Model.Vault Model.Throttle Proofs.Retry Proofs.Vault Proofs.Throttle.
Import ListNotations.
Open Scope Z_scope.

(* ============================ api.request: the retry loop ============================ *)

(* Full characterisation of one request, for EVERY fault script, backoff source (finite or endless)
   and enforce flag: the j-th wait follows a retried fault and is adjust(backoff_j, Retry-After);
   the loop ends with success when the script runs out or answers OK, with re-auth on 401 / closed
   session, with immediate escalation on a non-transient fault, and with escalation of the LAST
   error when the backoffs are exhausted. *)
Theorem C12_retry_schedule : forall enforce src fs i ws o rest,
  Retry.request enforce src i fs = (ws, o, rest) ->
  (length ws <= length fs)%nat /\
  (forall j, (j < length ws)%nat ->
     exists ra b, classify (nthf j fs) = KRetry ra /\ src (i + j)%nat = Some b /\
                  nth j ws 0 = adjust enforce b ra) /\
  rest = skipn (S (length ws)) fs /\
  ending src i fs (length ws) o.
Proof. exact request_spec. Qed.
Print Assumptions C12_retry_schedule.

(* transient faults only, finite backoffs: attempts = min (|faults|+1) (|backoffs|+1) *)
Theorem C12_retry_attempts : forall enforce l fs,
  Forall retryable fs ->
  attempts (Retry.request enforce (src_list l) O fs) = Nat.min (S (length fs)) (S (length l)).
Proof. exact attempts_all_retryable. Qed.
Print Assumptions C12_retry_attempts.

(* whatever the faults: never more attempts than backoffs + 1 *)
Theorem C12_retry_attempts_bounded : forall enforce l fs,
  (attempts (Retry.request enforce (src_list l) O fs) <= S (length l))%nat.
Proof. exact attempts_bounded. Qed.
Print Assumptions C12_retry_attempts_bounded.

(* the retried failures are EXACTLY the property's list (network errors, 5xx, 403, 429), and each of them
   with a backoff left is followed by another attempt after adjust(backoff, Retry-After) *)
Theorem C12_transient_retried :
  (forall f, retryable f <-> transient f = true) /\
  (forall enforce src i f fs b, transient f = true -> src i = Some b ->
     exists ra ws o rest, classify f = KRetry ra /\
       Retry.request enforce src (S i) fs = (ws, o, rest) /\
       Retry.request enforce src i (f :: fs) = (adjust enforce b ra :: ws, o, rest)).
Proof. exact (conj retryable_iff_transient transient_is_retried). Qed.
Print Assumptions C12_transient_retried.

(* the configuration value as the operator writes it: a bare number = one retry, a list = |list| retries,
   an endless source = as many as there are faults *)
Theorem C12_retry_config : forall enforce c fs,
  match c with
  | BScalar _ => (attempts (Retry.request enforce (src_of c) O fs) <= 2)%nat
  | BList l => (attempts (Retry.request enforce (src_of c) O fs) <= S (length l))%nat
  | BEndless _ => (attempts (Retry.request enforce (src_of c) O fs) <= S (length fs))%nat
  end.
Proof. exact attempts_cfg_bounded. Qed.
Print Assumptions C12_retry_config.

(* ... success if the faults stop first, otherwise the error of attempt |backoffs| escalates *)
Theorem C12_retry_exhaustion : forall enforce l fs,
  Forall retryable fs ->
  outcome_of (Retry.request enforce (src_list l) O fs) =
    if (length fs <=? length l)%nat then ODone else OEscalate (nthf (length l) fs).
Proof. exact outcome_all_retryable. Qed.
Print Assumptions C12_retry_exhaustion.

(* an endless re-iterable source: every transient fault is retried, unboundedly *)
Theorem C12_retry_endless : forall enforce g fs,
  Forall retryable fs ->
  attempts (Retry.request enforce (src_fun g) O fs) = S (length fs) /\
  outcome_of (Retry.request enforce (src_fun g) O fs) = ODone.
Proof. exact attempts_endless. Qed.
Print Assumptions C12_retry_endless.

(* without enforce_retry_after every wait is at least the configured backoff ... *)
Theorem C12_wait_ge_backoff : forall src fs j b,
  (j < length (waits_of (Retry.request false src O fs)))%nat -> src j = Some b ->
  b <= nth j (waits_of (Retry.request false src O fs)) 0.
Proof. exact wait_ge_backoff. Qed.
Print Assumptions C12_wait_ge_backoff.

(* ... exactly the configured backoff when the answer carries no Retry-After ... *)
Theorem C12_wait_exact_backoff : forall enforce src fs j b,
  (j < length (waits_of (Retry.request enforce src O fs)))%nat -> src j = Some b ->
  requested (nthf j fs) = None ->
  nth j (waits_of (Retry.request enforce src O fs)) 0 = b.
Proof. exact wait_exact_backoff. Qed.
Print Assumptions C12_wait_exact_backoff.

(* ... and with a Retry-After r: max(backoff, r), or r under enforce_retry_after *)
Theorem C12_wait_with_retry_after : forall enforce src fs j b r,
  (j < length (waits_of (Retry.request enforce src O fs)))%nat -> src j = Some b ->
  requested (nthf j fs) = Some r ->
  nth j (waits_of (Retry.request enforce src O fs)) 0 = if enforce then r else Z.max b r.
Proof. exact wait_with_retry_after. Qed.
Print Assumptions C12_wait_with_retry_after.

(* "never waiting less than a server-requested Retry-After": FULL statement — every retried status
   (429, 403, 5xx), header or details style, every backoff source, enforce on or off.
   (Was refuted for 5xx before kopf commit 69e02a7: finding F1201, now fixed.) *)
Theorem C12_retry_after : forall enforce src fs j r,
  (j < length (waits_of (Retry.request enforce src O fs)))%nat ->
  requested (nthf j fs) = Some r ->
  r <= nth j (waits_of (Retry.request enforce src O fs)) 0.
Proof. exact wait_ge_retry_after. Qed.
Print Assumptions C12_retry_after.

(* other 4xx escalate at once: no wait, no retry; 401 leaves the loop at once for re-authentication *)
Theorem C12_plain_4xx_at_once : forall enforce src i c h d fs,
  plain_4xx c ->
  Retry.request enforce src i (FStatus c h d :: fs) = ([], OEscalate (FStatus c h d), fs).
Proof. exact plain_4xx_escalates_at_once. Qed.
Print Assumptions C12_plain_4xx_at_once.

Theorem C12_unauthorized_at_once : forall enforce src i h d fs,
  Retry.request enforce src i (FStatus 401 h d :: fs) = ([], OReauth (FStatus 401 h d), fs).
Proof. exact unauthorized_leaves_at_once. Qed.
Print Assumptions C12_unauthorized_at_once.

(* attempt timestamps: the first attempt is immediate, consecutive ones are one wait apart *)
Theorem C12_attempt_times : forall ws t,
  hd t (times t ws) = t /\ length (times t ws) = S (length ws) /\
  forall j, (j < length ws)%nat -> nth (S j) (times t ws) 0 - nth j (times t ws) 0 = Z.max 0 (nth j ws 0).
Proof. exact attempt_times. Qed.
Print Assumptions C12_attempt_times.

(* ============================ @authenticated around request ============================ *)

(* With a vault that is re-populated after every invalidation, an authentication failure (401, closed
   session) never reaches the caller; there are at most as many re-authentications as such faults; the
   first attempt is immediate. *)
Theorem C12_authenticated_call : forall fuel enforce src lat t fs,
  (length fs < fuel)%nat ->
  (forall f, call_outcome (call fuel enforce src lat t fs) <> OReauth f) /\
  (call_reauths (call fuel enforce src lat t fs) <= length (filter is_reauth fs))%nat /\
  hd t (call_times (call fuel enforce src lat t fs)) = t.
Proof. exact call_spec. Qed.
Print Assumptions C12_authenticated_call.

(* after the re-authentication the request proceeds with a FULL fresh cycle: backoffs restart from index 0 *)
Theorem C12_reauth_restarts_cycle : forall fuel enforce src lat t fs ws f rest,
  Retry.request enforce src O fs = (ws, OReauth f, rest) ->
  call (S fuel) enforce src lat t fs =
    (times t ws ++ call_times (call fuel enforce src lat (last (times t ws) t + Z.max 0 lat) rest),
     call_outcome (call fuel enforce src lat (last (times t ws) t + Z.max 0 lat) rest),
     S (call_reauths (call fuel enforce src lat (last (times t ws) t + Z.max 0 lat) rest))).
Proof. exact reauth_restarts_cycle. Qed.
Print Assumptions C12_reauth_restarts_cycle.

(* ============================ Vault: re-authentication ============================ *)

(* On every trace of the vault (any number of requesters, any interleaving): the number of
   re-authentication episodes is bounded by the number of DISTINCT item identities invalidated
   (+ logins that yielded nothing usable + the initial login of an empty vault).  n requesters
   failing on the same item invalidate one identity, hence cause one re-authentication. *)
Theorem C12_single_reauth : forall src tr s,
  Vault.run (init src) tr = Some s ->
  (wakes s <= length (invalidated s) + barren s + expirations s + e0_of src)%nat /\ NoDup (invalidated s).
Proof. exact single_reauth. Qed.
Print Assumptions C12_single_reauth.

(* whoever selects, selects from a ready vault an item that was never invalidated *)
Theorem C12_resume_fresh : forall src tr s r k id s',
  Vault.run (init src) tr = Some s -> Vault.step s (Select r k id) = Some s' ->
  ~ In id (invalidated s) /\ ready s = true /\
  exists it, lookupn k (cur s) = Some it /\ iid it = id /\ rget r s' = RHold k it.
Proof. exact select_fresh. Qed.
Print Assumptions C12_resume_fresh.

(* a requester blocked in invalidate() cannot select; it resumes only on a ready, non-empty vault *)
Theorem C12_blocked_until_ready : forall s r k it,
  rget r s = RBlocked k it ->
  (forall k' id, Vault.step s (Select r k' id) = None) /\
  (forall s', Vault.step s (Wake r WResumed) = Some s' -> ready s = true /\ cur s <> [] /\ rget r s' = RAfter k it).
Proof. exact blocked_until_ready. Qed.
Print Assumptions C12_blocked_until_ready.

(* whoever reports a failed item while nothing else is left waits for the re-authentication (it never
   fails on the spot); with something left it goes on at once *)
Theorem C12_report_waits : forall s r b s',
  Vault.step s (Invalidate r b) = Some s' ->
  exists k it, rget r s = RHold k it /\
  (cur s' = [] -> b = true /\ rget r s' = RBlocked k it /\ ready s' = false) /\
  (cur s' <> [] -> b = false /\ rget r s' = RAfter k it).
Proof. exact report_waits. Qed.
Print Assumptions C12_report_waits.

(* progress of EVERY blocked requester: nothing the others or the authenticator do unblocks or fails it;
   once the vault is ready and non-empty it can resume, can only resume (no LoginError), and the fresh
   items are still there for it to select *)
Theorem C12_blocked_progress : forall s r k it,
  rget r s = RBlocked k it ->
  (forall l s', Vault.step s l = Some s' -> (forall o, l <> Wake r o) -> rget r s' = RBlocked k it) /\
  (ready s = true -> cur s <> [] ->
     (exists s', Vault.step s (Wake r WResumed) = Some s' /\ rget r s' = RAfter k it /\ cur s' = cur s /\ ready s' = true) /\
     (forall o s', Vault.step s (Wake r o) = Some s' -> o = WResumed)).
Proof. exact blocked_progress. Qed.
Print Assumptions C12_blocked_progress.

(* the post-yield re-check of _items never ends the iteration for a requester that comes back from
   invalidate(): on EVERY trace (item invalidated by itself or another requester, expired and dropped on
   behalf of another requester, replaced under the same key by a re-authentication) it goes round again
   and is free to select the fresh credentials — no "end of the authentication cycle" error *)
Theorem C12_recheck_again : forall src tr s r k it,
  Vault.run (init src) tr = Some s -> rget r s = RAfter k it ->
  (exists s', Vault.step s (Recheck r true) = Some s' /\ rget r s' = RIdle /\ cur s' = cur s /\ ready s' = ready s) /\
  (forall again s', Vault.step s (Recheck r again) = Some s' -> again = true).
Proof. exact recheck_again. Qed.
Print Assumptions C12_recheck_again.

(* _expire(now): exactly the items with expiration <= now leave the pool; nothing is remembered as
   invalid; the requester waits iff that emptied the vault (then the re-authentication is due) *)
Theorem C12_expire_effect : forall s r now b s',
  Vault.step s (Expire r now b) = Some s' ->
  (forall k it, In (k, it) (cur s') <-> In (k, it) (cur s) /\ expired_at now it = false) /\
  inv s' = inv s /\ invalidated s' = invalidated s /\ nextid s' = nextid s /\
  (b = true -> cur s' = [] /\ cur s <> [] /\ ready s' = false /\ rget r s' = RExpWait) /\
  (b = false -> ready s' = true /\ rget r s' = RIdle).
Proof. exact expire_effect. Qed.
Print Assumptions C12_expire_effect.

(* what is selected right after _expire(now) is not expired at `now` *)
Theorem C12_select_unexpired : forall s r now s1 k id s2,
  Vault.step s (Expire r now false) = Some s1 -> Vault.step s1 (Select r k id) = Some s2 ->
  exists it, rget r s2 = RHold k it /\ iid it = id /\ expired_at now it = false.
Proof. exact select_unexpired. Qed.
Print Assumptions C12_select_unexpired.

(* whenever the vault is not ready the authenticator can move: start the login, or deliver its result *)
Theorem C12_reauth_started : forall s,
  ready s = false ->
  (busy s = false -> exists s', Vault.step s WakeEmpty = Some s' /\ busy s' = true /\ wakes s' = S (wakes s)) /\
  (busy s = true -> forall src, exists s', Vault.step s (Populate src) = Some s' /\ ready s' = true /\ busy s' = false).
Proof. exact reauth_enabled. Qed.
Print Assumptions C12_reauth_started.

(* a login that yields at least one set of credentials not remembered as invalid releases EVERY requester
   blocked in invalidate() or in _expire(): each is still there, can resume, can only resume (no LoginError) *)
Theorem C12_all_blocked_resume : forall s src s',
  Vault.step s (Populate src) = Some s' -> fertile src (inv s) ->
  ready s' = true /\ cur s' <> [] /\
  (forall r k it, rget r s = RBlocked k it ->
    rget r s' = RBlocked k it /\
    (exists s'', Vault.step s' (Wake r WResumed) = Some s'' /\ rget r s'' = RAfter k it /\ cur s'' = cur s' /\ ready s'' = true) /\
    (forall o s'', Vault.step s' (Wake r o) = Some s'' -> o = WResumed)) /\
  (forall r, rget r s = RExpWait ->
    rget r s' = RExpWait /\
    (exists s'', Vault.step s' (WakeExp r WResumed) = Some s'' /\ rget r s'' = RIdle /\ cur s'' = cur s' /\ ready s'' = true) /\
    (forall o s'', Vault.step s' (WakeExp r o) = Some s'' -> o = WResumed)).
Proof. exact all_blocked_resume. Qed.
Print Assumptions C12_all_blocked_resume.

(* "invalidated credentials are not reused": true within the remembered history (3 per key) ... *)
Theorem C12_no_reuse_of_invalid_partial : forall src tr s k it,
  Vault.run (init src) tr = Some s -> lookupn k (cur s) = Some it ->
  cred_in (cred it) (hist k (inv s)) = false /\ (length (hist k (inv s)) <= 3)%nat.
Proof. exact no_reuse_within_history. Qed.
Print Assumptions C12_no_reuse_of_invalid_partial.

(* ... false without the bound: the 4th-last invalidated credentials are accepted and selected again (F1202) *)
Theorem C12_no_reuse_of_invalid_refuted :
  exists src tr1 tr2 s1 s2 k c it,
    Vault.run (init src) tr1 = Some s1 /\ cred_in c (hist k (inv s1)) = true /\
    Vault.run s1 tr2 = Some s2 /\ lookupn k (cur s2) = Some it /\ cred it = c /\
    rget 1 s2 = RHold k it.
Proof. exact no_reuse_refuted. Qed.
Print Assumptions C12_no_reuse_of_invalid_refuted.

(* "processing recovers once errors stop" is false after a login that yields nothing usable (F1203):
   a reachable state from which every request fails and no re-authentication is ever started again *)
Theorem C12_recovery_after_barren_login_refuted :
  exists s, Vault.run (init [(0%nat, 10, 0, None)]) barren_trace = Some s /\ Stuck s /\
    forall tr s', Vault.run s tr = Some s' ->
      Stuck s' /\ Forall fails_only tr /\ Vault.step s' WakeEmpty = None.
Proof. exact recovery_after_barren_login_refuted. Qed.
Print Assumptions C12_recovery_after_barren_login_refuted.

(* ============================ throttled: per-object error pauses ============================ *)

(* For every sequence of episodes (runs, skipped runs, wake-ups at any time): the c-th consecutive
   failing run is followed by the pause delays[min c (len-1)] (none for an empty sequence) and does
   not escalate; a clean run resets the throttler; a skipped run neither advances nor resets. *)
Theorem C12_throttle_sequence : forall l es st c,
  TInv l st c -> Forall (step_ok (expected l)) (run_counts (dl_list l) st c es).
Proof. exact throttle_sequence_list. Qed.
Print Assumptions C12_throttle_sequence.

Theorem C12_throttle_sequence_endless : forall g es st c,
  FInv g st c -> Forall (step_ok (fun c => Some (g c))) (run_counts (dl_fun g) st c es).
Proof. exact throttle_sequence_fun. Qed.
Print Assumptions C12_throttle_sequence_endless.

(* a skipped episode leaves the throttler exactly as it was *)
Theorem C12_throttle_skip : forall dl st now e,
  r_should (episode dl st now e) = false ->
  r_state (episode dl st now e) = st /\ r_pause (episode dl st now e) = None /\
  (e_body e = BOk -> r_escalated (episode dl st now e) = false).
Proof. exact episode_skip. Qed.
Print Assumptions C12_throttle_skip.

(* the pause in time: the object is not processed before `until`, is processed at once after it *)
Theorem C12_pause_respected : forall dl st now e u,
  until st = Some u ->
  (r_should (episode dl st now e) = true -> u <= r_start (episode dl st now e)) /\
  (u <= now -> r_should (episode dl st now e) = true /\ r_start (episode dl st now e) = now).
Proof. exact pause_respected. Qed.
Print Assumptions C12_pause_respected.

Theorem C12_pause_in_time : forall dl st now e d,
  e_body e = BErr -> r_should (episode dl st now e) = true -> r_pause (episode dl st now e) = Some d ->
  let r := episode dl st now e in
  let body_end := r_start r + Z.max 0 (e_dur e) in
  (until (r_state r) = None /\ r_exit r = body_end + Z.max 0 d) \/
  (until (r_state r) = Some (body_end + d) /\ body_end <= r_exit r < body_end + d).
Proof. exact pause_in_time. Qed.
Print Assumptions C12_pause_in_time.

(* never fatal: an Exception inside the block does not leave `throttled` (the worker goes on) *)
Theorem C12_never_fatal : forall dl st now e,
  e_body e <> BEsc ->
  (r_should (episode dl st now e) = false -> e_body e = BOk) ->
  r_escalated (episode dl st now e) = false.
Proof. exact episode_never_fatal. Qed.
Print Assumptions C12_never_fatal.

(* containment: an episode of object u changes no other object's throttler, and whatever u did, any
   other object v runs exactly as it would have run without it *)
Theorem C12_containment : forall dl w u nowu eu v nowv ev,
  v <> u ->
  fst (wstep dl w u nowu eu) v = w v /\
  snd (wstep dl (fst (wstep dl w u nowu eu)) v nowv ev) = snd (wstep dl w v nowv ev).
Proof. exact containment_full. Qed.
Print Assumptions C12_containment.

(* ---- process_resource_event: `async with throttled as should_run: if should_run: ...` ---- *)

(* never fatal, without side condition: no processing cycle lets an Exception out, in any state, at any
   time, for any delay source and wake-up pattern; hence none in any history of any number of objects *)
Theorem C12_proc_never_fatal : forall dl,
  (forall st now e, e_body e <> BEsc -> r_escalated (proc_event dl st now e) = false) /\
  (forall evs w, Forall (fun x => e_body (snd x) <> BEsc) evs ->
                 Forall (fun ur => r_escalated (snd ur) = false) (wrun dl w evs)).
Proof. exact never_fatal_all. Qed.
Print Assumptions C12_proc_never_fatal.

(* non-interference: in ANY interleaving of processing cycles of any objects, what object v goes through
   (whether and when it runs, its pauses, its throttler) is exactly what it goes through alone *)
Theorem C12_noninterference : forall dl evs w v,
  of_object v (wrun dl w evs) = run_proc dl (w v) (events_of v evs).
Proof. exact wrun_noninterference. Qed.
Print Assumptions C12_noninterference.

(* the delay law for the cycles of process_resource_event, alone ... *)
Theorem C12_throttle_sequence_proc : forall l es st c,
  TInv l st c -> Forall (step_ok (expected l)) (proc_counts (dl_list l) st c es).
Proof. exact throttle_sequence_proc. Qed.
Print Assumptions C12_throttle_sequence_proc.

(* ... and inside any interleaving with other (erroring) objects *)
Theorem C12_contained_sequence : forall l evs w v c,
  TInv l (w v) c ->
  of_object v (wrun (dl_list l) w evs) = map snd (proc_counts (dl_list l) (w v) c (events_of v evs)) /\
  Forall (step_ok (expected l)) (proc_counts (dl_list l) (w v) c (events_of v evs)).
Proof. exact contained_sequence. Qed.
Print Assumptions C12_contained_sequence.

(* recovery: after a clean run the next run is immediate and a new error starts from delays[0] *)
Theorem C12_recovers : forall l st now e now' e',
  e_body e = BOk -> r_should (episode (dl_list l) st now e) = true ->
  let st' := r_state (episode (dl_list l) st now e) in
  r_should (episode (dl_list l) st' now' e') = true /\
  r_start (episode (dl_list l) st' now' e') = now' /\
  (e_body e' = BErr -> r_pause (episode (dl_list l) st' now' e') = expected l O).
Proof. exact recovers. Qed.
Print Assumptions C12_recovers.

(* ============================ non-vacuity ============================ *)
Example C12_nonvacuous_retry : Forall retryable [FStatus 500 None None; FConn; FTimeout; FStatus 429 (Some 7) (Some 3)].
Proof. exact retry_example_hyp. Qed.

(* regression of F1201: 503 + Retry-After 7 against backoffs (1,2,3): the second attempt comes at t = 7 *)
Example C12_retry_after_503_regression :
  request_obs false (src_list [1; 2; 3]) [FStatus 503 (Some 7) None] = ([0; 7], ODone).
Proof. exact retry_after_503. Qed.

Example C12_nonvacuous_throttle : TInv [2; 4; 6] t0 O.
Proof. exact (TInv_t0 [2; 4; 6]). Qed.

Example C12_nonvacuous_vault :
  match Vault.run (init [(0%nat, 10, 0, None)]) burst_trace with
  | Some s => (wakes s, invalidated s, cur_ids s, ready s)
  | None => (0%nat, [], [], false)
  end = (1%nat, [0%nat], [(0%nat, 1%nat)], true).
Proof. exact burst_example. Qed.

(* hypotheses of the per-wait theorems (j < number of waits, requested = Some / None) on a concrete script *)
Example C12_nonvacuous_waits :
  let fs := [FStatus 504 None (Some 9); FStatus 403 (Some 1) None; FTimeout; FStatus 404 None None] in
  waits_of (Retry.request true (src_of (BList [2; 5; 3])) O fs) = [9; 1; 3] /\
  requested (nthf 0 fs) = Some 9 /\ requested (nthf 2 fs) = None /\
  outcome_of (Retry.request true (src_of (BList [2; 5; 3])) O fs) = OEscalate (FStatus 404 None None).
Proof. exact waits_example. Qed.

Example C12_nonvacuous_plain_4xx : plain_4xx 404 /\ plain_4xx 422 /\ ~ plain_4xx 429.
Proof. exact plain_4xx_example. Qed.

Example C12_nonvacuous_transient : transient (FStatus 503 (Some 7) None) = true /\ src_of (BScalar 4) O = Some 4.
Proof. exact transient_example. Qed.

(* request + @authenticated: 500, then 401 (re-auth takes 3 s), then 503 with Retry-After 7 *)
Example C12_nonvacuous_call :
  call 5 false (src_list [1; 2]) 3 0 [FStatus 500 None None; FStatus 401 None None; FStatus 503 (Some 7) None]
  = ([0; 1; 4; 11], ODone, 1%nat).
Proof. exact call_example. Qed.

(* two requesters blocked on the same invalidated item while the login runs; a fertile Populate is enabled *)
Example C12_nonvacuous_blocked :
  exists s, Vault.run (init [(0%nat, 10, 0, None)]) blocked_trace = Some s /\
    rget 1 s = RBlocked 0 item10 /\ rget 2 s = RBlocked 0 item10 /\ ready s = false /\ busy s = true /\
    fertile [(0%nat, 11, 0, None)] (inv s) /\
    exists s', Vault.step s (Populate [(0%nat, 11, 0, None)]) = Some s'.
Proof. exact blocked_example. Qed.

(* a reachable state with a current item: the fresh one can be selected, the invalidated one cannot *)
Example C12_nonvacuous_current :
  exists s it s', Vault.run (init [(0%nat, 10, 0, None)]) reuse_trace1 = Some s /\ lookupn 0 (cur s) = Some it /\
    Vault.step s (Select 1 0 1) = Some s' /\ Vault.step s (Select 1 0 0) = None.
Proof. exact current_example. Qed.

(* expiry while a request is in flight: requester 1 holds item 0 (expires at t=5); requester 2 enters at t=6,
   _expire drops the item without remembering it, one re-authentication, requester 2 proceeds; requester 1
   comes back with its 401, is sent round again (RAfter reachable) and gets the fresh item.  The trace in
   which the iteration stops instead is rejected. *)
Example C12_nonvacuous_expiry :
  match Vault.run (init [(0%nat, 10, 0, Some 5)]) (expiry_trace true ++ [Expire 1 7 false; Select 1 0 1; Done 1; Done 2]) with
  | Some s => (wakes s, invalidated s, map (fun x => inv_creds s x) [0%nat], cur_ids s, expirations s)
  | None => (0%nat, [], [], [], 0%nat)
  end = (1%nat, [], [[]], [(0%nat, 1%nat)], 1%nat) /\
  Vault.run (init [(0%nat, 10, 0, Some 5)]) (expiry_trace false) = None /\
  exists s it, Vault.run (init [(0%nat, 10, 0, Some 5)]) (removelast (expiry_trace true)) = Some s /\ rget 1 s = RAfter 0 it.
Proof. exact expiry_example. Qed.

(* a paused object: `until` set, one error counted; it runs when the pause is slept out, is skipped when woken *)
Example C12_nonvacuous_paused :
  let r := episode (dl_list [2; 4; 6]) t0 0 ex_err_woken in
  until (r_state r) = Some 2 /\ TInv [2; 4; 6] (r_state r) 1 /\ r_should r = true /\ r_pause r = Some 2 /\
  r_should (episode (dl_list [2; 4; 6]) (r_state r) 1 (with_body ex_err_woken BOk)) = true /\
  r_should (episode (dl_list [2; 4; 6]) (r_state r) 1
              {| e_ev := false; e_wk1 := Some 0; e_body := BOk; e_dur := 0; e_evb := false; e_wk2 := None |}) = false.
Proof. exact paused_example. Qed.

Example C12_nonvacuous_endless : FInv (fun i => 2 + Z.of_nat i) (r_state (episode (dl_fun (fun i => 2 + Z.of_nat i)) t0 0 ex_err)) 1.
Proof. exact finv_example. Qed.

(* two objects interleaved: object 0 errs twice (pauses 2, 4), object 1 runs at its own times, nothing escalates *)
Example C12_nonvacuous_world :
  map (fun ur => (fst ur, r_should (snd ur), r_start (snd ur), r_pause (snd ur), r_escalated (snd ur)))
      (wrun (dl_list [2; 4; 6]) w0 [(0%nat, 0, ex_err_woken); (1%nat, 1, ex_ok); (0%nat, 1, ex_err); (1%nat, 3, ex_ok)])
  = [(0%nat, true, 0, Some 2, false); (1%nat, true, 1, None, false); (0%nat, true, 2, Some 4, false); (1%nat, true, 3, None, false)].
Proof. exact wrun_example. Qed.
