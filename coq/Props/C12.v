(* C12 — infrastructure errors are retried, then contained per object, never fatal.
   Only statements here; proofs in Proofs/Retry.v, Proofs/Vault.v, Proofs/Throttle.v.
   Name clashes between the three models are resolved by qualification (Retry.x, Vault.x, Throttle.x). *)
From Coq Require Import ZArith List Bool Arith.
From KV Require Import Model.Retry Model.Vault Model.Throttle Proofs.Retry Proofs.Vault Proofs.Throttle.
Import ListNotations.
Open Scope Z_scope.

(* ============================ api.request: the retry loop ============================ *)

(* Full characterisation of one request, for EVERY fault script, backoff source (finite or endless)
   and enforce flag: the j-th wait follows a retried fault and is adjust(backoff_j, Retry-After);
   the loop ends with success when the script runs out or answers OK, with re-auth on 401 / closed
   session, with immediate escalation on a non-transient fault, and with escalation of the LAST
   error when the backoffs are exhausted. *)
Theorem C12_retry_schedule : forall enforce src fs i ws o rest,
  Retry.request enforce src i fs = (ws, o, rest) ->
  (length ws <= length fs)%nat /\
  (forall j, (j < length ws)%nat ->
     exists ra b, classify (nthf j fs) = KRetry ra /\ src (i + j)%nat = Some b /\
                  nth j ws 0 = adjust enforce b ra) /\
  rest = skipn (S (length ws)) fs /\
  ending src i fs (length ws) o.
Proof. exact request_spec. Qed.
Print Assumptions C12_retry_schedule.

(* transient faults only, finite backoffs: attempts = min (|faults|+1) (|backoffs|+1) *)
Theorem C12_retry_attempts : forall enforce l fs,
  Forall retryable fs ->
  attempts (Retry.request enforce (src_list l) O fs) = Nat.min (S (length fs)) (S (length l)).
Proof. exact attempts_all_retryable. Qed.
Print Assumptions C12_retry_attempts.

(* whatever the faults: never more attempts than backoffs + 1 *)
Theorem C12_retry_attempts_bounded : forall enforce l fs,
  (attempts (Retry.request enforce (src_list l) O fs) <= S (length l))%nat.
Proof. exact attempts_bounded. Qed.
Print Assumptions C12_retry_attempts_bounded.

(* ... success if the faults stop first, otherwise the error of attempt |backoffs| escalates *)
Theorem C12_retry_exhaustion : forall enforce l fs,
  Forall retryable fs ->
  outcome_of (Retry.request enforce (src_list l) O fs) =
    if (length fs <=? length l)%nat then ODone else OEscalate (nthf (length l) fs).
Proof. exact outcome_all_retryable. Qed.
Print Assumptions C12_retry_exhaustion.

(* an endless re-iterable source: every transient fault is retried, unboundedly *)
Theorem C12_retry_endless : forall enforce g fs,
  Forall retryable fs ->
  attempts (Retry.request enforce (src_fun g) O fs) = S (length fs) /\
  outcome_of (Retry.request enforce (src_fun g) O fs) = ODone.
Proof. exact attempts_endless. Qed.
Print Assumptions C12_retry_endless.

(* without enforce_retry_after every wait is at least the configured backoff ... *)
Theorem C12_wait_ge_backoff : forall src fs j b,
  (j < length (waits_of (Retry.request false src O fs)))%nat -> src j = Some b ->
  b <= nth j (waits_of (Retry.request false src O fs)) 0.
Proof. exact wait_ge_backoff. Qed.
Print Assumptions C12_wait_ge_backoff.

(* ... exactly the configured backoff when the answer carries no Retry-After ... *)
Theorem C12_wait_exact_backoff : forall enforce src fs j b,
  (j < length (waits_of (Retry.request enforce src O fs)))%nat -> src j = Some b ->
  requested (nthf j fs) = None ->
  nth j (waits_of (Retry.request enforce src O fs)) 0 = b.
Proof. exact wait_exact_backoff. Qed.
Print Assumptions C12_wait_exact_backoff.

(* ... and with a Retry-After r: max(backoff, r), or r under enforce_retry_after *)
Theorem C12_wait_with_retry_after : forall enforce src fs j b r,
  (j < length (waits_of (Retry.request enforce src O fs)))%nat -> src j = Some b ->
  requested (nthf j fs) = Some r ->
  nth j (waits_of (Retry.request enforce src O fs)) 0 = if enforce then r else Z.max b r.
Proof. exact wait_with_retry_after. Qed.
Print Assumptions C12_wait_with_retry_after.

(* "never waiting less than a server-requested Retry-After": FULL statement — every retried status
   (429, 403, 5xx), header or details style, every backoff source, enforce on or off.
   (Was refuted for 5xx before kopf commit 69e02a7: finding F1201, now fixed.) *)
Theorem C12_retry_after : forall enforce src fs j r,
  (j < length (waits_of (Retry.request enforce src O fs)))%nat ->
  requested (nthf j fs) = Some r ->
  r <= nth j (waits_of (Retry.request enforce src O fs)) 0.
Proof. exact wait_ge_retry_after. Qed.
Print Assumptions C12_retry_after.

(* other 4xx escalate at once: no wait, no retry; 401 leaves the loop at once for re-authentication *)
Theorem C12_plain_4xx_at_once : forall enforce src i c h d fs,
  plain_4xx c ->
  Retry.request enforce src i (FStatus c h d :: fs) = ([], OEscalate (FStatus c h d), fs).
Proof. exact plain_4xx_escalates_at_once. Qed.
Print Assumptions C12_plain_4xx_at_once.

Theorem C12_unauthorized_at_once : forall enforce src i h d fs,
  Retry.request enforce src i (FStatus 401 h d :: fs) = ([], OReauth (FStatus 401 h d), fs).
Proof. exact unauthorized_leaves_at_once. Qed.
Print Assumptions C12_unauthorized_at_once.

(* attempt timestamps: the first attempt is immediate, consecutive ones are one wait apart *)
Theorem C12_attempt_times : forall ws t,
  hd t (times t ws) = t /\ length (times t ws) = S (length ws) /\
  forall j, (j < length ws)%nat -> nth (S j) (times t ws) 0 - nth j (times t ws) 0 = Z.max 0 (nth j ws 0).
Proof. exact attempt_times. Qed.
Print Assumptions C12_attempt_times.

(* ============================ Vault: re-authentication ============================ *)

(* On every trace of the vault (any number of requesters, any interleaving): the number of
   re-authentication episodes is bounded by the number of DISTINCT item identities invalidated
   (+ logins that yielded nothing usable + the initial login of an empty vault).  n requesters
   failing on the same item invalidate one identity, hence cause one re-authentication. *)
Theorem C12_single_reauth : forall src tr s,
  Vault.run (init src) tr = Some s ->
  (wakes s <= length (invalidated s) + barren s + e0_of src)%nat /\ NoDup (invalidated s).
Proof. exact single_reauth. Qed.
Print Assumptions C12_single_reauth.

(* whoever selects, selects from a ready vault an item that was never invalidated *)
Theorem C12_resume_fresh : forall src tr s r k id s',
  Vault.run (init src) tr = Some s -> Vault.step s (Select r k id) = Some s' ->
  ~ In id (invalidated s) /\ ready s = true /\
  exists it, lookupn k (cur s) = Some it /\ iid it = id /\ rget r s' = RHold k it.
Proof. exact select_fresh. Qed.
Print Assumptions C12_resume_fresh.

(* a requester blocked in invalidate() cannot select; it resumes only on a ready, non-empty vault *)
Theorem C12_blocked_until_ready : forall s r,
  rget r s = RBlocked ->
  (forall k id, Vault.step s (Select r k id) = None) /\
  (forall s', Vault.step s (Wake r WResumed) = Some s' -> ready s = true /\ cur s <> [] /\ rget r s' = RIdle).
Proof. exact blocked_until_ready. Qed.
Print Assumptions C12_blocked_until_ready.

(* whoever reports a failed item while nothing else is left waits for the re-authentication (it never
   fails on the spot); with something left it goes on at once *)
Theorem C12_report_waits : forall s r b s',
  Vault.step s (Invalidate r b) = Some s' ->
  (cur s' = [] -> b = true /\ rget r s' = RBlocked /\ ready s' = false) /\
  (cur s' <> [] -> b = false /\ rget r s' = RIdle).
Proof. exact report_waits. Qed.
Print Assumptions C12_report_waits.

(* progress of EVERY blocked requester: nothing the others or the authenticator do unblocks or fails it;
   once the vault is ready and non-empty it can resume, can only resume (no LoginError), and the fresh
   items are still there for it to select *)
Theorem C12_blocked_progress : forall s r,
  rget r s = RBlocked ->
  (forall l s', Vault.step s l = Some s' -> (forall o, l <> Wake r o) -> rget r s' = RBlocked) /\
  (ready s = true -> cur s <> [] ->
     (exists s', Vault.step s (Wake r WResumed) = Some s' /\ rget r s' = RIdle /\ cur s' = cur s /\ ready s' = true) /\
     (forall o s', Vault.step s (Wake r o) = Some s' -> o = WResumed)).
Proof. exact blocked_progress. Qed.
Print Assumptions C12_blocked_progress.

(* "invalidated credentials are not reused": true within the remembered history (3 per key) ... *)
Theorem C12_no_reuse_of_invalid_partial : forall src tr s k it,
  Vault.run (init src) tr = Some s -> lookupn k (cur s) = Some it ->
  cred_in (cred it) (hist k (inv s)) = false /\ (length (hist k (inv s)) <= 3)%nat.
Proof. exact no_reuse_within_history. Qed.
Print Assumptions C12_no_reuse_of_invalid_partial.

(* ... false without the bound: the 4th-last invalidated credentials are accepted and selected again (F1202) *)
Theorem C12_no_reuse_of_invalid_refuted :
  exists src tr1 tr2 s1 s2 k c it,
    Vault.run (init src) tr1 = Some s1 /\ cred_in c (hist k (inv s1)) = true /\
    Vault.run s1 tr2 = Some s2 /\ lookupn k (cur s2) = Some it /\ cred it = c /\
    rget 1 s2 = RHold k it.
Proof. exact no_reuse_refuted. Qed.
Print Assumptions C12_no_reuse_of_invalid_refuted.

(* "processing recovers once errors stop" is false after a login that yields nothing usable (F1203):
   a reachable state from which every request fails and no re-authentication is ever started again *)
Theorem C12_recovery_after_barren_login_refuted :
  exists s, Vault.run (init [(0%nat, 10, 0)]) barren_trace = Some s /\ Stuck s /\
    forall tr s', Vault.run s tr = Some s' ->
      s' = s /\ Forall (fun l => exists r, l = SelectErr r) tr /\ Vault.step s' WakeEmpty = None.
Proof. exact recovery_after_barren_login_refuted. Qed.
Print Assumptions C12_recovery_after_barren_login_refuted.

(* ============================ throttled: per-object error pauses ============================ *)

(* For every sequence of episodes (runs, skipped runs, wake-ups at any time): the c-th consecutive
   failing run is followed by the pause delays[min c (len-1)] (none for an empty sequence) and does
   not escalate; a clean run resets the throttler; a skipped run neither advances nor resets. *)
Theorem C12_throttle_sequence : forall l es st c,
  TInv l st c -> Forall (step_ok (expected l)) (run_counts (dl_list l) st c es).
Proof. exact throttle_sequence_list. Qed.
Print Assumptions C12_throttle_sequence.

Theorem C12_throttle_sequence_endless : forall g es st c,
  FInv g st c -> Forall (step_ok (fun c => Some (g c))) (run_counts (dl_fun g) st c es).
Proof. exact throttle_sequence_fun. Qed.
Print Assumptions C12_throttle_sequence_endless.

(* a skipped episode leaves the throttler exactly as it was *)
Theorem C12_throttle_skip : forall dl st now e,
  r_should (episode dl st now e) = false ->
  r_state (episode dl st now e) = st /\ r_pause (episode dl st now e) = None /\
  (e_body e = BOk -> r_escalated (episode dl st now e) = false).
Proof. exact episode_skip. Qed.
Print Assumptions C12_throttle_skip.

(* the pause in time: the object is not processed before `until`, is processed at once after it *)
Theorem C12_pause_respected : forall dl st now e u,
  until st = Some u ->
  (r_should (episode dl st now e) = true -> u <= r_start (episode dl st now e)) /\
  (u <= now -> r_should (episode dl st now e) = true /\ r_start (episode dl st now e) = now).
Proof. exact pause_respected. Qed.
Print Assumptions C12_pause_respected.

Theorem C12_pause_in_time : forall dl st now e d,
  e_body e = BErr -> r_should (episode dl st now e) = true -> r_pause (episode dl st now e) = Some d ->
  let r := episode dl st now e in
  let body_end := r_start r + Z.max 0 (e_dur e) in
  (until (r_state r) = None /\ r_exit r = body_end + Z.max 0 d) \/
  (until (r_state r) = Some (body_end + d) /\ body_end <= r_exit r < body_end + d).
Proof. exact pause_in_time. Qed.
Print Assumptions C12_pause_in_time.

(* never fatal: an Exception inside the block does not leave `throttled` (the worker goes on) *)
Theorem C12_never_fatal : forall dl st now e,
  e_body e <> BEsc ->
  (r_should (episode dl st now e) = false -> e_body e = BOk) ->
  r_escalated (episode dl st now e) = false.
Proof. exact episode_never_fatal. Qed.
Print Assumptions C12_never_fatal.

(* containment: an episode of object u changes no other object's throttler, and whatever u did, any
   other object v runs exactly as it would have run without it *)
Theorem C12_containment : forall dl w u nowu eu v nowv ev,
  v <> u ->
  fst (wstep dl w u nowu eu) v = w v /\
  snd (wstep dl (fst (wstep dl w u nowu eu)) v nowv ev) = snd (wstep dl w v nowv ev).
Proof. exact containment_full. Qed.
Print Assumptions C12_containment.

(* recovery: after a clean run the next run is immediate and a new error starts from delays[0] *)
Theorem C12_recovers : forall l st now e now' e',
  e_body e = BOk -> r_should (episode (dl_list l) st now e) = true ->
  let st' := r_state (episode (dl_list l) st now e) in
  r_should (episode (dl_list l) st' now' e') = true /\
  r_start (episode (dl_list l) st' now' e') = now' /\
  (e_body e' = BErr -> r_pause (episode (dl_list l) st' now' e') = expected l O).
Proof. exact recovers. Qed.
Print Assumptions C12_recovers.

(* ============================ non-vacuity ============================ *)
Example C12_nonvacuous_retry : Forall retryable [FStatus 500 None None; FConn; FTimeout; FStatus 429 (Some 7) (Some 3)].
Proof. exact retry_example_hyp. Qed.

(* regression of F1201: 503 + Retry-After 7 against backoffs (1,2,3): the second attempt comes at t = 7 *)
Example C12_retry_after_503_regression :
  request_obs false (src_list [1; 2; 3]) [FStatus 503 (Some 7) None] = ([0; 7], ODone).
Proof. exact retry_after_503. Qed.

Example C12_nonvacuous_throttle : TInv [2; 4; 6] t0 O.
Proof. exact (TInv_t0 [2; 4; 6]). Qed.

Example C12_nonvacuous_vault :
  match Vault.run (init [(0%nat, 10, 0)]) burst_trace with
  | Some s => (wakes s, invalidated s, cur_ids s, ready s)
  | None => (0%nat, [], [], false)
  end = (1%nat, [0%nat], [(0%nat, 1%nat)], true).
Proof. exact burst_example. Qed.
