(* C17 — in-memory indices mirror the cluster; handling waits for the initial index.
   Only statements here; proofs in Proofs/Index.v, Proofs/IndexEvent.v, Proofs/Gate.v, Proofs/GateObj.v.

   CLAUSE AUDIT (statement + quantifier of properties.jsonl, C17)
   ---------------------------------------------------------------------------------------------------------------
   clause                                                   | covered by
   ---------------------------------------------------------------------------------------------------------------
   A  after ANY history (adds/edits/deletes, several         | C17_history_refines (full; every event list, every
      objects, colliding keys, every script of results:      |   handler configuration, scripts = oracle functions;
      dict/scalar/None/error kinds) each index = the          |   never raises) on top of C17_event_refines (one
      documented rules applied to the objects seen so far    |   event), C17_refines_spec (one Index), C17_views_exact
   A1 "latest results" taken literally (identity of values) | C17_refines_latest_partial + C17_refines_latest_refuted
                                                             |   (Store._replace keeps an ==-equal old value: 1 vs True;
                                                             |   observation, no finding: == is Python's equality)
   A2 removed on deletion                                    | rule_of: deleted -> RDrop; C17_deleted_discards
   A3 removed on filter mismatch                             | rule_of: not matches -> RDrop (C17_event_refines)
   A4 removed on temporary / permanent error, and stays      | rule_of + C17_invocation_rule (OExc), excluded handlers
      removed while the handler is excluded                  |   (sleeping / failed / retries exhausted) -> RDrop
   A5 kept on None result or ignored error                   | rule_of: OKeep -> RKeep; C17_invocation_rule
   A6 reverse/forward maps consistent, no KeyError, views     | C17_reverse_consistent, C17_no_empty_stores,
      list each key / each contributing object once          |   C17_never_raises, C17_views_exact
   B  change handlers, daemons, timers do not start until     | C17_gate (gated worker: the state IS ready: blocker gone,
      every indexed kind has been listed and indexed once,   |   every indexed kind listed, every object first seen
      for every interleaving of the initial listings         |   before its kind's LISTED indexed OR its indexing raised
                                                             |   — "indexed once" cannot hold for an object whose filter
                                                             |   callback raises; since c050920 it no longer blocks the
                                                             |   others, C17_gate_opens_after_raise) + C17_gate_any (any
                                                             |   worker: some earlier state was ready); every trace, every
                                                             |   worker limit.  C17_gate_partial etc. kept (weaker)
   B' (liveness side of B: the gate does open, no toggle is   | C17_gate_opens (limit = None or >= live workers per
      leaked)                                                |   watcher; quiescent watchers; no index_resource call
                                                             |   raised) + two _refuted pairs:
                                                             |   C17_gate_opens_limited_refuted / C17_gate_stuck_forever
                                                             |   = known finding F11 (worker_limit);
                                                             |   C17_gate_opens_raised_refuted = known finding F1702
                                                             |   (index_resource raises, e.g. in a when= callback)
   not covered: deletions in a watch gap (C19); watcher death/stop before its first LISTED
   (F10 territory); float values and unhashable keys (outside the model).
   --------------------------------------------------------------------------------------------------------------- *)
From Coq Require Import ZArith List String Bool.
From KV Require Import Base.Json Base.Dicts Model.Index Model.Gate Proofs.Index Proofs.IndexEvent Proofs.Gate Proofs.GateObj.
Import ListNotations.

Section AnyTypes.
  (* O: object identities, K: index keys, V: indexed values — any types with decidable equality on O and K;
     veqb is the value comparison used by Store._replace (Python's ==) *)
  Context {O K V : Type} (oeqb : O -> O -> bool) (keqb : K -> K -> bool) (veqb : V -> V -> bool).
  Hypothesis oeqb_spec : forall a b, oeqb a b = true <-> a = b.
  Hypothesis keqb_spec : forall a b, keqb a b = true <-> a = b.

  (* After ANY sequence of Index._replace / Index._discard (results being Mappings: unique keys), no KeyError is
     raised, the reverse index is consistent with the forward one, no empty Store is left, reverse entries are
     duplicate-free and non-empty. *)
  Theorem C17_reverse_consistent : forall ops idx', Forall (@op_wf O K V) ops ->
    gops_run oeqb keqb veqb index_empty ops = Ok idx' ->
    forall o k, get_rev oeqb keqb idx' o k = true <-> get_val oeqb keqb idx' k o <> None.
  Proof. intros ops idx' Hf E. exact (proj2 (proj2 (reachable_wf oeqb keqb veqb oeqb_spec keqb_spec ops idx' Hf E))). Qed.

  Theorem C17_no_empty_stores : forall ops idx', Forall (@op_wf O K V) ops ->
    gops_run oeqb keqb veqb index_empty ops = Ok idx' ->
    (forall k st, aget keqb k (items idx') = Some st -> st <> []) /\
    (forall k, In k (view_keys idx') <-> exists o, abs oeqb keqb idx' o k <> None).
  Proof.
    intros ops idx' Hf E. pose proof (reachable_wf oeqb keqb veqb oeqb_spec keqb_spec ops idx' Hf E) as HW.
    split; [exact (proj1 HW) | exact (view_keys_inhabited oeqb keqb oeqb_spec keqb_spec idx' HW)].
  Qed.

  Theorem C17_never_raises : forall ops, Forall (@op_wf O K V) ops ->
    exists idx', gops_run oeqb keqb veqb index_empty ops = Ok idx'.
  Proof. exact (never_raises oeqb keqb veqb oeqb_spec keqb_spec). Qed.

  (* The index content (object, key) -> value equals the reference map maintained by [spec_op]: a replace makes the
     object's entries exactly the keys of its latest result (other objects untouched: key collisions, re-keying),
     a discard removes exactly the object's entries; the value is the latest one unless the old one was == to it. *)
  Theorem C17_refines_spec : forall ops, Forall (@op_wf O K V) ops ->
    exists idx', gops_run oeqb keqb veqb index_empty ops = Ok idx' /\
      forall o k, abs oeqb keqb idx' o k = fold_left (spec_op oeqb keqb veqb) ops (abs oeqb keqb index_empty) o k.
  Proof.
    intros ops Hf. destruct (index_refines oeqb keqb veqb oeqb_spec keqb_spec ops index_empty (WF_empty oeqb keqb) Hf)
      as (idx' & E & _ & G). exists idx'; split; assumption.
  Qed.

  (* Full statement "exactly the latest results": true when the value comparison is identity ... *)
  Theorem C17_refines_latest_partial : (forall a b, veqb a b = true -> a = b) ->
    forall ops, Forall (@op_wf O K V) ops ->
    exists idx', gops_run oeqb keqb veqb index_empty ops = Ok idx' /\
      forall o k, abs oeqb keqb idx' o k = fold_left (latest_op oeqb keqb) ops (abs oeqb keqb index_empty) o k.
  Proof.
    intros Hv ops Hf.
    destruct (index_refines_latest oeqb keqb veqb oeqb_spec keqb_spec Hv ops index_empty (WF_empty oeqb keqb) Hf)
      as (idx' & E & _ & G). exists idx'; split; assumption.
  Qed.

  Variable knone : K.            (* the index key None, under which non-Mapping results are stored *)

  (* ONE EVENT through index_resource: for every handler configuration (errors, retries, backoff), every retry memory,
     every filter outcome and every script of the user's index functions (results being Mappings with unique keys),
     on well-formed indices: no exception; indices stay well-formed; the index of EVERY index function changes exactly
     by the documented rule of the event (rule_of / rule_spec: set | keep | drop for THIS object, other objects untouched). *)
  Theorem C17_event_refines : forall now hs deleted o matches script ixs mem,
    NoDup (map h_id hs) -> AllWF oeqb keqb ixs -> (forall c, In c hs -> aget String.eqb (h_id c) ixs <> None) ->
    script_wf script ->
    exists ixs' mem', index_event oeqb keqb veqb knone now hs deleted o matches script ixs mem = Ok (ixs', mem') /\
      AllWF oeqb keqb ixs' /\ (forall h, aget String.eqb h ixs' = None <-> aget String.eqb h ixs = None) /\
      forall c idx, In c hs -> aget String.eqb (h_id c) ixs = Some idx ->
        exists idx', aget String.eqb (h_id c) ixs' = Some idx' /\
          eqmap (abs oeqb keqb idx')
                (rule_spec oeqb keqb veqb knone o (rule_of now c mem deleted matches script) (abs oeqb keqb idx)).
  Proof. exact (event_refines oeqb keqb veqb knone oeqb_spec keqb_spec). Qed.

  (* EVERY HISTORY: from the operator's start state (or any well-formed one) every list of events is processed without
     an exception and afterwards each index equals the reference map built from the documented rule of every event. *)
  Theorem C17_history_refines : forall hs, NoDup (map h_id hs) ->
    forall es ixs mems, Forall (fun e => script_wf (e_script e)) es ->
    AllWF oeqb keqb ixs -> (forall c, In c hs -> aget String.eqb (h_id c) ixs <> None) ->
    exists ixs' mems', hist_run oeqb keqb veqb knone hs (ixs, mems) es = Ok (ixs', mems') /\
      AllWF oeqb keqb ixs' /\
      forall c idx, In c hs -> aget String.eqb (h_id c) ixs = Some idx ->
        exists idx', aget String.eqb (h_id c) ixs' = Some idx' /\
          eqmap (abs oeqb keqb idx') (rule_hist oeqb keqb veqb knone hs c mems es (abs oeqb keqb idx)).
  Proof. exact (history_refines oeqb keqb veqb knone oeqb_spec keqb_spec). Qed.

  (* the start state satisfies the hypotheses of C17_history_refines *)
  Theorem C17_start_state : forall hs,
    AllWF oeqb keqb (@init_indexers O K V hs) /\ (forall c, In c hs -> aget String.eqb (h_id c) (@init_indexers O K V hs) <> None).
  Proof. intro hs; split; [exact (init_allwf oeqb keqb hs) | exact (init_has hs)]. Qed.

  (* what handlers see: no key twice in list(index); index[k] holds exactly one value per contributing object *)
  Theorem C17_views_exact : forall ops idx', gops_run oeqb keqb veqb index_empty ops = Ok idx' ->
    NoDup (view_keys idx') /\
    forall k st, aget keqb k (items idx') = Some st ->
      NoDup (map fst st) /\ forall o v, In (o, v) st <-> abs oeqb keqb idx' o k = Some v.
  Proof. exact (views_exact oeqb keqb veqb oeqb_spec keqb_spec). Qed.
End AnyTypes.
Print Assumptions C17_reverse_consistent.
Print Assumptions C17_no_empty_stores.
Print Assumptions C17_never_raises.
Print Assumptions C17_refines_spec.
Print Assumptions C17_refines_latest_partial.
Print Assumptions C17_event_refines.
Print Assumptions C17_history_refines.
Print Assumptions C17_start_state.
Print Assumptions C17_views_exact.

(* non-vacuity: a concrete history over two index functions and two objects sharing the key "x" *)
Example C17_history_example :
  exists ixs' mems', hist_run Nat.eqb ikey_eqb py_eqb KNone ex_hs (init_indexers ex_hs, fun _ => []) ex_history = Ok (ixs', mems') /\
    rule_hist Nat.eqb ikey_eqb py_eqb KNone ex_hs (mkHcfg "h1" None None 60) (fun _ => []) ex_history (fun _ _ => None) 0%nat (KStr "x") = None /\
    rule_hist Nat.eqb ikey_eqb py_eqb KNone ex_hs (mkHcfg "h2" (Some ETemporary) (Some 2%Z) 4) (fun _ => []) ex_history (fun _ _ => None) 0%nat KNone = Some (JStr "v") /\
    mems' 1%nat = [] /\ mems' 0%nat <> [].
Proof. exact ex_history_runs. Qed.
Print Assumptions C17_history_example.
Example C17_history_example_wf : Forall (fun e => script_wf (e_script e)) ex_history /\ NoDup (map h_id ex_hs).
Proof. exact ex_history_wf. Qed.
Print Assumptions C17_history_example_wf.

(* ... and false of the faithful model with Python's == (True == 1): after results 1 and then True the index holds 1. *)
Theorem C17_refines_latest_refuted :
  exists ops idx', Forall (@op_wf nat ikey json) ops /\
    gops_run Nat.eqb ikey_eqb py_eqb index_empty ops = Ok idx' /\
    exists o k, abs Nat.eqb ikey_eqb idx' o k <> fold_left (latest_op Nat.eqb ikey_eqb) ops (abs Nat.eqb ikey_eqb index_empty) o k.
Proof. exact latest_refuted. Qed.
Print Assumptions C17_refines_latest_refuted.

(* OperatorIndexers.replace: per index function, by its outcome: exception -> the object's values are removed;
   result -> replaced; neither (None returned / error ignored) -> kept; not among the outcomes (filter mismatch,
   sleeping after a temporary error, failed for good) -> removed.  DELETED -> removed from every index. *)
Theorem C17_outcome_table : forall {O K V} oeqb keqb veqb (knone : K) (o : O) outs ixs ixs',
  NoDup (map fst outs) ->
  indexers_replace oeqb keqb veqb knone o outs ixs = Ok ixs' ->
  forall h idx, aget String.eqb h ixs = Some idx ->
  exists idx', aget String.eqb h ixs' = Some idx' /\
               @outcome_effect O K V oeqb keqb veqb knone o (aget String.eqb h outs) idx = Ok idx'.
Proof. intros O K V. exact (@indexers_table O K V). Qed.
Print Assumptions C17_outcome_table.

Theorem C17_deleted_discards : forall {O K V} oeqb keqb (o : O) ixs ixs',
  indexers_discard oeqb keqb o ixs = Ok ixs' ->
  forall h idx, aget String.eqb h ixs = Some idx ->
  exists idx', aget String.eqb h ixs' = Some idx' /\ @indexer_discard O K V oeqb keqb o idx = Ok idx'.
Proof. intros O K V. exact (@indexers_discard_table O K V). Qed.
Print Assumptions C17_deleted_discards.

(* How an invocation of the index function becomes an outcome (retries not exhausted): result -> replace,
   None -> keep, TemporaryError/PermanentError -> remove, other exception -> keep iff errors is IGNORED (the default) *)
Theorem C17_invocation_rule : forall {K V} now h s (a : action K V),
  (match h_retries h with Some r => (r <=? s_retries s)%Z | None => false end) = false ->
  fst (exec_once now h s a) =
    match a with
    | AResult r => ORes r
    | ANone => OKeep
    | ATemp _ | APerm => OExc
    | AArb => match h_errors h with None | Some EIgnored => OKeep | _ => OExc end
    end.
Proof. intros K V. exact (@exec_once_rule K V). Qed.
Print Assumptions C17_invocation_rule.

(* ---------------- the readiness gate (Model/Gate.v), every trace, every worker limit ---------------- *)

(* When a gated object's processing reaches process_resource_causes — the point from which change handlers, daemons
   and timers can start — the orchestration blocker is gone, every indexed kind created so far has been listed, and
   no per-object toggle is left in the set.  (That every object first seen before its kind's LISTED owns such a
   toggle until it is indexed is validated on recorded traces and by the monitor, not proved here.) *)
Theorem C17_gate_partial : forall lim tr s o s',
  grun lim ginit tr = Some s -> gstep lim s (Pass o) = Some s' ->
  gated (ost s o) = true ->
  blocker s = false /\ (forall r, won (wst s r) = true -> windexed (wst s r) = true -> listed s r = true) /\
  (forall o', ~ In o' (otog s)).
Proof. exact gate_kinds_safety. Qed.
Print Assumptions C17_gate_partial.

(* an indexed kind blocks readiness until its first LISTED *)
Theorem C17_gate_unlisted_blocks : forall lim tr s r,
  grun lim ginit tr = Some s -> won (wst s r) = true -> windexed (wst s r) = true -> listed s r = false ->
  is_on s = false.
Proof. exact gate_unlisted_blocks. Qed.
Print Assumptions C17_gate_unlisted_blocks.

(* ungated workers only exist after the set was open once: a watcher forgets the gate only then *)
Theorem C17_gate_disarm_after_open : forall lim tr s r,
  grun lim ginit tr = Some s -> won (wst s r) = true -> armed (wst s r) = false -> opened s = true.
Proof. exact gate_disarm_after_open. Qed.
Print Assumptions C17_gate_disarm_after_open.

(* "The gate opens once all listings finished and all first-seen objects can be indexed" is FALSE of the faithful
   model composed with Scheduler(limit=worker_limit): known finding F11.  worker_limit = 2, three pre-existing
   objects of one indexed kind: from the state reached by the trace recorded from the real code, on EVERY
   continuation the set stays closed and no object ever passes. *)
Theorem C17_gate_opens_limited_refuted :
  exists s0, grun (Some 2) ginit f11_trace = Some s0 /\
    blocker s0 = false /\ rtog s0 = [] /\ nseen s0 0 = 3 /\
    forall tr s, grun (Some 2) s0 tr = Some s -> is_on s = false /\ forall o, ph (ost s o) <> PPassed.
Proof. exact gate_limited_deadlock. Qed.
Print Assumptions C17_gate_opens_limited_refuted.

(* the same arrivals with worker_limit >= number of first-seen objects, or without a limit, do open the gate
   (instances, by computation; the general "opens" theorem is not proved — see the report) *)
Example C17_gate_opens_three_slots :
  exists s, grun (Some 3) ginit (f11_trace ++ f11_trace_tail) = Some s /\ is_on s = true /\ passed_count s [0; 1; 2] = 3.
Proof. exact gate_opens_with_three_slots. Qed.
Print Assumptions C17_gate_opens_three_slots.
Example C17_gate_opens_no_limit :
  exists s, grun None ginit (f11_trace ++ f11_trace_tail) = Some s /\ is_on s = true /\ passed_count s [0; 1; 2] = 3.
Proof. exact gate_opens_without_limit. Qed.
Print Assumptions C17_gate_opens_no_limit.
Example C17_gate_two_slots_refuse_third :
  exists s, grun (Some 2) ginit f11_trace = Some s /\ gstep (Some 2) s (Start 2) = None /\ gstep (Some 3) s (Start 2) <> None.
Proof. exact gate_start_refused_with_two_slots. Qed.
Print Assumptions C17_gate_two_slots_refuse_third.

(* ---------------- the full gate theorems (deepening round) ---------------- *)

(* B, gated worker: when its processing reaches process_resource_causes the operator IS ready: the blocker is gone,
   every indexed kind created so far has been listed, every object first seen before its kind's first LISTED has been
   through index_resource and has dropped its toggle: it was indexed (PWaiting / PPassed) or its indexing raised
   (PFailed — then it is not indexed: the property's "indexed once" cannot hold for it).  Every trace, every worker limit. *)
Theorem C17_gate : forall lim tr s o s',
  grun lim ginit tr = Some s -> gstep lim s (Pass o) = Some s' -> gated (ost s o) = true -> Ready s.
Proof. exact gate_safety. Qed.
Print Assumptions C17_gate.

(* ... spelled out for one such object: indexed and waiting at the gate, indexed and passed, or its indexing raised
   (PNew cannot carry the flag: Retire resets the record) *)
Theorem C17_gate_early_cases : forall s o, Ready s -> early (ost s o) = true ->
  ph (ost s o) = PWaiting \/ ph (ost s o) = PPassed \/ ph (ost s o) = PFailed \/ ph (ost s o) = PNew.
Proof. exact ready_early_cases. Qed.
Print Assumptions C17_gate_early_cases.

(* B, any worker (also those spawned after their watcher gave up the gate): nothing passes before some state of the
   run was ready *)
Theorem C17_gate_any : forall lim tr s o s',
  grun lim ginit tr = Some s -> gstep lim s (Pass o) = Some s' ->
  exists tr1 tr2 s1, tr = tr1 ++ tr2 /\ grun lim ginit tr1 = Some s1 /\ Ready s1 /\ 0 < nblock s1.
Proof. exact gate_safety_any. Qed.
Print Assumptions C17_gate_any.

(* what the ghost flag [early] of Ready means: set at the is_on() check of a new stream iff the kind is indexed and
   its LISTED has not been handled yet *)
Theorem C17_early_means : forall lim s r o on s', gstep lim s (SeenCheck r o on) = Some s' ->
  early (ost s' o) = (windexed (wst s r) && negb (listed s r)).
Proof. exact early_means. Qed.
Print Assumptions C17_early_means.

(* B', the true half: from every reachable state with no watcher in the middle of a first event — also after any
   number of index_resource calls that raised (label IndexRaised; finding F1702, fixed by c050920) —, if every watcher's
   scheduler has no limit or at least as many slots as it has live workers, the operator's own steps (drop the
   blocker, reach LISTED, start queued workers, finish indexing) empty the toggle set, and then every worker waiting at
   the gate passes.  No toggle is ever leaked by the protocol itself. *)
Theorem C17_gate_opens : forall lim tr s,
  grun lim ginit tr = Some s -> quiescent s -> limit_ok lim s ->
  exists tr' s', forallb progress_label tr' = true /\ grun lim s tr' = Some s' /\ is_on s' = true /\
    (forall o, ph (ost s' o) = PWaiting -> exists s'', gstep lim s' (Pass o) = Some s'').
Proof. exact gate_opens. Qed.
Print Assumptions C17_gate_opens.

(* B', the false half for every limit n (F11): n workers of one watcher holding all its slots at the gate while a
   toggled object of the same watcher is still queued: never ready again, nothing ever passes *)
Theorem C17_gate_stuck_forever : forall n s, Stuck n s ->
  forall tr s', grun (Some n) s tr = Some s' -> is_on s' = false /\ forall o, ph (ost s' o) <> PPassed.
Proof. exact stuck_forever. Qed.
Print Assumptions C17_gate_stuck_forever.

(* non-vacuity *)
Example C17_gate_opens_nonvacuous :
  exists s, grun (Some 3) ginit f11_trace = Some s /\ quiescent s /\ limit_ok (Some 3) s /\ is_on s = false.
Proof. exact gate_opens_nonvacuous. Qed.
Print Assumptions C17_gate_opens_nonvacuous.
Example C17_gate_opens_guard_fails_on_f11 : ~ limit_ok (Some 2) f11_state.
Proof. exact gate_opens_guard_fails_on_f11. Qed.
Print Assumptions C17_gate_opens_guard_fails_on_f11.
Example C17_gate_nonvacuous :
  exists s s', grun (Some 3) ginit (f11_trace ++ [Start 2; Indexed 2]) = Some s /\
               gstep (Some 3) s (Pass 2) = Some s' /\ gated (ost s 2) = true /\ early (ost s 2) = true.
Proof. exact gate_safety_nonvacuous. Qed.
Print Assumptions C17_gate_nonvacuous.
Example C17_stuck_nonvacuous : Stuck 2 f11_state.
Proof. exact f11_stuck. Qed.
Print Assumptions C17_stuck_nonvacuous.

(* F1702 (fixed in /repo by c050920) as regression Examples: index_resource raises while an object's first event is
   processed (a when= callback of the @kopf.index handler); the `finally` drops the object's toggle; after LISTED the
   set is empty and the other object reaches process_resource_causes; the failed object is early, not indexed, and no
   longer holds the others back (this is the PFailed case of Ready in C17_gate).  The trace is the one recorded from
   the repaired code; before the fix the toggle stayed in the set forever (findings.d/F1702.json). *)
Example C17_gate_opens_after_raise :
  exists s, grun None ginit f1702_trace = Some s /\ is_on s = true /\ ph (ost s 0) = PPassed /\ ph (ost s 1) = PFailed /\
            early (ost s 1) = true.
Proof. exact raised_does_not_block. Qed.
Print Assumptions C17_gate_opens_after_raise.
Example C17_raised_then_indexed_passes :
  exists s, grun None ginit (f1702_trace ++ [Indexed 1; Pass 1; Retire 0; Retire 1]) = Some s /\ is_on s = true /\ nseen s 0 = 0.
Proof. exact raised_then_indexed_passes. Qed.
Print Assumptions C17_raised_then_indexed_passes.
