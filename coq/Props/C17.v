(* C17 — in-memory indices mirror the cluster; handling waits for the initial index.
   Only statements here; proofs in Proofs/Index.v and Proofs/Gate.v. *)
From Coq Require Import ZArith List String Bool.
From KV Require Import Base.Json Base.Dicts Model.Index Model.Gate Proofs.Index Proofs.Gate.
Import ListNotations.

Section AnyTypes.
  (* O: object identities, K: index keys, V: indexed values — any types with decidable equality on O and K;
     veqb is the value comparison used by Store._replace (Python's ==) *)
  Context {O K V : Type} (oeqb : O -> O -> bool) (keqb : K -> K -> bool) (veqb : V -> V -> bool).
  Hypothesis oeqb_spec : forall a b, oeqb a b = true <-> a = b.
  Hypothesis keqb_spec : forall a b, keqb a b = true <-> a = b.

  (* After ANY sequence of Index._replace / Index._discard (results being Mappings: unique keys), no KeyError is
     raised, the reverse index is consistent with the forward one, no empty Store is left, reverse entries are
     duplicate-free and non-empty. *)
  Theorem C17_reverse_consistent : forall ops idx', Forall (@op_wf O K V) ops ->
    gops_run oeqb keqb veqb index_empty ops = Ok idx' ->
    forall o k, get_rev oeqb keqb idx' o k = true <-> get_val oeqb keqb idx' k o <> None.
  Proof. intros ops idx' Hf E. exact (proj2 (proj2 (reachable_wf oeqb keqb veqb oeqb_spec keqb_spec ops idx' Hf E))). Qed.

  Theorem C17_no_empty_stores : forall ops idx', Forall (@op_wf O K V) ops ->
    gops_run oeqb keqb veqb index_empty ops = Ok idx' ->
    (forall k st, aget keqb k (items idx') = Some st -> st <> []) /\
    (forall k, In k (view_keys idx') <-> exists o, abs oeqb keqb idx' o k <> None).
  Proof.
    intros ops idx' Hf E. pose proof (reachable_wf oeqb keqb veqb oeqb_spec keqb_spec ops idx' Hf E) as HW.
    split; [exact (proj1 HW) | exact (view_keys_inhabited oeqb keqb oeqb_spec keqb_spec idx' HW)].
  Qed.

  Theorem C17_never_raises : forall ops, Forall (@op_wf O K V) ops ->
    exists idx', gops_run oeqb keqb veqb index_empty ops = Ok idx'.
  Proof. exact (never_raises oeqb keqb veqb oeqb_spec keqb_spec). Qed.

  (* The index content (object, key) -> value equals the reference map maintained by [spec_op]: a replace makes the
     object's entries exactly the keys of its latest result (other objects untouched: key collisions, re-keying),
     a discard removes exactly the object's entries; the value is the latest one unless the old one was == to it. *)
  Theorem C17_refines_spec : forall ops, Forall (@op_wf O K V) ops ->
    exists idx', gops_run oeqb keqb veqb index_empty ops = Ok idx' /\
      forall o k, abs oeqb keqb idx' o k = fold_left (spec_op oeqb keqb veqb) ops (abs oeqb keqb index_empty) o k.
  Proof.
    intros ops Hf. destruct (index_refines oeqb keqb veqb oeqb_spec keqb_spec ops index_empty (WF_empty oeqb keqb) Hf)
      as (idx' & E & _ & G). exists idx'; split; assumption.
  Qed.

  (* Full statement "exactly the latest results": true when the value comparison is identity ... *)
  Theorem C17_refines_latest_partial : (forall a b, veqb a b = true -> a = b) ->
    forall ops, Forall (@op_wf O K V) ops ->
    exists idx', gops_run oeqb keqb veqb index_empty ops = Ok idx' /\
      forall o k, abs oeqb keqb idx' o k = fold_left (latest_op oeqb keqb) ops (abs oeqb keqb index_empty) o k.
  Proof.
    intros Hv ops Hf.
    destruct (index_refines_latest oeqb keqb veqb oeqb_spec keqb_spec Hv ops index_empty (WF_empty oeqb keqb) Hf)
      as (idx' & E & _ & G). exists idx'; split; assumption.
  Qed.
End AnyTypes.
Print Assumptions C17_reverse_consistent.
Print Assumptions C17_no_empty_stores.
Print Assumptions C17_never_raises.
Print Assumptions C17_refines_spec.
Print Assumptions C17_refines_latest_partial.

(* ... and false of the faithful model with Python's == (True == 1): after results 1 and then True the index holds 1. *)
Theorem C17_refines_latest_refuted :
  exists ops idx', Forall (@op_wf nat ikey json) ops /\
    gops_run Nat.eqb ikey_eqb py_eqb index_empty ops = Ok idx' /\
    exists o k, abs Nat.eqb ikey_eqb idx' o k <> fold_left (latest_op Nat.eqb ikey_eqb) ops (abs Nat.eqb ikey_eqb index_empty) o k.
Proof. exact latest_refuted. Qed.
Print Assumptions C17_refines_latest_refuted.

(* OperatorIndexers.replace: per index function, by its outcome: exception -> the object's values are removed;
   result -> replaced; neither (None returned / error ignored) -> kept; not among the outcomes (filter mismatch,
   sleeping after a temporary error, failed for good) -> removed.  DELETED -> removed from every index. *)
Theorem C17_outcome_table : forall {O K V} oeqb keqb veqb (knone : K) (o : O) outs ixs ixs',
  NoDup (map fst outs) ->
  indexers_replace oeqb keqb veqb knone o outs ixs = Ok ixs' ->
  forall h idx, aget String.eqb h ixs = Some idx ->
  exists idx', aget String.eqb h ixs' = Some idx' /\
               @outcome_effect O K V oeqb keqb veqb knone o (aget String.eqb h outs) idx = Ok idx'.
Proof. intros O K V. exact (@indexers_table O K V). Qed.
Print Assumptions C17_outcome_table.

Theorem C17_deleted_discards : forall {O K V} oeqb keqb (o : O) ixs ixs',
  indexers_discard oeqb keqb o ixs = Ok ixs' ->
  forall h idx, aget String.eqb h ixs = Some idx ->
  exists idx', aget String.eqb h ixs' = Some idx' /\ @indexer_discard O K V oeqb keqb o idx = Ok idx'.
Proof. intros O K V. exact (@indexers_discard_table O K V). Qed.
Print Assumptions C17_deleted_discards.

(* How an invocation of the index function becomes an outcome (retries not exhausted): result -> replace,
   None -> keep, TemporaryError/PermanentError -> remove, other exception -> keep iff errors is IGNORED (the default) *)
Theorem C17_invocation_rule : forall {K V} now h s (a : action K V),
  (match h_retries h with Some r => (r <=? s_retries s)%Z | None => false end) = false ->
  fst (exec_once now h s a) =
    match a with
    | AResult r => ORes r
    | ANone => OKeep
    | ATemp _ | APerm => OExc
    | AArb => match h_errors h with None | Some EIgnored => OKeep | _ => OExc end
    end.
Proof. intros K V. exact (@exec_once_rule K V). Qed.
Print Assumptions C17_invocation_rule.

(* ---------------- the readiness gate (Model/Gate.v), every trace, every worker limit ---------------- *)

(* When a gated object's processing reaches process_resource_causes — the point from which change handlers, daemons
   and timers can start — the orchestration blocker is gone, every indexed kind created so far has been listed, and
   no per-object toggle is left in the set.  (That every object first seen before its kind's LISTED owns such a
   toggle until it is indexed is validated on recorded traces and by the monitor, not proved here.) *)
Theorem C17_gate_partial : forall lim tr s o s',
  grun lim ginit tr = Some s -> gstep lim s (Pass o) = Some s' ->
  gated (ost s o) = true ->
  blocker s = false /\ (forall r, won (wst s r) = true -> windexed (wst s r) = true -> listed s r = true) /\
  (forall o', ~ In o' (otog s)).
Proof. exact gate_kinds_safety. Qed.
Print Assumptions C17_gate_partial.

(* an indexed kind blocks readiness until its first LISTED *)
Theorem C17_gate_unlisted_blocks : forall lim tr s r,
  grun lim ginit tr = Some s -> won (wst s r) = true -> windexed (wst s r) = true -> listed s r = false ->
  is_on s = false.
Proof. exact gate_unlisted_blocks. Qed.
Print Assumptions C17_gate_unlisted_blocks.

(* ungated workers only exist after the set was open once: a watcher forgets the gate only then *)
Theorem C17_gate_disarm_after_open : forall lim tr s r,
  grun lim ginit tr = Some s -> won (wst s r) = true -> armed (wst s r) = false -> opened s = true.
Proof. exact gate_disarm_after_open. Qed.
Print Assumptions C17_gate_disarm_after_open.

(* "The gate opens once all listings finished and all first-seen objects can be indexed" is FALSE of the faithful
   model composed with Scheduler(limit=worker_limit): known finding F11.  worker_limit = 2, three pre-existing
   objects of one indexed kind: from the state reached by the trace recorded from the real code, on EVERY
   continuation the set stays closed and no object ever passes. *)
Theorem C17_gate_opens_limited_refuted :
  exists s0, grun (Some 2) ginit f11_trace = Some s0 /\
    blocker s0 = false /\ rtog s0 = [] /\ nseen s0 0 = 3 /\
    forall tr s, grun (Some 2) s0 tr = Some s -> is_on s = false /\ forall o, ph (ost s o) <> PPassed.
Proof. exact gate_limited_deadlock. Qed.
Print Assumptions C17_gate_opens_limited_refuted.

(* the same arrivals with worker_limit >= number of first-seen objects, or without a limit, do open the gate
   (instances, by computation; the general "opens" theorem is not proved — see the report) *)
Example C17_gate_opens_three_slots :
  exists s, grun (Some 3) ginit (f11_trace ++ f11_trace_tail) = Some s /\ is_on s = true /\ passed_count s [0; 1; 2] = 3.
Proof. exact gate_opens_with_three_slots. Qed.
Print Assumptions C17_gate_opens_three_slots.
Example C17_gate_opens_no_limit :
  exists s, grun None ginit (f11_trace ++ f11_trace_tail) = Some s /\ is_on s = true /\ passed_count s [0; 1; 2] = 3.
Proof. exact gate_opens_without_limit. Qed.
Print Assumptions C17_gate_opens_no_limit.
Example C17_gate_two_slots_refuse_third :
  exists s, grun (Some 2) ginit f11_trace = Some s /\ gstep (Some 2) s (Start 2) = None /\ gstep (Some 3) s (Start 2) <> None.
Proof. exact gate_start_refused_with_two_slots. Qed.
Print Assumptions C17_gate_two_slots_refuse_third.
