(* C13 — peering: lower-priority operators pause, exactly the top one is active.
   Only statements here; proofs in Proofs/Peering.v, PeerNet.v, PeerSched.v, PeerLive.v, PeerRefine.v, PeerCompose.v.
   Models: Model/Peering.v (Peer, process_peering_event, touch, clean, keepalive's period; tied by D:event, D:keepalive)
           Model/PeerNet.v (N operators + one shared peering object, keep-alive schedule included; tied by T:peernet on
           real orchestrator/keepalive/watcher/worker/process_peering_event coroutines, D:encoding for the JSON form).
   Times in ms; [oint]/[odate] are the oracles int(str) / iso8601.parse_date: every theorem holds for ALL of them.

   CLAUSE AUDIT (statement of C13 in properties.jsonl, clause by clause)
   ---------------------------------------------------------------------------------------------------------------
   1  an operator that has observed a live peer of higher (or equal) priority is paused
        full:  C13_paused_iff_blocker (any JSON status: unknown fields, missing fields, dead records),
               C13_toggle_correct (every schedule), C13_net_decision_is_process (the two models decide alike),
               C13_operator_paused_iff_live_blocker (operator-wide pause = any CURRENT peering's toggle; composes
               with C19_paused_iff_current_blocker).   Guard "the call does not raise":
               C13_toggle_follows_verdict_refuted / _partial (non-numeric priority: outside the quantifier).
   2  -- watch streams closed
        covered by C19's model of streaming_block (Model/Watch.v: C19_paused_no_requests_partial / _refuted F1901,
        C19_list_unpaused_or_retry, C19_fresh_list_on_resume); the link is the boolean `paused` = clause 1.
        Here: the real streaming_block is run in T:peernet; monitors net-stream-wrong / net-stream-open-while-paused.
   3  -- daemons stopped
        covered by C09 (C09_stop_on_pause, C09_killer_pass_reaches_all) through the same boolean.
        Here: monitored only (world-daemons-wrong on whole operators).
   4  -- no change handling beyond events already queued
        covered by C19 (no LIST/WATCH while paused, up to F1901) + C01 (queued events are processed);
        here: monitored only (whole operators).
   5  -- no handler executed twice because of the pause
        NOT proved here.  By composition (names only, not imported): a pause is a stream closure, a resume a fresh
        listing (C19_fresh_list_on_resume), and re-processing invokes nothing recorded as finished
        (C02_no_rerun_across_calls, C02_restart_resumes).  What C13 adds: the pause mechanism writes nothing but the
        peering object (the effect alphabet of Model/Peering.v is clean/turn/touch; D:event rejects any other
        PATCH).  Monitor: world-double-execution.
   6  it resumes once every such peer has withdrawn or its keep-alive has expired
        full for "the latest event is the only one pending" and for "everything processed, wake-up due":
        C13_resumes_after_expiry, C13_resumes_after_withdrawal, C13_drain_latest (own steps ENABLED, <= 3 of them),
        C13_takeover_after_kill, C13_operator_resumed_when_no_blocker.
        Not covered: a bound for an arbitrary backlog of undelivered events (then only safety: C13_toggle_correct
        once the backlog is processed).
   7  among running operators with distinct priorities that see each other exactly the highest one ends up active
        full: C13_exactly_one_active (existence and uniqueness), C13_exactly_top_active, C13_at_most_one_active,
        C13_equal_priority_conflict (+ C13_top_active_nonvacuous).  Without "see each other": F1301 below.
   8  also after the active one exits or is killed
        full: C13_takeover_after_exit, C13_takeover_after_kill, C13_kill_keeps_record + clause 6.
   9  a running operator renews its record before it expires
        full for lifetime >= 2, every schedule: C13_own_record_never_expired; the scheduling assumption is explicit:
        C13_keepalive_is_urgent (timers fire on time, zero API latency); C13_keepalive_margin.
        lifetime <= 1: C13_renew_before_expiry_refuted / _partial (O1).
   10 and removes it on graceful exit
        full: C13_record_withdrawn_on_exit, C13_takeover_after_exit; for keepalive() as a task with PATCHes IN FLIGHT
        (Model/PeerKa.v; cancellation at every await, apply-then-fail): C13_keepalive_ended_means_withdrawn,
        C13_keepalive_exit_issues_withdrawal, C13_keepalive_cancel_enabled, C13_keepalive_withdrawal_completes
        (tied by T:kacancel on the real coroutine).  "Stays removed":
        C13_withdrawn_stays_refuted (F1302) / C13_exiting_record_only_by_wake (exactly that step) +
        C13_withdrawn_stays_partial.
   11 expired records of others are cleaned up
        full: C13_cleanup_dead, C13_cleaned_are_gone, C13_observe_latest_leaves_no_expired.  "Only expired ones":
        C13_clean_only_expired_refuted (F1301) / C13_clean_unchanged_record_is_expired (exactly: the record changed
        in between) + C13_clean_only_expired_partial.
   Quantifier: operators / priorities / lifetimes / orders of starts, exits, kills / delivery timing of events and
   keep-alives = all label sequences of Model/PeerNet.v (C13_net_invariant, C13_sched_invariant); record content =
   the JSON-level theorems.  One wall clock; PATCH latency only in D:event. *)
From Coq Require Import ZArith List String Bool.
From KV Require Import Base.Json Model.Peering Model.PeerNet Proofs.Peering Proofs.PeerNet Proofs.PeerSched Proofs.PeerLive
  Proofs.PeerRefine Proofs.PeerExamples Model.PeerKa Proofs.PeerKa.
From KV Require Model.Ensemble Proofs.PeerCompose.
Import ListNotations.
Open Scope string_scope.
Open Scope Z_scope.
Open Scope list_scope.

(* ---------- one peering event (process_peering_event), any status content ---------- *)

(* paused (toggle on) iff some record other than one's own parses to a live Peer of priority >= own;
   for EVERY status object on which the code does not raise: unknown fields, missing fields, dead records *)
Theorem C13_paused_iff_blocker : forall oint odate c t kvs now o,
  process oint odate c (Some t) (Some (c_name c)) (Some (JObj kvs)) now = POk (Some o) ->
  (o_toggle o = Some true <->
   exists id info p, In (id, info) kvs /\ mk_peer oint odate now id info = POk p /\ blocker c p).
Proof. exact process_paused_iff. Qed.
Print Assumptions C13_paused_iff_blocker.

(* the toggle is switched exactly when its state differs from the verdict *)
Theorem C13_turn_only_on_change : forall c t ps o, decide_peers c (Some t) ps = POk o ->
  forall b, o_turn o = Some b <-> (o_toggle o = Some b /\ t = negb b).
Proof. exact turn_iff. Qed.
Print Assumptions C13_turn_only_on_change.

(* record content: unknown fields are ignored; missing fields mean priority 0, lifetime 60 s, seen now *)
Theorem C13_unknown_fields_ignored : forall oint odate now id k v o, known_field k = false ->
  mk_peer oint odate now id (JObj ((k, v) :: o)) = mk_peer oint odate now id (JObj o).
Proof. exact mk_peer_ignores_unknown. Qed.
Print Assumptions C13_unknown_fields_ignored.

Theorem C13_missing_fields_defaults : forall oint odate now id, dt_ok (now + 60000) = true ->
  mk_peer oint odate now id (JObj []) = POk (mkPeer id (JNum 0) 60 now (now + 60000) false).
Proof. exact mk_peer_defaults. Qed.
Print Assumptions C13_missing_fields_defaults.

(* a parsed Peer is exactly: given identity, stored priority, int(lifetime), parsed lastseen (or now),
   deadline = lastseen + lifetime, dead iff deadline <= now *)
Theorem C13_peer_parse : forall oint odate now id info p, mk_peer oint odate now id info = POk p ->
  exists o, info = JObj o /\ has "identity" o = false /\ has "self" o = false /\
    p_id p = id /\
    p_prio p = dflt (JNum 0) (lookup "priority" o) /\
    py_int oint (dflt (JNum 60) (lookup "lifetime" o)) = POk (p_life p) /\
    py_lastseen odate now (lookup "lastseen" o) = POk (p_seen p) /\
    p_deadline p = p_seen p + p_life p * 1000 /\
    p_dead p = (p_deadline p <=? now).
Proof. exact mk_peer_inv. Qed.
Print Assumptions C13_peer_parse.

(* the wake-up time is the minimum blocker deadline; none without a blocker *)
Theorem C13_wakeup_at_deadline : forall oint odate c tg kvs now o,
  process oint odate c tg (Some (c_name c)) (Some (JObj kvs)) now = POk (Some o) ->
  (o_wake o = None <-> ~ exists id info p, In (id, info) kvs /\ mk_peer oint odate now id info = POk p /\ blocker c p) /\
  (forall w, o_wake o = Some w ->
     (exists id info p, In (id, info) kvs /\ mk_peer oint odate now id info = POk p /\ blocker c p /\ p_deadline p = w) /\
     (forall id info p, In (id, info) kvs -> mk_peer oint odate now id info = POk p -> blocker c p -> w <= p_deadline p)).
Proof. exact process_wake. Qed.
Print Assumptions C13_wakeup_at_deadline.

(* ... at which the operator touches itself (forcing a re-evaluation), unless a new event came first *)
Theorem C13_touch_at_wake : forall o now1 w, o_wake o = Some w ->
  touch_time o now1 None = Some (Z.max now1 w) /\
  (forall t, now1 < w -> t < w -> touch_time o now1 (Some t) = None).
Proof. intros o now1 w H; split; [exact (touch_at_wake o now1 w H) | intros t; exact (interrupted_no_touch o now1 w t H)]. Qed.
Print Assumptions C13_touch_at_wake.

(* expired records — exactly those — are cleaned up (of the snapshot processed) *)
Theorem C13_cleanup_dead : forall oint odate c tg kvs now o,
  process oint odate c tg (Some (c_name c)) (Some (JObj kvs)) now = POk (Some o) -> c_autoclean c = true ->
  forall id, In id (o_clean o) <->
    exists info p, In (id, info) kvs /\ mk_peer oint odate now id info = POk p /\ p_dead p = true.
Proof. exact process_clean. Qed.
Print Assumptions C13_cleanup_dead.

(* a peering object of another name is ignored; an incomparable live priority raises TypeError
   before any effect; numeric priorities never raise *)
Theorem C13_foreign_name_ignored : forall oint odate c tg name status now,
  name <> Some (c_name c) -> process oint odate c tg name status now = POk None.
Proof. exact process_foreign_name_ignored. Qed.
Print Assumptions C13_foreign_name_ignored.

Theorem C13_decision_total_on_numbers : forall c tg ps,
  Forall (fun p => num_of (p_prio p) <> None) (live_of (c_id c) ps) -> exists o, decide_peers c tg ps = POk o.
Proof. exact decide_total. Qed.
Print Assumptions C13_decision_total_on_numbers.

(* ---------- keep-alive ---------- *)
(* renewal period: at least 5 s before expiry for lifetime >= 11, strictly before expiry for lifetime >= 2 *)
Theorem C13_keepalive_margin : forall l j, 5 <= j <= 10 ->
  (11 <= l -> ka_period l j <= l - 5) /\ (2 <= l -> ka_period l j < l) /\ 1 <= ka_period l j.
Proof. intros l j H; split; [intros; now apply ka_margin | split; [intros; now apply ka_before_expiry | apply ka_period_pos]]. Qed.
Print Assumptions C13_keepalive_margin.

(* "renews before it expires" for EVERY lifetime is false (O1: lifetime 1 renews exactly at expiry) ... *)
Theorem C13_renew_before_expiry_refuted : exists l j, 0 <= l /\ 5 <= j <= 10 /\ ~ (ka_period l j < l).
Proof. exact ka_boundary_refuted. Qed.
Print Assumptions C13_renew_before_expiry_refuted.

(* ... and true exactly from lifetime 2 on *)
Theorem C13_renew_before_expiry_partial : forall l j, 2 <= l -> 5 <= j <= 10 -> ka_period l j < l.
Proof. exact ka_before_expiry. Qed.
Print Assumptions C13_renew_before_expiry_partial.

(* the record written on graceful exit (lifetime=0) is a removal; the regular one carries now *)
Theorem C13_record_withdrawn_on_exit : forall c now,
  touch_record c (Some 0) now = None /\ (0 < c_life c -> touch_record c None now = Some (c_prio c, c_life c, now)).
Proof. intros c now; split; [exact (touch_exit_removes c now) | exact (touch_live c now)]. Qed.
Print Assumptions C13_record_withdrawn_on_exit.

(* ---------- N operators, one shared object: every order of starts, exits, kills, keep-alives,
   foreign writes and every delivery delay (all label sequences) ---------- *)

Theorem C13_net_invariant : forall t0 tr s, run (net0 t0) tr = Some s -> Inv s.
Proof. exact reachable_inv. Qed.
Print Assumptions C13_net_invariant.

(* an operator that has processed everything delivered to it, and whose sleep is not due, is paused
   iff the shared object holds a live record of somebody else with priority >= its own *)
Theorem C13_toggle_correct : forall t0 tr s i, run (net0 t0) tr = Some s -> synced s i ->
  op_toggle (n_ops s i) = has_blocker i (op_prio (n_ops s i)) (n_now s) (n_status s).
Proof. exact toggle_correct. Qed.
Print Assumptions C13_toggle_correct.

(* exactly the top one is active, among running operators that see each other *)
Theorem C13_exactly_top_active : forall t0 tr s ids, run (net0 t0) tr = Some s ->
  (forall i, In i ids -> synced s i) ->
  (forall i, In i ids -> exists r, In (i, r) (n_status s) /\ r_prio r = op_prio (n_ops s i) /\ n_now s < dl_at (n_now s) r) ->
  (forall j r, In (j, r) (n_status s) -> n_now s < dl_at (n_now s) r -> In j ids /\ r_prio r = op_prio (n_ops s j)) ->
  forall i, In i ids ->
    (op_toggle (n_ops s i) = false <-> forall j, In j ids -> j <> i -> op_prio (n_ops s j) < op_prio (n_ops s i)).
Proof. exact active_iff_top. Qed.
Print Assumptions C13_exactly_top_active.

Theorem C13_at_most_one_active : forall t0 tr s ids, run (net0 t0) tr = Some s ->
  (forall i, In i ids -> synced s i) ->
  (forall i, In i ids -> exists r, In (i, r) (n_status s) /\ r_prio r = op_prio (n_ops s i) /\ n_now s < dl_at (n_now s) r) ->
  (forall j r, In (j, r) (n_status s) -> n_now s < dl_at (n_now s) r -> In j ids /\ r_prio r = op_prio (n_ops s j)) ->
  forall i j, In i ids -> In j ids -> op_toggle (n_ops s i) = false -> op_toggle (n_ops s j) = false -> i = j.
Proof. exact at_most_one_active. Qed.
Print Assumptions C13_at_most_one_active.

(* equal priorities: a conflict, both pause (as the code behaves) *)
Theorem C13_equal_priority_conflict : forall t0 tr s ids, run (net0 t0) tr = Some s ->
  (forall i, In i ids -> synced s i) ->
  (forall i, In i ids -> exists r, In (i, r) (n_status s) /\ r_prio r = op_prio (n_ops s i) /\ n_now s < dl_at (n_now s) r) ->
  (forall j r, In (j, r) (n_status s) -> n_now s < dl_at (n_now s) r -> In j ids /\ r_prio r = op_prio (n_ops s j)) ->
  forall i j, In i ids -> In j ids -> i <> j -> op_prio (n_ops s i) = op_prio (n_ops s j) ->
    op_toggle (n_ops s i) = true /\ op_toggle (n_ops s j) = true.
Proof. exact equal_priority_conflict. Qed.
Print Assumptions C13_equal_priority_conflict.

(* the hypotheses above are satisfiable: a reachable state with two operators that see each other *)
Theorem C13_top_active_nonvacuous :
  exists s, run (net0 0) tr_two_ops = Some s /\
    (forall i, In i ["a"; "b"] -> synced s i) /\
    (forall i, In i ["a"; "b"] -> exists r, In (i, r) (n_status s) /\ r_prio r = op_prio (n_ops s i) /\ n_now s < dl_at (n_now s) r) /\
    (forall j r, In (j, r) (n_status s) -> n_now s < dl_at (n_now s) r -> In j ["a"; "b"] /\ r_prio r = op_prio (n_ops s j)) /\
    op_toggle (n_ops s "a") = true /\ op_toggle (n_ops s "b") = false.
Proof. exact two_ops_example. Qed.
Print Assumptions C13_top_active_nonvacuous.

(* take-over.  Graceful exit: the record is gone at once (then C13_exactly_top_active applies to the rest).
   Kill: the record stays until its deadline; a paused operator whose blockers have all expired has its
   wake-up due — the self-touch is enabled and (tick_ok) time cannot pass it — so it re-evaluates. *)
Theorem C13_takeover_after_exit : forall s i s', step s (LExit i) = Some s' ->
  (forall r, ~ In (i, r) (n_status s')) /\ op_phase (n_ops s' i) = Exiting.
Proof. exact exit_withdraws. Qed.
Print Assumptions C13_takeover_after_exit.

Theorem C13_takeover_after_kill : forall t0 tr s i, run (net0 t0) tr = Some s ->
  is_up (n_ops s i) = true -> op_listed (n_ops s i) = true -> op_inbox (n_ops s i) = [] ->
  op_toggle (n_ops s i) = true -> has_blocker i (op_prio (n_ops s i)) (n_now s) (n_status s) = false ->
  exists w, op_wake (n_ops s i) = Some w /\ w <= n_now s /\ exists s', step s (LWake i) = Some s'.
Proof. exact wake_due. Qed.
Print Assumptions C13_takeover_after_kill.

Theorem C13_kill_keeps_record : forall s i s', step s (LKill i) = Some s' ->
  n_status s' = n_status s /\ op_phase (n_ops s' i) = Down.
Proof. exact kill_keeps_record. Qed.
Print Assumptions C13_kill_keeps_record.

(* cleaned ids are gone from the object *)
Theorem C13_cleaned_are_gone : forall s i v cleaned tg s', step s (LObserve i v cleaned tg) = Some s' ->
  forall id r, In id cleaned -> ~ In (id, r) (n_status s').
Proof. exact observe_cleans. Qed.
Print Assumptions C13_cleaned_are_gone.

(* "only expired records are cleaned" is FALSE for every delivery timing (F1301): a reachable state where
   a live record of a running operator is removed, after which two operators of different priority are
   both active ... *)
Theorem C13_clean_only_expired_refuted :
  exists s s', run (net0 0) tr_stale_clean = Some s /\
    is_up (n_ops s "b") = true /\ live_rec (n_now s) (n_status s) "b" = true /\
    step s (LObserve "a" 3 ["b"] false) = Some s' /\
    live_rec (n_now s') (n_status s') "b" = false /\
    is_up (n_ops s' "a") = true /\ is_up (n_ops s' "b") = true /\
    op_toggle (n_ops s' "a") = false /\ op_toggle (n_ops s' "b") = false /\
    op_prio (n_ops s' "a") <> op_prio (n_ops s' "b").
Proof. exact stale_clean_witness. Qed.
Print Assumptions C13_clean_only_expired_refuted.

(* ... and true when the event processed is the latest one (the snapshot is the current object) *)
Theorem C13_clean_only_expired_partial : forall t0 tr s i v cleaned tg s' snap,
  run (net0 t0) tr = Some s -> is_up (n_ops s i) = true ->
  step s (LObserve i v cleaned tg) = Some s' -> op_inbox (n_ops s i) = [(v, snap)] ->
  forall id, In id cleaned -> exists r, In (id, r) (n_status s) /\ dl_at (n_now s) r <= n_now s.
Proof. exact clean_only_expired_when_current. Qed.
Print Assumptions C13_clean_only_expired_partial.

(* "removed on graceful exit" does not mean "stays removed" (F1302): the draining worker's wake-up
   re-registers the exited operator ... *)
Theorem C13_withdrawn_stays_refuted :
  exists s1 s2, run (net0 0) tr_touch_after_exit = Some s1 /\ live_rec (n_now s1) (n_status s1) "c" = false /\
    run s1 [LTick 12000; LWake "c"; LGone "c"] = Some s2 /\
    op_phase (n_ops s2 "c") = Down /\ live_rec (n_now s2) (n_status s2) "c" = true.
Proof. exact touch_after_exit_witness. Qed.
Print Assumptions C13_withdrawn_stays_refuted.

(* ... unless it exits with no armed sleep and nothing undelivered: then it can write nothing any more *)
Theorem C13_withdrawn_stays_partial : forall s i, op_phase (n_ops s i) = Exiting ->
  op_wake (n_ops s i) = None -> op_inbox (n_ops s i) = [] ->
  step s (LWake i) = None /\ (forall j, step s (LKeepalive i j) = None) /\ step s (LExit i) = None /\
  forall v c t, step s (LObserve i v c t) = None.
Proof. exact exiting_idle_is_silent. Qed.
Print Assumptions C13_withdrawn_stays_partial.

(* "the toggle follows the verdict whenever the decision does not raise" is false of the code as a
   whole: the log line of the equal-priority branch formats EVERY record (also expired ones and one's own)
   and int(priority) can raise there, after clean() and before turn_to() ... *)
Theorem C13_toggle_follows_verdict_refuted :
  let oint := fun _ : string => None in
  let odate := fun _ : string => Some 0 in
  let c := mkCfg "me" 0 60 "default" true in
  (exists o, process oint odate c (Some false) (Some "default") (Some log_abort_status) 1000000 = POk (Some o)
             /\ o_toggle o = Some true) /\
  run_event oint odate c (Some false) (Some "default") (Some log_abort_status) 1000000 0 None None
  = ([ObsClean ["gone"]], Some TypeError).
Proof. exact log_abort_witness. Qed.
Print Assumptions C13_toggle_follows_verdict_refuted.

(* ... and cannot happen when every priority in the object is a number (the property's record contents) *)
Theorem C13_toggle_follows_verdict_partial : forall oint c t ps,
  Forall (fun p => num_of (p_prio p) <> None) ps -> log_raises oint c t ps = None.
Proof. exact log_raises_none_numeric. Qed.
Print Assumptions C13_toggle_follows_verdict_partial.

(* ====================== deepening round: schedule, progress, refinement, composition ====================== *)

(* second invariant, for ALL label sequences: unique record keys, identities of live processes known, keep-alive schedule *)
Theorem C13_sched_invariant : forall t0 tr s, run (net0 t0) tr = Some s -> Inv2 s.
Proof. exact reachable_inv2. Qed.
Print Assumptions C13_sched_invariant.

(* clause 9: whatever record stands under the identity of a running operator (lifetime >= 2, first touch done) is its
   own, carries its priority and lifetime, is NOT expired, and outlives the next keep-alive — for every schedule *)
Theorem C13_own_record_never_expired : forall t0 tr s i due, run (net0 t0) tr = Some s ->
  is_up (n_ops s i) = true -> n_ka s i = Some due -> 2 <= op_life (n_ops s i) ->
  forall r, In (i, r) (n_status s) ->
    n_now s < dl_at (n_now s) r /\ due < dl_at (n_now s) r /\ r_prio r = op_prio (n_ops s i) /\ r_life r = op_life (n_ops s i).
Proof. exact own_record_never_expired. Qed.
Print Assumptions C13_own_record_never_expired.

Example C13_own_record_nonvacuous : exists s r, run (net0 0) tr_two_ops = Some s /\ is_up (n_ops s "a") = true /\
  n_ka s "a" = Some 55000 /\ 2 <= op_life (n_ops s "a") /\ In ("a", r) (n_status s).
Proof. exact own_record_example. Qed.

(* the assumption behind it, explicit: time does not pass a due keep-alive (nor the very first touch) *)
Theorem C13_keepalive_is_urgent : forall t0 tr s i t s', run (net0 t0) tr = Some s -> is_up (n_ops s i) = true ->
  step s (LTick t) = Some s' -> exists due, n_ka s i = Some due /\ t <= due.
Proof. exact keepalive_is_urgent. Qed.
Print Assumptions C13_keepalive_is_urgent.

Theorem C13_records_unique : forall t0 tr s, run (net0 t0) tr = Some s -> NoDup (map fst (n_status s)).
Proof. exact records_unique. Qed.
Print Assumptions C13_records_unique.

(* clause 10, tight: while an operator is exiting, NO step but its own wake-up touch brings its record back *)
Theorem C13_exiting_record_only_by_wake : forall s l s' i, step s l = Some s' ->
  op_phase (n_ops s i) = Exiting -> l <> LWake i ->
  (forall r, ~ In (i, r) (n_status s)) -> (forall r, ~ In (i, r) (n_status s')).
Proof. exact exiting_record_only_by_wake. Qed.
Print Assumptions C13_exiting_record_only_by_wake.

Example C13_exiting_nonvacuous : exists s s', run (net0 0) tr_touch_after_exit = Some s /\ op_phase (n_ops s "c") = Exiting /\
  (forall r, ~ In ("c", r) (n_status s)) /\ step s (LTick 11500) = Some s' /\ LTick 11500 <> LWake "c".
Proof. exact exiting_example. Qed.

(* clause 11: processing the latest event leaves NO expired record in the object *)
Theorem C13_observe_latest_leaves_no_expired : forall t0 tr s i v cleaned tg s' snap,
  run (net0 t0) tr = Some s -> is_up (n_ops s i) = true ->
  step s (LObserve i v cleaned tg) = Some s' -> op_inbox (n_ops s i) = [(v, snap)] ->
  forall j r, In (j, r) (n_status s') -> n_now s' < dl_at (n_now s') r.
Proof. exact observe_latest_leaves_no_expired. Qed.
Print Assumptions C13_observe_latest_leaves_no_expired.

(* clause 11, tight partial of F1301: whatever the age of the event processed, a removed record that is the one the
   event showed is expired — a live record can only be removed if it CHANGED between the event and the PATCH *)
Theorem C13_clean_unchanged_record_is_expired : forall t0 tr s i v cleaned tg s' snap rest,
  run (net0 t0) tr = Some s ->
  step s (LObserve i v cleaned tg) = Some s' -> op_inbox (n_ops s i) = (v, snap) :: rest ->
  forall id r, In id cleaned -> In (id, r) snap -> dl_at (n_now s) r <= n_now s.
Proof. exact clean_unchanged_record_is_expired_reachable. Qed.
Print Assumptions C13_clean_unchanged_record_is_expired.

Example C13_clean_nonvacuous : exists s snap s' r, run (net0 0) tr_clean = Some s /\ is_up (n_ops s "a") = true /\
  op_listed (n_ops s "a") = true /\ op_inbox (n_ops s "a") = [(2%nat, snap)] /\
  step s (LObserve "a" 2 ["x"] false) = Some s' /\ In ("x", r) snap.
Proof. exact clean_example. Qed.

(* clause 7: existence AND uniqueness of the active operator *)
Theorem C13_exactly_one_active : forall t0 tr s ids, run (net0 t0) tr = Some s -> ids <> [] ->
  (forall i, In i ids -> synced s i) ->
  (forall i, In i ids -> exists r, In (i, r) (n_status s) /\ r_prio r = op_prio (n_ops s i) /\ n_now s < dl_at (n_now s) r) ->
  (forall j r, In (j, r) (n_status s) -> n_now s < dl_at (n_now s) r -> In j ids /\ r_prio r = op_prio (n_ops s j)) ->
  (forall i j, In i ids -> In j ids -> i <> j -> op_prio (n_ops s i) <> op_prio (n_ops s j)) ->
  exists m, In m ids /\ op_toggle (n_ops s m) = false /\
            (forall j, In j ids -> op_prio (n_ops s j) <= op_prio (n_ops s m)) /\
            (forall j, In j ids -> j <> m -> op_toggle (n_ops s j) = true).
Proof. exact exactly_one_active. Qed.
Print Assumptions C13_exactly_one_active.

(* clause 6, progress.  With the latest event the only one pending, at most two Observes of the operator itself are
   enabled and leave it idle with its toggle equal to the presence of a live blocker; records are only removed *)
Theorem C13_drain_latest : forall t0 tr s i v snap,
  run (net0 t0) tr = Some s -> is_up (n_ops s i) = true -> op_listed (n_ops s i) = true ->
  op_inbox (n_ops s i) = [(v, snap)] ->
  exists tr' s', (List.length tr' <= 2)%nat /\ (forall l, In l tr' -> exists v c b, l = LObserve i v c b) /\
    run s tr' = Some s' /\ n_now s' = n_now s /\
    is_up (n_ops s' i) = true /\ op_listed (n_ops s' i) = true /\ op_inbox (n_ops s' i) = [] /\
    (forall kv, In kv (n_status s') -> In kv (n_status s)) /\
    op_toggle (n_ops s' i) = has_blocker i (op_prio (n_ops s i)) (n_now s') (n_status s') /\
    (has_blocker i (op_prio (n_ops s i)) (n_now s) (n_status s) = false ->
       op_toggle (n_ops s' i) = false /\ op_wake (n_ops s' i) = None).
Proof. exact drain_latest. Qed.
Print Assumptions C13_drain_latest.

(* ... expiry (the peer was killed): paused, everything processed, no live blocker left => Wake + <= 2 Observes, all
   enabled, and the operator is active and idle *)
Theorem C13_resumes_after_expiry : forall t0 tr s i,
  run (net0 t0) tr = Some s -> is_up (n_ops s i) = true -> op_listed (n_ops s i) = true ->
  op_inbox (n_ops s i) = [] -> op_toggle (n_ops s i) = true ->
  has_blocker i (op_prio (n_ops s i)) (n_now s) (n_status s) = false ->
  exists tr' s', (List.length tr' <= 3)%nat /\
    (forall l, In l tr' -> l = LWake i \/ exists v c b, l = LObserve i v c b) /\
    run s tr' = Some s' /\ n_now s' = n_now s /\ synced s' i /\ op_toggle (n_ops s' i) = false.
Proof. exact resumes_after_expiry. Qed.
Print Assumptions C13_resumes_after_expiry.

Example C13_resumes_after_expiry_nonvacuous : exists s, run (net0 0) tr_expired = Some s /\ is_up (n_ops s "a") = true /\
  op_listed (n_ops s "a") = true /\ op_inbox (n_ops s "a") = [] /\ op_toggle (n_ops s "a") = true /\
  has_blocker "a" (op_prio (n_ops s "a")) (n_now s) (n_status s) = false.
Proof. exact expired_example. Qed.

(* ... withdrawal (graceful exit, or any write after which no live blocker is left) *)
Theorem C13_resumes_after_withdrawal : forall t0 tr s i v snap,
  run (net0 t0) tr = Some s -> is_up (n_ops s i) = true -> op_listed (n_ops s i) = true ->
  op_inbox (n_ops s i) = [(v, snap)] ->
  has_blocker i (op_prio (n_ops s i)) (n_now s) (n_status s) = false ->
  exists tr' s', (List.length tr' <= 2)%nat /\ (forall l, In l tr' -> exists v c b, l = LObserve i v c b) /\
    run s tr' = Some s' /\ n_now s' = n_now s /\ synced s' i /\ op_toggle (n_ops s' i) = false.
Proof. exact resumes_after_withdrawal. Qed.
Print Assumptions C13_resumes_after_withdrawal.

Example C13_resumes_after_withdrawal_nonvacuous : exists s v snap, run (net0 0) tr_withdrawn = Some s /\
  is_up (n_ops s "a") = true /\ op_listed (n_ops s "a") = true /\ op_inbox (n_ops s "a") = [(v, snap)] /\
  op_toggle (n_ops s "a") = true /\ has_blocker "a" (op_prio (n_ops s "a")) (n_now s) (n_status s) = false.
Proof. exact withdrawn_example. Qed.

(* clause 1, the two models agree: process_peering_event's decision on the JSON form of a status (any oracles that read
   back the lastseen strings of THESE records; no OverflowError) is the network's decision on the abstract status *)
Theorem C13_net_decision_is_process : forall oint odate fmt c tg now st,
  forallb (fun kv => rec_in_range now (snd kv)) st = true -> parses_back odate fmt st ->
  process oint odate c tg (Some (c_name c)) (Some (enc_status fmt st)) now =
  match decide_peers c tg (map (apeer now) st) with POk o => POk (Some o) | PErr e => PErr e end.
Proof. exact process_enc. Qed.
Print Assumptions C13_net_decision_is_process.

Example C13_net_decision_is_process_nonvacuous :
  forallb (fun kv => rec_in_range 10000 (snd kv)) ex_st = true /\ parses_back ex_odate ex_fmt ex_st /\
  exists o, process (fun _ => None) ex_odate (mkCfg "a" 0 60 "default" true) (Some false) (Some "default")
                    (Some (enc_status ex_fmt ex_st)) 10000 = POk (Some o) /\ o_toggle o = Some true.
Proof. exact process_enc_example. Qed.

(* clause 1 / 6 composed with C19 (Model/Ensemble.v): after ANY history of insights, with the toggles of the current
   peerings being those of the networks (removed keys' toggles in any state), the operator is paused iff the mandatory
   peering CRD is missing or some CURRENT peering object holds a live record of somebody else with priority >= own *)
Theorem C13_operator_paused_iff_live_blocker :
  forall (me : string) (nets : Ensemble.key -> net) (t0 : Ensemble.key -> Z) (trs : Ensemble.key -> list label)
         (hs : list Ensemble.insights) (mandatory : bool) (i : Ensemble.insights) (onk : list Ensemble.key),
  (forall k, In k (Ensemble.peerings (Ensemble.te (Ensemble.trun_adjust hs))) ->
     run (net0 (t0 k)) (trs k) = Some (nets k) /\ synced (nets k) me) ->
  (forall k, In k (Ensemble.peerings (Ensemble.te (Ensemble.trun_adjust hs))) ->
     Ensemble.mem_key k onk = op_toggle (n_ops (nets k) me)) ->
  Ensemble.paused_on mandatory i onk (Ensemble.trun_adjust hs) =
  Ensemble.peering_missing mandatory i ||
  existsb (fun k => has_blocker me (op_prio (n_ops (nets k) me)) (n_now (nets k)) (n_status (nets k)))
          (Ensemble.peerings (Ensemble.te (Ensemble.trun_adjust hs))).
Proof. exact PeerCompose.operator_paused_iff_live_blocker. Qed.
Print Assumptions C13_operator_paused_iff_live_blocker.

(* ... hence it is resumed as soon as, in every current peering, every such peer has withdrawn or expired *)
Theorem C13_operator_resumed_when_no_blocker :
  forall (me : string) (nets : Ensemble.key -> net) (t0 : Ensemble.key -> Z) (trs : Ensemble.key -> list label)
         (hs : list Ensemble.insights) (mandatory : bool) (i : Ensemble.insights) (onk : list Ensemble.key),
  (forall k, In k (Ensemble.peerings (Ensemble.te (Ensemble.trun_adjust hs))) ->
     run (net0 (t0 k)) (trs k) = Some (nets k) /\ synced (nets k) me) ->
  (forall k, In k (Ensemble.peerings (Ensemble.te (Ensemble.trun_adjust hs))) ->
     Ensemble.mem_key k onk = op_toggle (n_ops (nets k) me)) ->
  Ensemble.peering_missing mandatory i = false ->
  (forall k, In k (Ensemble.peerings (Ensemble.te (Ensemble.trun_adjust hs))) ->
     has_blocker me (op_prio (n_ops (nets k) me)) (n_now (nets k)) (n_status (nets k)) = false) ->
  Ensemble.paused_on mandatory i onk (Ensemble.trun_adjust hs) = false.
Proof. exact PeerCompose.operator_resumed_when_no_blocker. Qed.
Print Assumptions C13_operator_resumed_when_no_blocker.

Example C13_operator_pause_nonvacuous : exists s,
  (forall k, In k (Ensemble.peerings (Ensemble.te (Ensemble.trun_adjust [PeerCompose.ex_ins]))) ->
     run (net0 0) tr_two_ops = Some s /\ synced s "a") /\
  (forall k, In k (Ensemble.peerings (Ensemble.te (Ensemble.trun_adjust [PeerCompose.ex_ins]))) ->
     Ensemble.mem_key k [(PeerCompose.ex_res, None)] = op_toggle (n_ops s "a")) /\
  Ensemble.peerings (Ensemble.te (Ensemble.trun_adjust [PeerCompose.ex_ins])) <> [] /\
  Ensemble.paused_on false PeerCompose.ex_ins [(PeerCompose.ex_res, None)] (Ensemble.trun_adjust [PeerCompose.ex_ins]) = true.
Proof. exact PeerCompose.compose_nonvacuous. Qed.

(* ====================== keepalive() with requests in flight (Model/PeerKa.v) ====================== *)

(* clause 10 over every await point: however keepalive() ended — cancelled before its first step, while the first
   (or a later) PATCH is in flight, un-applied or applied-but-unanswered, during the sleep, during the shielded
   withdrawal; or by a touch that raised before/after the server applied it — once nothing is in flight any more and
   no withdrawal request has itself failed, the server holds NO record of this identity *)
Theorem C13_keepalive_ended_means_withdrawn : forall pos tr s, krun pos k0 tr = Some s ->
  k_ph s = KEnd -> k_req s = None -> k_wfail s = false -> k_rec s = false.
Proof. exact ended_means_withdrawn. Qed.
Print Assumptions C13_keepalive_ended_means_withdrawn.

(* the withdrawal is issued at once, from every state in which the task has ever run *)
Theorem C13_keepalive_exit_issues_withdrawal : forall pos tr s l s', krun pos k0 tr = Some s ->
  (l = KCancel \/ l = KFail) -> (k_ph s = KTouch \/ k_ph s = KSleep) -> kstep pos s l = Some s' ->
  k_ph s' = KFinal /\ k_req s' = Some (true, false).
Proof. exact exit_issues_withdrawal. Qed.
Print Assumptions C13_keepalive_exit_issues_withdrawal.

(* the quantification is not empty: a cancellation is possible in every state before the end ... *)
Theorem C13_keepalive_cancel_enabled : forall pos tr s, krun pos k0 tr = Some s -> k_ph s <> KEnd ->
  exists s', kstep pos s KCancel = Some s'.
Proof. exact cancel_enabled. Qed.
Print Assumptions C13_keepalive_cancel_enabled.

(* ... and a withdrawal in flight can always be applied and answered, after which the record is gone *)
Theorem C13_keepalive_withdrawal_completes : forall pos tr s a, krun pos k0 tr = Some s -> k_req s = Some (true, a) ->
  exists tr' s', krun pos s tr' = Some s' /\ k_ph s' = KEnd /\ k_req s' = None /\ k_rec s' = false /\ k_wfail s' = k_wfail s.
Proof. exact withdrawal_completes. Qed.
Print Assumptions C13_keepalive_withdrawal_completes.

Example C13_keepalive_cancelled_during_first_touch :
  exists s, krun true k0 [KCall; KApply; KCancel; KCallW; KApply; KReturn; KDone] = Some s /\
            k_ph s = KEnd /\ k_req s = None /\ k_wfail s = false /\ k_rec s = false.
Proof. exact cancelled_during_first_touch. Qed.

Example C13_keepalive_first_touch_applied_unanswered :
  exists s, krun true k0 [KCall; KApply] = Some s /\ k_ph s = KTouch /\ k_rec s = true /\ k_req s = Some (false, true).
Proof. exact first_touch_applied_unanswered. Qed.

(* clause 9, the record itself: what touch() writes is read back by every peer with the configured lifetime (a day
   and more included) and the deadline now + lifetime; with C13_own_record_never_expired: it outlives its renewal *)
Theorem C13_written_record_reads_back : forall oint odate fmt c now now' id,
  0 < c_life c -> odate (fmt now) = Some now ->
  rec_in_range now' (mkRec (c_prio c) (c_life c) (Some now)) = true ->
  exists r, touch_record c None now = Some (c_prio c, c_life c, now) /\ r = mkRec (c_prio c) (c_life c) (Some now) /\
    exists p, mk_peer oint odate now' id (enc_rec fmt r) = POk p /\
      p_prio p = JNum (c_prio c) /\ p_life p = c_life c /\ p_seen p = now /\
      p_deadline p = now + c_life c * 1000 /\ p_dead p = (now + c_life c * 1000 <=? now').
Proof. exact written_record_reads_back. Qed.
Print Assumptions C13_written_record_reads_back.

Example C13_written_record_day_long :
  rec_in_range 100000 (mkRec 7 90000 (Some 5000)) = true /\ ex_odate (ex_fmt 5000) = Some 5000 /\
  exists p, mk_peer (fun _ => None) ex_odate 100000 "x" (enc_rec ex_fmt (mkRec 7 90000 (Some 5000))) = POk p /\
            p_deadline p = 5000 + 90000 * 1000 /\ p_dead p = false.
Proof. exact written_record_day_long. Qed.
