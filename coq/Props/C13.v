(* C13 — peering: lower-priority operators pause, exactly the top one is active.
   Only statements here; proofs in Proofs/Peering.v and Proofs/PeerNet.v.
   Model: Model/Peering.v (process_peering_event / touch / keepalive period, tied to the code by the
   differential) and Model/PeerNet.v (N operators + one shared peering object, tied by trace acceptance).
   Times in ms; [oint]/[odate] are the oracles int(str) / iso8601.parse_date: every theorem holds for ALL of them. *)
From Coq Require Import ZArith List String Bool.
From KV Require Import Base.Json Model.Peering Model.PeerNet Proofs.Peering Proofs.PeerNet.
Import ListNotations.
Open Scope string_scope.
Open Scope Z_scope.
Open Scope list_scope.

(* ---------- one peering event (process_peering_event), any status content ---------- *)

(* paused (toggle on) iff some record other than one's own parses to a live Peer of priority >= own;
   for EVERY status object on which the code does not raise: unknown fields, missing fields, dead records *)
Theorem C13_paused_iff_blocker : forall oint odate c t kvs now o,
  process oint odate c (Some t) (Some (c_name c)) (Some (JObj kvs)) now = POk (Some o) ->
  (o_toggle o = Some true <->
   exists id info p, In (id, info) kvs /\ mk_peer oint odate now id info = POk p /\ blocker c p).
Proof. exact process_paused_iff. Qed.
Print Assumptions C13_paused_iff_blocker.

(* the toggle is switched exactly when its state differs from the verdict *)
Theorem C13_turn_only_on_change : forall c t ps o, decide_peers c (Some t) ps = POk o ->
  forall b, o_turn o = Some b <-> (o_toggle o = Some b /\ t = negb b).
Proof. exact turn_iff. Qed.
Print Assumptions C13_turn_only_on_change.

(* record content: unknown fields are ignored; missing fields mean priority 0, lifetime 60 s, seen now *)
Theorem C13_unknown_fields_ignored : forall oint odate now id k v o, known_field k = false ->
  mk_peer oint odate now id (JObj ((k, v) :: o)) = mk_peer oint odate now id (JObj o).
Proof. exact mk_peer_ignores_unknown. Qed.
Print Assumptions C13_unknown_fields_ignored.

Theorem C13_missing_fields_defaults : forall oint odate now id, dt_ok (now + 60000) = true ->
  mk_peer oint odate now id (JObj []) = POk (mkPeer id (JNum 0) 60 now (now + 60000) false).
Proof. exact mk_peer_defaults. Qed.
Print Assumptions C13_missing_fields_defaults.

(* a parsed Peer is exactly: given identity, stored priority, int(lifetime), parsed lastseen (or now),
   deadline = lastseen + lifetime, dead iff deadline <= now *)
Theorem C13_peer_parse : forall oint odate now id info p, mk_peer oint odate now id info = POk p ->
  exists o, info = JObj o /\ has "identity" o = false /\ has "self" o = false /\
    p_id p = id /\
    p_prio p = dflt (JNum 0) (lookup "priority" o) /\
    py_int oint (dflt (JNum 60) (lookup "lifetime" o)) = POk (p_life p) /\
    py_lastseen odate now (lookup "lastseen" o) = POk (p_seen p) /\
    p_deadline p = p_seen p + p_life p * 1000 /\
    p_dead p = (p_deadline p <=? now).
Proof. exact mk_peer_inv. Qed.
Print Assumptions C13_peer_parse.

(* the wake-up time is the minimum blocker deadline; none without a blocker *)
Theorem C13_wakeup_at_deadline : forall oint odate c tg kvs now o,
  process oint odate c tg (Some (c_name c)) (Some (JObj kvs)) now = POk (Some o) ->
  (o_wake o = None <-> ~ exists id info p, In (id, info) kvs /\ mk_peer oint odate now id info = POk p /\ blocker c p) /\
  (forall w, o_wake o = Some w ->
     (exists id info p, In (id, info) kvs /\ mk_peer oint odate now id info = POk p /\ blocker c p /\ p_deadline p = w) /\
     (forall id info p, In (id, info) kvs -> mk_peer oint odate now id info = POk p -> blocker c p -> w <= p_deadline p)).
Proof. exact process_wake. Qed.
Print Assumptions C13_wakeup_at_deadline.

(* ... at which the operator touches itself (forcing a re-evaluation), unless a new event came first *)
Theorem C13_touch_at_wake : forall o now1 w, o_wake o = Some w ->
  touch_time o now1 None = Some (Z.max now1 w) /\
  (forall t, now1 < w -> t < w -> touch_time o now1 (Some t) = None).
Proof. intros o now1 w H; split; [exact (touch_at_wake o now1 w H) | intros t; exact (interrupted_no_touch o now1 w t H)]. Qed.
Print Assumptions C13_touch_at_wake.

(* expired records — exactly those — are cleaned up (of the snapshot processed) *)
Theorem C13_cleanup_dead : forall oint odate c tg kvs now o,
  process oint odate c tg (Some (c_name c)) (Some (JObj kvs)) now = POk (Some o) -> c_autoclean c = true ->
  forall id, In id (o_clean o) <->
    exists info p, In (id, info) kvs /\ mk_peer oint odate now id info = POk p /\ p_dead p = true.
Proof. exact process_clean. Qed.
Print Assumptions C13_cleanup_dead.

(* a peering object of another name is ignored; an incomparable live priority raises TypeError
   before any effect; numeric priorities never raise *)
Theorem C13_foreign_name_ignored : forall oint odate c tg name status now,
  name <> Some (c_name c) -> process oint odate c tg name status now = POk None.
Proof. exact process_foreign_name_ignored. Qed.
Print Assumptions C13_foreign_name_ignored.

Theorem C13_decision_total_on_numbers : forall c tg ps,
  Forall (fun p => num_of (p_prio p) <> None) (live_of (c_id c) ps) -> exists o, decide_peers c tg ps = POk o.
Proof. exact decide_total. Qed.
Print Assumptions C13_decision_total_on_numbers.

(* ---------- keep-alive ---------- *)
(* renewal period: at least 5 s before expiry for lifetime >= 11, strictly before expiry for lifetime >= 2 *)
Theorem C13_keepalive_margin : forall l j, 5 <= j <= 10 ->
  (11 <= l -> ka_period l j <= l - 5) /\ (2 <= l -> ka_period l j < l) /\ 1 <= ka_period l j.
Proof. intros l j H; split; [intros; now apply ka_margin | split; [intros; now apply ka_before_expiry | apply ka_period_pos]]. Qed.
Print Assumptions C13_keepalive_margin.

(* "renews before it expires" for EVERY lifetime is false (O1: lifetime 1 renews exactly at expiry) ... *)
Theorem C13_renew_before_expiry_refuted : exists l j, 0 <= l /\ 5 <= j <= 10 /\ ~ (ka_period l j < l).
Proof. exact ka_boundary_refuted. Qed.
Print Assumptions C13_renew_before_expiry_refuted.

(* ... and true exactly from lifetime 2 on *)
Theorem C13_renew_before_expiry_partial : forall l j, 2 <= l -> 5 <= j <= 10 -> ka_period l j < l.
Proof. exact ka_before_expiry. Qed.
Print Assumptions C13_renew_before_expiry_partial.

(* the record written on graceful exit (lifetime=0) is a removal; the regular one carries now *)
Theorem C13_record_withdrawn_on_exit : forall c now,
  touch_record c (Some 0) now = None /\ (0 < c_life c -> touch_record c None now = Some (c_prio c, c_life c, now)).
Proof. intros c now; split; [exact (touch_exit_removes c now) | exact (touch_live c now)]. Qed.
Print Assumptions C13_record_withdrawn_on_exit.

(* ---------- N operators, one shared object: every order of starts, exits, kills, keep-alives,
   foreign writes and every delivery delay (all label sequences) ---------- *)

Theorem C13_net_invariant : forall t0 tr s, run (net0 t0) tr = Some s -> Inv s.
Proof. exact reachable_inv. Qed.
Print Assumptions C13_net_invariant.

(* an operator that has processed everything delivered to it, and whose sleep is not due, is paused
   iff the shared object holds a live record of somebody else with priority >= its own *)
Theorem C13_toggle_correct : forall t0 tr s i, run (net0 t0) tr = Some s -> synced s i ->
  op_toggle (n_ops s i) = has_blocker i (op_prio (n_ops s i)) (n_now s) (n_status s).
Proof. exact toggle_correct. Qed.
Print Assumptions C13_toggle_correct.

(* exactly the top one is active, among running operators that see each other *)
Theorem C13_exactly_top_active : forall t0 tr s ids, run (net0 t0) tr = Some s ->
  (forall i, In i ids -> synced s i) ->
  (forall i, In i ids -> exists r, In (i, r) (n_status s) /\ r_prio r = op_prio (n_ops s i) /\ n_now s < dl_at (n_now s) r) ->
  (forall j r, In (j, r) (n_status s) -> n_now s < dl_at (n_now s) r -> In j ids /\ r_prio r = op_prio (n_ops s j)) ->
  forall i, In i ids ->
    (op_toggle (n_ops s i) = false <-> forall j, In j ids -> j <> i -> op_prio (n_ops s j) < op_prio (n_ops s i)).
Proof. exact active_iff_top. Qed.
Print Assumptions C13_exactly_top_active.

Theorem C13_at_most_one_active : forall t0 tr s ids, run (net0 t0) tr = Some s ->
  (forall i, In i ids -> synced s i) ->
  (forall i, In i ids -> exists r, In (i, r) (n_status s) /\ r_prio r = op_prio (n_ops s i) /\ n_now s < dl_at (n_now s) r) ->
  (forall j r, In (j, r) (n_status s) -> n_now s < dl_at (n_now s) r -> In j ids /\ r_prio r = op_prio (n_ops s j)) ->
  forall i j, In i ids -> In j ids -> op_toggle (n_ops s i) = false -> op_toggle (n_ops s j) = false -> i = j.
Proof. exact at_most_one_active. Qed.
Print Assumptions C13_at_most_one_active.

(* equal priorities: a conflict, both pause (as the code behaves) *)
Theorem C13_equal_priority_conflict : forall t0 tr s ids, run (net0 t0) tr = Some s ->
  (forall i, In i ids -> synced s i) ->
  (forall i, In i ids -> exists r, In (i, r) (n_status s) /\ r_prio r = op_prio (n_ops s i) /\ n_now s < dl_at (n_now s) r) ->
  (forall j r, In (j, r) (n_status s) -> n_now s < dl_at (n_now s) r -> In j ids /\ r_prio r = op_prio (n_ops s j)) ->
  forall i j, In i ids -> In j ids -> i <> j -> op_prio (n_ops s i) = op_prio (n_ops s j) ->
    op_toggle (n_ops s i) = true /\ op_toggle (n_ops s j) = true.
Proof. exact equal_priority_conflict. Qed.
Print Assumptions C13_equal_priority_conflict.

(* the hypotheses above are satisfiable: a reachable state with two operators that see each other *)
Theorem C13_top_active_nonvacuous :
  exists s, run (net0 0) tr_two_ops = Some s /\
    (forall i, In i ["a"; "b"] -> synced s i) /\
    (forall i, In i ["a"; "b"] -> exists r, In (i, r) (n_status s) /\ r_prio r = op_prio (n_ops s i) /\ n_now s < dl_at (n_now s) r) /\
    (forall j r, In (j, r) (n_status s) -> n_now s < dl_at (n_now s) r -> In j ["a"; "b"] /\ r_prio r = op_prio (n_ops s j)) /\
    op_toggle (n_ops s "a") = true /\ op_toggle (n_ops s "b") = false.
Proof. exact two_ops_example. Qed.
Print Assumptions C13_top_active_nonvacuous.

(* take-over.  Graceful exit: the record is gone at once (then C13_exactly_top_active applies to the rest).
   Kill: the record stays until its deadline; a paused operator whose blockers have all expired has its
   wake-up due — the self-touch is enabled and (tick_ok) time cannot pass it — so it re-evaluates. *)
Theorem C13_takeover_after_exit : forall s i s', step s (LExit i) = Some s' ->
  (forall r, ~ In (i, r) (n_status s')) /\ op_phase (n_ops s' i) = Exiting.
Proof. exact exit_withdraws. Qed.
Print Assumptions C13_takeover_after_exit.

Theorem C13_takeover_after_kill : forall t0 tr s i, run (net0 t0) tr = Some s ->
  is_up (n_ops s i) = true -> op_listed (n_ops s i) = true -> op_inbox (n_ops s i) = [] ->
  op_toggle (n_ops s i) = true -> has_blocker i (op_prio (n_ops s i)) (n_now s) (n_status s) = false ->
  exists w, op_wake (n_ops s i) = Some w /\ w <= n_now s /\ exists s', step s (LWake i) = Some s'.
Proof. exact wake_due. Qed.
Print Assumptions C13_takeover_after_kill.

Theorem C13_kill_keeps_record : forall s i s', step s (LKill i) = Some s' ->
  n_status s' = n_status s /\ op_phase (n_ops s' i) = Down.
Proof. exact kill_keeps_record. Qed.
Print Assumptions C13_kill_keeps_record.

(* cleaned ids are gone from the object *)
Theorem C13_cleaned_are_gone : forall s i v cleaned tg s', step s (LObserve i v cleaned tg) = Some s' ->
  forall id r, In id cleaned -> ~ In (id, r) (n_status s').
Proof. exact observe_cleans. Qed.
Print Assumptions C13_cleaned_are_gone.

(* "only expired records are cleaned" is FALSE for every delivery timing (F1301): a reachable state where
   a live record of a running operator is removed, after which two operators of different priority are
   both active ... *)
Theorem C13_clean_only_expired_refuted :
  exists s s', run (net0 0) tr_stale_clean = Some s /\
    is_up (n_ops s "b") = true /\ live_rec (n_now s) (n_status s) "b" = true /\
    step s (LObserve "a" 3 ["b"] false) = Some s' /\
    live_rec (n_now s') (n_status s') "b" = false /\
    is_up (n_ops s' "a") = true /\ is_up (n_ops s' "b") = true /\
    op_toggle (n_ops s' "a") = false /\ op_toggle (n_ops s' "b") = false /\
    op_prio (n_ops s' "a") <> op_prio (n_ops s' "b").
Proof. exact stale_clean_witness. Qed.
Print Assumptions C13_clean_only_expired_refuted.

(* ... and true when the event processed is the latest one (the snapshot is the current object) *)
Theorem C13_clean_only_expired_partial : forall t0 tr s i v cleaned tg s' snap,
  run (net0 t0) tr = Some s -> is_up (n_ops s i) = true ->
  step s (LObserve i v cleaned tg) = Some s' -> op_inbox (n_ops s i) = [(v, snap)] ->
  forall id, In id cleaned -> exists r, In (id, r) (n_status s) /\ dl_at (n_now s) r <= n_now s.
Proof. exact clean_only_expired_when_current. Qed.
Print Assumptions C13_clean_only_expired_partial.

(* "removed on graceful exit" does not mean "stays removed" (F1302): the draining worker's wake-up
   re-registers the exited operator ... *)
Theorem C13_withdrawn_stays_refuted :
  exists s1 s2, run (net0 0) tr_touch_after_exit = Some s1 /\ live_rec (n_now s1) (n_status s1) "c" = false /\
    run s1 [LTick 12000; LWake "c"; LGone "c"] = Some s2 /\
    op_phase (n_ops s2 "c") = Down /\ live_rec (n_now s2) (n_status s2) "c" = true.
Proof. exact touch_after_exit_witness. Qed.
Print Assumptions C13_withdrawn_stays_refuted.

(* ... unless it exits with no armed sleep and nothing undelivered: then it can write nothing any more *)
Theorem C13_withdrawn_stays_partial : forall s i, op_phase (n_ops s i) = Exiting ->
  op_wake (n_ops s i) = None -> op_inbox (n_ops s i) = [] ->
  step s (LWake i) = None /\ step s (LKeepalive i) = None /\ step s (LExit i) = None /\
  forall v c t, step s (LObserve i v c t) = None.
Proof. exact exiting_idle_is_silent. Qed.
Print Assumptions C13_withdrawn_stays_partial.

(* "the toggle follows the verdict whenever the decision does not raise" is false of the code as a
   whole: the log line of the equal-priority branch formats EVERY record (also expired ones and one's own)
   and int(priority) can raise there, after clean() and before turn_to() ... *)
Theorem C13_toggle_follows_verdict_refuted :
  let oint := fun _ : string => None in
  let odate := fun _ : string => Some 0 in
  let c := mkCfg "me" 0 60 "default" true in
  (exists o, process oint odate c (Some false) (Some "default") (Some log_abort_status) 1000000 = POk (Some o)
             /\ o_toggle o = Some true) /\
  run_event oint odate c (Some false) (Some "default") (Some log_abort_status) 1000000 0 None None
  = ([ObsClean ["gone"]], Some TypeError).
Proof. exact log_abort_witness. Qed.
Print Assumptions C13_toggle_follows_verdict_refuted.

(* ... and cannot happen when every priority in the object is a number (the property's record contents) *)
Theorem C13_toggle_follows_verdict_partial : forall oint c t ps,
  Forall (fun p => num_of (p_prio p) <> None) ps -> log_raises oint c t ps = None.
Proof. exact log_raises_none_numeric. Qed.
Print Assumptions C13_toggle_follows_verdict_partial.
