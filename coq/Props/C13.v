From Coq Require Import ZArith List String Bool.
From KV Require Import Base.Json Model.Peering Proofs.Peering.
Open Scope Z_scope.

Theorem C13_keepalive_positive : forall l j, 1 <= ka_period l j.
Proof. exact ka_period_pos. Qed.
Print Assumptions C13_keepalive_positive.
