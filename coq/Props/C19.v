(* C19 — watch coverage and continuity under reconnects, 410s, pauses and cluster changes.
   Only statements here; proofs in Proofs/Ensemble.v, Proofs/EnsembleToggles.v, Proofs/Watch.v, Proofs/WatchWorld.v,
   Proofs/WatchLive.v, Proofs/C19Examples.v.
   Models: Model/Ensemble.v (orchestration.adjust_tasks incl. the conflict toggles, observation.revise_namespaces and
           _update_resources, references.match_namespace),
           Model/Watch.v (infinite_watch/streaming_block/continuous_watch/watch_objs/api.stream + the API server,
           api.iter_jsonlines).

   CLAUSE AUDIT (statement and quantifier of C19 in properties.jsonl)
   ---------------------------------------------------------------------------------------------------------------
   clause                                             | stated by
   ---------------------------------------------------------------------------------------------------------------
   Q1 "every history of namespace/CRD additions and   | all coverage theorems quantify over every list of insights
       removals"                                      | (run_adjust hs); insights from cluster events: namespaces in full
                                                      | (C19_namespace_insights), kinds via _update_resources
                                                      | (C19_update_resources) and _disable_unsuitable_resources
                                                      | (C19_disable_unsuitable, C19_readonly_stays_served,
                                                      | C19_readonly_dropped_iff; F1902 fixed), selectors = oracle; the ambiguity filter of
                                                      | revise_resources NOT COVERED by proof, monitored only (whole-operator
                                                      | scenarios, connection-table)
   S1 "exactly one watch per served pair"             | FULL: C19_served_pairs_watched (at least one), C19_no_duplicate_task
                                                      | (at most one). "active" = key in the task map; a watcher task that DIED
                                                      | (F10, property C20) stays in the map: liveness of the task is monitored
                                                      | only (live stub tasks per key; FakeAPI connection table)
   S1' the watch is really open (not held by a pause) | FULL: C19_toggles_exact, C19_removed_key_no_toggle,
       unless a live peer blocks                      | C19_paused_iff_current_blocker
   S2 "and none for anything else"                    | exact characterisation C19_watchers_after_adjust (full);
                                                      | C19_one_watch_per_pair_refuted (corners O2, O2b, P — observations, no
                                                      | finding: C19_cluster_scoped_corner, _clusterwide_switch_, _peering_) +
                                                      | C19_one_watch_per_pair_partial (state guards) and, NEW, from hypotheses
                                                      | on the inputs only: C19_one_watch_per_pair_history
   S3 "every object change reaches processing"        | FULL safety: C19_no_change_skipped, C19_accepted_line_is_yielded;
       across disconnects, timeouts, bookmarks, 410   | FULL progress, NEW: C19_catch_up (from EVERY reachable live un-paused
                                                      | state a fault-free continuation covers every change; subsumes
                                                      | C19_relist_catches_up / C19_stream_catches_up, kept); bytes->lines:
                                                      | C19_lines_chunking_independent, C19_lines_exact
   S4 "re-listed or resumed from the latest version   | FULL: C19_resume_from_latest (any server), C19_watch_request_skips_nothing
       seen, never one that skips changes"            |
   S5 "an unknown error event is never silently       | FULL: C19_unknown_error_raises, C19_failure_is_raised
       skipped"                                       | (HTTP-level 410 on the request: C19_http_410_corner, observation O3)
   S6 "while paused nothing is listed or watched"     | C19_paused_no_requests_refuted (finding F1901) + _partial (guard = exactly
                                                      | F1901's retry attempts) + _without_retries (full when no retry budget)
   S7 "watching restarts with a fresh listing on      | FULL safety: C19_fresh_list_on_resume, C19_list_unpaused_or_retry;
       resume"                                        | progress, NEW: C19_resume_catches_up
   Q2 "every sequence of stream faults at every       | the label alphabet of Model/Watch.v (LFault x6, LEnd x6, LLine err/unknown,
       position, every pause/resume timing"           | retries) — every theorem is for all label lists; timing = label order
   not covered by proof: real TCP/aiohttp buffering; Selector.select; watcher-task death (C20); the composition
   "Ensemble.paused_on drives Watch.cstate.paused" is by reading (operator_paused is the same ToggleSet object).
   --------------------------------------------------------------------------------------------------------------- *)
From Coq Require Import ZArith List String Bool.
From KV Require Import Model.Ensemble Model.Watch Proofs.Ensemble Proofs.EnsembleToggles Proofs.Watch Proofs.WatchWorld
  Proofs.WatchLive Proofs.C19Examples.
Import ListNotations.
Open Scope Z_scope.

(* ======================= exactly one watch per served pair ======================= *)

(* every served (resource, namespace) pair has a watcher after every adjustment: unconditional,
   for every history of insights (namespaces and kinds appearing and disappearing) *)
Theorem C19_served_pairs_watched : forall hs i k,
  In k (served i) -> In k (watchers (run_adjust (hs ++ [i]))).
Proof. exact served_pairs_watched. Qed.
Print Assumptions C19_served_pairs_watched.

(* one task per key, never two: the key list is duplicate-free after every history *)
Theorem C19_no_duplicate_task : forall hs, NoDup (watchers (run_adjust hs)).
Proof. exact run_adjust_NoDup. Qed.
Print Assumptions C19_no_duplicate_task.

(* the exact content after one adjustment: the served pairs plus the old watchers that
   terminate_redundancies does not consider redundant *)
Theorem C19_watchers_after_adjust : forall i e k,
  In k (watchers (adjust i e)) <-> In k (served i) \/ (In k (watchers e) /\ redundant i k = false).
Proof. exact adjust_watchers_iff. Qed.
Print Assumptions C19_watchers_after_adjust.

(* "exactly the served pairs and none for anything else" is FALSE of the faithful model ... *)
Theorem C19_one_watch_per_pair_refuted :
  exists hs i k, In k (watchers (run_adjust (hs ++ [i]))) /\ ~ In k (served i).
Proof. exact exactness_refuted. Qed.
Print Assumptions C19_one_watch_per_pair_refuted.

(* ... the witness being observation O2: a cluster-scoped kind's watcher survives the loss of the last
   namespace, although it is not served and would not be started in that situation *)
Theorem C19_cluster_scoped_corner :
  let i1 := {| watched := [r_cluster]; namespaces := [Some "ns1"%string]; peering := [] |} in
  let i2 := {| watched := [r_cluster]; namespaces := []; peering := [] |} in
  served i2 = [] /\ watchers (adjust i2 ens0) = [] /\
  watchers (run_adjust [i1; i2]) = [(r_cluster, None)].
Proof. exact cluster_scoped_corner. Qed.
Print Assumptions C19_cluster_scoped_corner.

(* two more corners of the same `| {None}` / `watched | peering` unions in terminate_redundancies *)
Theorem C19_clusterwide_switch_corner :
  let i1 := {| watched := [r_spaced]; namespaces := [None]; peering := [] |} in
  let i2 := {| watched := [r_spaced]; namespaces := [Some "ns1"%string]; peering := [] |} in
  keys_same (watchers (run_adjust [i1; i2])) [(r_spaced, None); (r_spaced, Some "ns1"%string)] = true /\
  served i2 = [(r_spaced, Some "ns1"%string)].
Proof. exact clusterwide_switch_corner. Qed.
Print Assumptions C19_clusterwide_switch_corner.

Theorem C19_peering_corner :
  let i1 := {| watched := [r_peer]; namespaces := [None]; peering := [r_peer] |} in
  let i2 := {| watched := []; namespaces := [None]; peering := [r_peer] |} in
  watchers (run_adjust [i1; i2]) = [(r_peer, None)] /\ served i2 = [].
Proof. exact peering_corner. Qed.
Print Assumptions C19_peering_corner.

(* ... and it holds, for every history, exactly outside these corners:
   guard1: some namespace is served, or no cluster-scoped kind has a watcher yet;
   guard2: cluster-wide serving is still on, or no namespaced kind is watched cluster-wide;
   guard3: every peering resource is itself watched, or has no watcher. *)
Theorem C19_one_watch_per_pair_partial : forall hs i,
  let e := run_adjust hs in
  guard1 i e -> guard2 i e -> guard3 i e ->
  forall k, In k (watchers (run_adjust (hs ++ [i]))) <-> In k (served i).
Proof. exact history_exact. Qed.
Print Assumptions C19_one_watch_per_pair_partial.

(* the same from hypotheses on the INPUTS only — nothing about the ensemble's state:
   H1 some namespace is served now; H2 cluster-wide serving, once on, is still on (kopf fixes `clusterwide` per process);
   H3 a peering resource that was ever watched is still watched.  Each hypothesis excludes exactly one corner above. *)
Theorem C19_one_watch_per_pair_history : forall hs i,
  namespaces i <> [] ->
  (forall j, In j hs -> In None (namespaces j) -> In None (namespaces i)) ->
  (forall j r, In j hs -> In r (peering i) -> In r (watched j) -> In r (watched i)) ->
  forall k, In k (watchers (run_adjust (hs ++ [i]))) <-> In k (served i).
Proof. exact history_exact_inputs. Qed.
Print Assumptions C19_one_watch_per_pair_history.

Example C19_history_hypotheses_satisfiable :
  let i1 := {| watched := [r_cluster; r_spaced]; namespaces := [Some "ns1"; Some "ns2"]%string; peering := [r_peer] |} in
  let i2 := {| watched := [r_cluster]; namespaces := [Some "ns2"; Some "ns3"]%string; peering := [r_peer] |} in
  namespaces i2 <> [] /\
  (forall j, In j [i1] -> In None (namespaces j) -> In None (namespaces i2)) /\
  (forall j r, In j [i1] -> In r (peering i2) -> In r (watched j) -> In r (watched i2)) /\
  watchers (run_adjust [i1; i2]) = [(r_cluster, None)] /\ served i2 = [(r_cluster, None); (r_cluster, None)].
Proof. exact history_inputs_example. Qed.
Print Assumptions C19_history_hypotheses_satisfiable.

Example C19_served_hypotheses_satisfiable :
  let i1 := {| watched := [r_spaced]; namespaces := [Some "ns1"; Some "ns2"]%string; peering := [] |} in
  let i2 := {| watched := [r_spaced; r_cluster]; namespaces := [Some "ns2"%string]; peering := [] |} in
  In (r_spaced, Some "ns2"%string) (served i2) /\ In (r_cluster, None) (served i2) /\
  List.length (watchers (run_adjust [i1])) = 2%nat.
Proof. exact served_hypotheses. Qed.
Print Assumptions C19_served_hypotheses_satisfiable.

(* non-vacuity: the guards hold in a history where a namespace and a kind disappear *)
Example C19_guards_satisfiable :
  let i1 := {| watched := [r_cluster; r_spaced]; namespaces := [Some "ns1"; Some "ns2"]%string; peering := [] |} in
  let i2 := {| watched := [r_spaced]; namespaces := [Some "ns2"%string]; peering := [] |} in
  let e := run_adjust [i1] in
  guard1 i2 e /\ guard2 i2 e /\ guard3 i2 e /\
  keys_same (watchers e) [(r_cluster, None); (r_spaced, Some "ns1"); (r_spaced, Some "ns2")]%string = true /\
  watchers (run_adjust [i1; i2]) = [(r_spaced, Some "ns2"%string)].
Proof. exact guards_example. Qed.
Print Assumptions C19_guards_satisfiable.

(* adjusting twice with the same insights changes nothing, stops nothing, starts nothing *)
Theorem C19_adjust_idempotent : forall i e, adjust i (adjust i e) = adjust i e.
Proof. exact adjust_idempotent. Qed.
Print Assumptions C19_adjust_idempotent.

Theorem C19_adjust_again_quiet : forall i e,
  let e1 := adjust i e in
  stopped i (watchers e1) = [] /\ started (watchers (terminate i e1)) (watchers (adjust i e1)) = [].
Proof. exact adjust_again_quiet. Qed.
Print Assumptions C19_adjust_again_quiet.

(* the insights: a deleted (unblocked) namespace leaves them, a matching live one enters, others untouched *)
Theorem C19_namespace_insights : forall nss e,
  (is_deleted e = true -> ne_blocked e = false -> ~ In (Some (ne_name e)) (revise_one nss e)) /\
  (is_deleted e = false -> ne_matched e = true -> In (Some (ne_name e)) (revise_one nss e)) /\
  (forall n, n <> Some (ne_name e) -> (In n (revise_one nss e) <-> In n nss)).
Proof. exact namespace_insights. Qed.
Print Assumptions C19_namespace_insights.

(* the kinds dimension after a (re)scan of API group g (None = everything): a kind is in it iff the selectors select it
   from the fresh scan, or it belongs to another group and was there before; a kind that the scan no longer shows leaves *)
Theorem C19_update_resources : forall g rs selected x,
  In x (update_resources g rs selected) <-> In x selected \/ (In x rs /\ in_group g x = false).
Proof. exact update_resources_spec. Qed.
Print Assumptions C19_update_resources.

Theorem C19_update_resources_gone : forall g rs selected x,
  in_group g x = true -> ~ In x selected -> ~ In x (update_resources g rs selected).
Proof. exact update_resources_gone. Qed.
Print Assumptions C19_update_resources_gone.

Example C19_update_resources_hypotheses_satisfiable :
  let x := ("a.dev"%string, r_cluster) in let y := ("a.dev"%string, r_spaced) in let z := ("b.dev"%string, r_spaced) in
  in_group (Some "a.dev"%string) x = true /\ ~ In x [y] /\
  gres_same (update_resources (Some "a.dev"%string) [x; z] [y]) [y; z] = true.
Proof. exact update_resources_hypotheses. Qed.
Print Assumptions C19_update_resources_hypotheses_satisfiable.

(* observation._disable_unsuitable_resources (as repaired by 4448d18, finding F1902): what stays served after the verbs check.
   `nowatch` / `nopatch` = resources lacking list-or-watch / patch; `psel` = resources selected by a state-storing handler
   (create/update/delete/resume, timer, daemon) *)
Theorem C19_disable_unsuitable : forall rs nowatch nopatch psel x,
  In x (disable_unsuitable rs nowatch nopatch psel) <->
  In x rs /\ ~ In x nowatch /\ ~ (In x nopatch /\ In x psel).
Proof. exact disable_unsuitable_spec. Qed.
Print Assumptions C19_disable_unsuitable.

(* a read-only kind with only event / index handlers stays served whatever else the operator handles *)
Theorem C19_readonly_stays_served : forall rs nowatch nopatch psel x,
  In x rs -> ~ In x nowatch -> ~ In x psel -> In x (disable_unsuitable rs nowatch nopatch psel).
Proof. exact readonly_stays_served. Qed.
Print Assumptions C19_readonly_stays_served.

(* a listable/watchable kind without `patch` is dropped iff a state-storing handler selects THAT kind *)
Theorem C19_readonly_dropped_iff : forall rs nowatch nopatch psel x,
  In x rs -> ~ In x nowatch -> In x nopatch ->
  (~ In x (disable_unsuitable rs nowatch nopatch psel) <-> In x psel).
Proof. exact readonly_dropped_iff. Qed.
Print Assumptions C19_readonly_dropped_iff.

(* what must not change: nothing is added; a kind with all three verbs always stays *)
Theorem C19_disable_unsuitable_frame : forall rs nowatch nopatch psel x,
  (In x (disable_unsuitable rs nowatch nopatch psel) -> In x rs) /\
  (In x rs -> ~ In x nowatch -> ~ In x nopatch -> In x (disable_unsuitable rs nowatch nopatch psel)).
Proof. exact disable_unsuitable_frame. Qed.
Print Assumptions C19_disable_unsuitable_frame.

Example C19_readonly_hypotheses_satisfiable :
  let x := ("a.dev"%string, r_cluster) in let y := ("a.dev"%string, r_spaced) in
  In x [x; y] /\ ~ In x [] /\ In x [x; y] /\ ~ In x [y] /\ In y [y] /\
  disable_unsuitable [x; y] [] [x; y] [y] = [x].
Proof. exact readonly_hypotheses. Qed.
Print Assumptions C19_readonly_hypotheses_satisfiable.

(* regression example of F1902 (the former corner R): two read-only kinds, x with event handlers only, y with a state-storing
   handler: only y is dropped; before 4448d18 the first result was [] *)
Example C19_readonly_corner :
  let x := ("a.dev"%string, r_cluster) in let y := ("a.dev"%string, r_spaced) in
  disable_unsuitable [x; y] [] [x; y] [y] = [x] /\ disable_unsuitable [x; y] [] [x] [y] = [x; y].
Proof. exact readonly_regression. Qed.
Print Assumptions C19_readonly_corner.

(* ======================= the conflict toggles: paused only by a CURRENT peering ======================= *)

(* after every history of adjustments operator_paused holds exactly the toggles of conflicts_found, these are
   exactly one per current peering key: no toggle of a removed namespace / peering CRD survives *)
Theorem C19_toggles_exact : forall hs,
  let t := trun_adjust hs in
  (forall f, In f (pset t) <-> In f (flags t)) /\
  (forall k, In k (peerings (run_adjust hs)) <-> exists n, In (k, n) (pset t)) /\
  (forall f g, In f (pset t) -> In g (pset t) -> fst f = fst g -> f = g).
Proof. exact toggles_exact. Qed.
Print Assumptions C19_toggles_exact.

Theorem C19_removed_key_no_toggle : forall hs i f,
  In f (pset (trun_adjust (hs ++ [i]))) -> redundant i (fst f) = false.
Proof. exact removed_key_no_toggle. Qed.
Print Assumptions C19_removed_key_no_toggle.

(* hence, whatever the toggles' states: the operator is paused iff the mandatory peering CRD is missing or some
   CURRENT peering reports a conflict; the served pairs are watched otherwise (streaming_block lets through) *)
Theorem C19_paused_iff_current_blocker : forall hs mandatory i onk,
  paused_on mandatory i onk (trun_adjust hs) = blocked_by_current mandatory i onk (trun_adjust hs).
Proof. exact paused_iff_current_blocker. Qed.
Print Assumptions C19_paused_iff_current_blocker.

(* the task maps of the model with toggles are those of the model without *)
Theorem C19_toggles_conservative : forall hs, te (trun_adjust hs) = run_adjust hs.
Proof. exact trun_base. Qed.
Print Assumptions C19_toggles_conservative.

Example C19_toggle_dropped_with_namespace :
  let rp := {| rid := 101; rns := true |} in
  let i1 := {| watched := [r_spaced]; namespaces := [Some "ns1"; Some "ns2"]%string; peering := [rp] |} in
  let i2 := {| watched := [r_spaced]; namespaces := [Some "ns1"%string]; peering := [rp] |} in
  togs_same (pset (trun_adjust [i1])) [((rp, Some "ns1"%string), 0%nat); ((rp, Some "ns2"%string), 1%nat)] = true /\
  paused_on false i1 [(rp, Some "ns2"%string)] (trun_adjust [i1]) = true /\
  pset (trun_adjust [i1; i2]) = [((rp, Some "ns1"%string), 0%nat)] /\
  paused_on false i2 [(rp, Some "ns2"%string)] (trun_adjust [i1; i2]) = false.
Proof. exact toggle_example. Qed.
Print Assumptions C19_toggle_dropped_with_namespace.

(* ======================= continuity within one watch ======================= *)

(* every watch request (first attempt or re-sent) carries the latest version seen: that of the last listing,
   replaced by every later ADDED/MODIFIED/DELETED/BOOKMARK line — for every label list and retry budget,
   whatever the server sends *)
Theorem C19_resume_from_latest : forall retries pa tr s since s',
  crun retries (cinit pa) tr = Some s -> cstep retries s (LReqWatch since) = Some s' -> since = latest tr.
Proof. exact resume_from_latest. Qed.
Print Assumptions C19_resume_from_latest.

(* closed system (client x server with growing versions, in-order delivery, honest bookmarks):
   wherever the client stands, every change up to that version was delivered on a stream or is
   post-dated by a listing; deletions are reflected by absence from the listing (no synthetic DELETED) *)
Theorem C19_no_change_skipped : forall retries pa v0 tr w rv,
  wrun retries (winit pa v0) tr = Some w ->
  position (ph (cl w)) = Some rv ->
  exists v, rv = Some v /\ v <= cur (sv w) /\
            forall ch, In ch (log (sv w)) -> c_rv ch <= v -> covered tr ch.
Proof. exact no_change_skipped. Qed.
Print Assumptions C19_no_change_skipped.

Theorem C19_watch_request_skips_nothing : forall retries pa v0 tr w since w',
  wrun retries (winit pa v0) tr = Some w -> wstep retries w (WC (LReqWatch since)) = Some w' ->
  exists v, since = Some v /\ v <= cur (sv w) /\
            forall ch, In ch (log (sv w)) -> c_rv ch <= v -> covered tr ch.
Proof. exact watch_request_skips_nothing. Qed.
Print Assumptions C19_watch_request_skips_nothing.

(* a line that was accepted is handed to the consumer before anything else can happen *)
Theorem C19_accepted_line_is_yielded : forall retries s l s' rv y,
  ph s = PGot rv y -> cstep retries s l = Some s' -> l = LYield y /\ ph s' = POpen rv.
Proof. exact got_then_yield. Qed.
Print Assumptions C19_accepted_line_is_yielded.

(* progress: whenever the client is between streams and not paused (after a 410, a swallowed 429, a failed
   listing, a pause) the fault-free schedule LIST / yield all / LISTED is accepted and covers every change *)
Theorem C19_relist_catches_up : forall retries pa v0 tr w,
  wrun retries (winit pa v0) tr = Some w -> ph (cl w) = PIdle -> paused (cl w) = false ->
  exists w', wrun retries w (relist (sv w)) = Some w' /\
             ph (cl w') = PLoop (Some (cur (sv w))) /\ sv w' = sv w /\
             forall ch, In ch (log (sv w')) -> covered (tr ++ relist (sv w)) ch.
Proof. exact relist_catches_up. Qed.
Print Assumptions C19_relist_catches_up.

(* progress on an open, un-paused stream: "the server sends what it has, in order" is accepted to the end,
   every line is yielded, nothing of the log is left above the client's position, and every change is covered *)
Theorem C19_stream_catches_up : forall retries pa v0 tr w rv,
  wrun retries (winit pa v0) tr = Some w -> ph (cl w) = POpen rv -> stopper (cl w) = false ->
  exists v tr' w' v', rv = Some v /\
    wrun retries w tr' = Some w' /\ ph (cl w') = POpen (Some v') /\ log (sv w') = log (sv w) /\
    (forall ch, In ch (log (sv w')) -> c_rv ch <= v') /\
    (forall ch, In ch (log (sv w')) -> covered (tr ++ tr') ch).
Proof. exact stream_catches_up. Qed.
Print Assumptions C19_stream_catches_up.

(* PROGRESS FROM EVERY STATE: for every reachable state of the closed system in which the operator is not paused and the
   stream has not failed — in the middle of a listing, a retry back-off, a request in flight, an open or a just-closed
   stream, after a 410, a 429, a pause — there is a fault-free continuation (only requests, successful responses, event
   lines in server order, yields, and the client's own close) that the system accepts, which does not change the server's
   data, and after which the client's position is at or above every change and every change is covered. *)
Theorem C19_catch_up : forall retries pa v0 tr w,
  wrun retries (winit pa v0) tr = Some w ->
  paused (cl w) = false -> ph (cl w) <> PFail -> ph (cl w) <> PDead ->
  exists tr' w' v',
    wrun retries w tr' = Some w' /\ forallb quiet tr' = true /\
    log (sv w') = log (sv w) /\ cur (sv w') = cur (sv w) /\ paused (cl w') = false /\
    position (ph (cl w')) = Some (Some v') /\
    (forall ch, In ch (log (sv w')) -> c_rv ch <= v') /\
    (forall ch, In ch (log (sv w')) -> covered (tr ++ tr') ch).
Proof. exact catch_up. Qed.
Print Assumptions C19_catch_up.

(* ... in particular right after a Resume: watching restarts and catches up *)
Theorem C19_resume_catches_up : forall retries pa v0 tr w w1,
  wrun retries (winit pa v0) tr = Some w -> paused (cl w) = true -> ph (cl w) <> PFail -> ph (cl w) <> PDead ->
  wstep retries w (WC LResume) = Some w1 ->
  exists tr' w' v',
    wrun retries w1 tr' = Some w' /\ forallb quiet tr' = true /\
    log (sv w') = log (sv w) /\ position (ph (cl w')) = Some (Some v') /\
    (forall ch, In ch (log (sv w')) -> c_rv ch <= v') /\
    (forall ch, In ch (log (sv w')) -> covered (tr ++ WC LResume :: tr') ch).
Proof. exact resume_catches_up. Qed.
Print Assumptions C19_resume_catches_up.

Example C19_catch_up_hypotheses_satisfiable :
  exists w, wrun 1 (winit false 8) ex_trace = Some w /\ paused (cl w) = false /\ ph (cl w) = PWatch (Some 10) 1 /\
            ph (cl w) <> PFail /\ ph (cl w) <> PDead /\ List.length (log (sv w)) = 3%nat /\ cur (sv w) = 11.
Proof. exact catch_up_hypotheses. Qed.
Print Assumptions C19_catch_up_hypotheses_satisfiable.

Example C19_resume_from_latest_hypotheses_satisfiable :
  exists s s', crun 1 (cinit false) (client_labels (firstn 11 ex_trace)) = Some s /\
               cstep 1 s (LReqWatch (Some 10)) = Some s' /\ latest (client_labels (firstn 11 ex_trace)) = Some 10.
Proof. exact resume_hypotheses. Qed.
Print Assumptions C19_resume_from_latest_hypotheses_satisfiable.

Example C19_unknown_error_hypotheses_satisfiable :
  exists s s1, crun 0 (cinit false) (client_labels (firstn 7 ex_trace)) = Some s /\ (500 <> 410) /\
               cstep 0 s (LLine (LnErr 500)) = Some s1 /\ ph s1 = PFail.
Proof. exact error_hypotheses. Qed.
Print Assumptions C19_unknown_error_hypotheses_satisfiable.

Example C19_fresh_list_hypotheses_satisfiable :
  exists s1 s2, crun 0 (cinit false) (client_labels (firstn 7 ex_trace) ++ [LPause]) = Some s1 /\ paused s1 = true /\
                crun 0 s1 [LResume; LEnd EClosed] = Some s2 /\ ~ In LReqList [LEnd EClosed] /\ ph s2 = PLoop (Some 9) /\ stopper s2 = true.
Proof. exact resume_after_pause_hypotheses. Qed.
Print Assumptions C19_fresh_list_hypotheses_satisfiable.

Example C19_lines_hypotheses_satisfiable :
  jsonlines [[123; 125]; [10; 10; 49]; [50; 10]] = [[123; 125]; [49; 50]] /\
  (forall l, In l [[123; 125]; [49; 50]] -> nonl l /\ l <> []).
Proof. exact lines_hypotheses. Qed.
Print Assumptions C19_lines_hypotheses_satisfiable.

(* api.iter_jsonlines: the lines handed on do not depend on how the bytes arrive in chunks, and are exactly
   the non-empty newline-terminated pieces: no event line is lost, split or merged at a chunk boundary *)
Theorem C19_lines_chunking_independent : forall chunks, jsonlines chunks = jsonlines [List.concat chunks].
Proof. exact jsonlines_chunking. Qed.
Print Assumptions C19_lines_chunking_independent.

Theorem C19_lines_exact : forall ls, (forall l, In l ls -> nonl l /\ l <> []) ->
  jsonlines [List.concat (map (fun l => l ++ [10]) ls)] = ls.
Proof. exact jsonlines_of_lines. Qed.
Print Assumptions C19_lines_exact.

(* an unknown ERROR event is never silently skipped: after it nothing is yielded and nothing requested,
   the only thing the consumer can get is the exception *)
Theorem C19_unknown_error_raises : forall retries s code s1 tr s',
  code <> 410 -> cstep retries s (LLine (LnErr code)) = Some s1 -> crun retries s1 tr = Some s' ->
  Forall env_or_raise tr /\ failing s'.
Proof. exact unknown_error_raises. Qed.
Print Assumptions C19_unknown_error_raises.

Theorem C19_failure_is_raised : forall retries s l s', ph s = PFail -> cstep retries s l = Some s' ->
  l = LPause \/ l = LResume \/ (l = LRaised /\ ph s' = PDead).
Proof. exact fail_then_only_raise. Qed.
Print Assumptions C19_failure_is_raised.

(* observation O3: an HTTP-level 410 on the watch REQUEST is a client error that ends the stream with an
   exception, unlike the in-stream 410 event, which re-lists *)
Theorem C19_http_410_corner : forall retries rv k pa st,
  cstep retries (mk (PWatchWait rv k) pa st) (LFault F4xx) = Some (mk PFail pa st) /\
  cstep retries (mk (POpen rv) pa false) (LLine (LnErr 410)) = Some (mk PIdle pa false).
Proof. exact http_410_corner. Qed.
Print Assumptions C19_http_410_corner.

(* ======================= pause ======================= *)

(* "while paused nothing is listed or watched" is FALSE of the faithful model: api.request's retry loop
   re-sends a failed LIST (or WATCH) without consulting the pause (finding F1901) ... *)
Theorem C19_paused_no_requests_refuted :
  exists s, crun 1 (cinit false) [LReqList; LFault FConn; LPause] = Some s /\ paused s = true /\
            cstep 1 s LReqList <> None.
Proof. exact paused_request_witness. Qed.
Print Assumptions C19_paused_no_requests_refuted.

(* ... every request accepted while paused is such a re-sent attempt (attempt number >= 2) ... *)
Theorem C19_paused_no_requests_partial : forall retries pa tr s l s',
  crun retries (cinit pa) tr = Some s -> paused s = true -> cstep retries s l = Some s' ->
  (l = LReqList -> exists k, ph s = PList (S k)) /\
  (forall since, l = LReqWatch since -> exists rv k, ph s = PWatch rv (S k)).
Proof. exact paused_only_retries. Qed.
Print Assumptions C19_paused_no_requests_partial.

(* ... and with no retry budget the statement holds in full *)
Theorem C19_paused_no_requests_without_retries : forall pa tr s l s',
  crun 0 (cinit pa) tr = Some s -> paused s = true -> cstep 0 s l = Some s' ->
  l <> LReqList /\ forall since, l <> LReqWatch since.
Proof. exact paused_no_requests_no_retries. Qed.
Print Assumptions C19_paused_no_requests_without_retries.

(* watching restarts with a fresh listing on resume: after a pause, until a LIST request is sent, no stream
   line is consumed, a watch request can only be a re-sent attempt, and a stream that opens is closed at once *)
Theorem C19_fresh_list_on_resume : forall retries pa tr1 s1 tr2 s2,
  crun retries (cinit pa) tr1 = Some s1 -> paused s1 = true ->
  crun retries s1 (LResume :: tr2) = Some s2 -> ~ In LReqList tr2 ->
  (forall ln, cstep retries s2 (LLine ln) = None) /\
  (forall since s', cstep retries s2 (LReqWatch since) = Some s' -> exists rv k, ph s2 = PWatch rv k) /\
  (forall s', cstep retries s2 LWatchOk = Some s' -> exists rv, ph s' = PLoop rv).
Proof. exact fresh_list_on_resume. Qed.
Print Assumptions C19_fresh_list_on_resume.

(* a LIST request is either the start of a brand-new stream sent un-paused, or a re-sent attempt *)
Theorem C19_list_unpaused_or_retry : forall retries pa tr s s',
  crun retries (cinit pa) tr = Some s -> cstep retries s LReqList = Some s' ->
  (paused s = false /\ ph s' = PListWait 0 /\ stopper s' = false) \/ (exists k, ph s = PList (S k)).
Proof. exact list_request_unpaused_or_retry. Qed.
Print Assumptions C19_list_unpaused_or_retry.

(* ======================= non-vacuity: a faulty run that is accepted ======================= *)

Example C19_accepted_run :
  exists w, wrun 1 (winit false 100)
    [WChange TAdded "a"; WC LReqList; WC (LListOk (Some 101) [("a"%string, Some 101)]);
     WC (LYield (YItem "a" (Some 101))); WC (LYield YListed); WC (LReqWatch (Some 101)); WC LWatchOk;
     WChange TModified "a"; WC (LLine (LnEv TModified (Some 102) "a")); WC (LYield (YEv TModified (Some 102) "a"));
     WC (LEnd EConn); WC (LReqWatch (Some 102)); WC (LFault F5xx); WChange TDeleted "a"; WC (LReqWatch (Some 102)); WC LWatchOk;
     WC (LLine (LnEv TDeleted (Some 103) "a")); WC (LYield (YEv TDeleted (Some 103) "a"));
     WC LPause; WC (LEnd EClosed); WChange TAdded "b"; WC LResume; WC LReqList; WC (LListOk (Some 104) [("b"%string, Some 104)]);
     WC (LYield (YItem "b" (Some 104))); WC (LYield YListed); WC (LReqWatch (Some 104)); WC LWatchOk;
     WC (LLine (LnErr 410)); WC LReqList]%string = Some w
  /\ ph (cl w) = PListWait 0.
Proof. exact accepted_run. Qed.
Print Assumptions C19_accepted_run.
