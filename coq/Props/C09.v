(* C09 — daemon/timer life-cycle.  Only statements here; proofs in Proofs/Daemons.v, model in Model/Daemons.v.
   ∀ = unbounded: every label history of the per-object LTS (events with any view/time/oracle, task ends, killer steps),
   every handler configuration (backoff/timeout/polling in Z or None), every age of the stop flag, every oracle. *)
From Coq Require Import ZArith List Bool.
From KV Require Import Model.Daemons Proofs.Daemons.
Import ListNotations.
Open Scope Z_scope.

(* at most one runner task per (object, handler id) at any time, in every reachable state *)
Theorem C09_single_instance : forall spoll tr s id ser1 ser2,
  run spoll init tr = Some s -> In (id, ser1) (o_live s) -> In (id, ser2) (o_live s) -> ser1 = ser2.
Proof. exact single_instance. Qed.
Print Assumptions C09_single_instance.

(* started when the object appears / starts matching (not marked for deletion, operator not paused, never exited on its own) *)
Theorem C09_spawn_on_match : forall spoll s v now orc s' id h,
  step spoll s (LProc false v now orc) = Some s' -> v_deleting v = false -> v_paused v = false ->
  In (id, h) (v_matching v) -> ~ In id (o_forever s) -> In id (keys (o_running s')).
Proof. exact spawn_on_match. Qed.
Print Assumptions C09_spawn_on_match.

(* asked to stop when marked for deletion (any event type, also a DELETED event that still shows the deletionTimestamp) *)
Theorem C09_stop_on_deletion_mark : forall spoll s del v now orc s' id i,
  step spoll s (LProc del v now orc) = Some s' -> v_deleting v = true ->
  lookup id (o_running s') = Some i -> is_set (i_sp i) (Some RDeleted) = true.
Proof. exact stop_on_deletion_mark. Qed.
Print Assumptions C09_stop_on_deletion_mark.

Theorem C09_stop_on_mismatch : forall spoll s v now orc s' id i,
  step spoll s (LProc false v now orc) = Some s' -> v_deleting v = false -> v_paused v = false ->
  ~ In id (keys (v_matching v)) -> lookup id (o_running s') = Some i -> is_set (i_sp i) (Some RMismatch) = true.
Proof. exact stop_on_mismatch. Qed.
Print Assumptions C09_stop_on_mismatch.

Theorem C09_stop_on_pause : forall spoll s v now orc s' id i,
  step spoll s (LProc false v now orc) = Some s' -> v_deleting v = false -> v_paused v = true ->
  lookup id (o_running s') = Some i -> is_set (i_sp i) (Some RPausing) = true.
Proof. exact stop_on_pause. Qed.
Print Assumptions C09_stop_on_pause.

(* staged termination (stop_daemons), for every configuration, age and oracle:
   flag first; cancellation only at backoff <= age < backoff+timeout with a timeout configured; abandonment only at
   age >= backoff+timeout with a timeout configured; otherwise a positive delay up to the next boundary (or polling) *)
Theorem C09_staged_flag_first : forall h spoll now why sp done0 ex,
  is_set (r_sp (stage h spoll now why sp done0 ex)) (Some why) = true.
Proof. exact stage_sets_reason. Qed.
Print Assumptions C09_staged_flag_first.

Theorem C09_staged_cancel : forall h spoll now why sp done0 ex,
  (r_cancel (stage h spoll now why sp done0 ex) = true \/ In ACancel (r_acts (stage h spoll now why sp done0 ex))) ->
  exists t, eff_timeout h = Some t /\ age_of now sp < t + oz (eff_backoff h) /\ (forall b, eff_backoff h = Some b -> b <= age_of now sp).
Proof. exact stage_cancel_only_after_backoff. Qed.
Print Assumptions C09_staged_cancel.

Theorem C09_staged_abandon : forall h spoll now why sp done0 ex,
  why <> RAbandoned -> In (ASet RAbandoned) (r_acts (stage h spoll now why sp done0 ex)) ->
  exists t, eff_timeout h = Some t /\ t + oz (eff_backoff h) <= age_of now sp /\ (forall b, eff_backoff h = Some b -> b <= age_of now sp).
Proof. exact stage_abandon_only_after_timeout. Qed.
Print Assumptions C09_staged_abandon.

Theorem C09_staged_delays : forall h spoll now why sp done0 ex,
  r_done (stage h spoll now why sp done0 ex) = false ->
  match stage_of (eff_backoff h) (eff_timeout h) (age_of now sp) with
  | SSignal => r_delays (stage h spoll now why sp done0 ex) = [oz (eff_backoff h) - age_of now sp] /\ 0 < oz (eff_backoff h) - age_of now sp
  | SCancel => r_delays (stage h spoll now why sp done0 ex) = [oz (eff_timeout h) + oz (eff_backoff h) - age_of now sp]
               /\ 0 < oz (eff_timeout h) + oz (eff_backoff h) - age_of now sp
  | SAbandon => r_delays (stage h spoll now why sp done0 ex) = [] /\ is_set (r_sp (stage h spoll now why sp done0 ex)) (Some RAbandoned) = true
  | SPoll => r_delays (stage h spoll now why sp done0 ex) = [eff_polling h spoll]
  end.
Proof. exact stage_delays_until_done. Qed.
Print Assumptions C09_staged_delays.

(* following the returned delay leaves the signalling stage, then reaches abandonment, which is final: <= 3 cycles *)
Theorem C09_staged_progress : forall bo tmo age,
  (stage_of bo tmo age = SSignal -> stage_of bo tmo (age + (oz bo - age)) <> SSignal) /\
  (stage_of bo tmo age = SCancel -> stage_of bo tmo (age + (oz tmo + oz bo - age)) = SAbandon) /\
  (forall d, stage_of bo tmo age = SAbandon -> 0 <= d -> stage_of bo tmo (age + d) = SAbandon).
Proof. intros bo tmo age; split; [exact (stage_next_after_signal bo tmo age) | split; [exact (stage_next_after_cancel bo tmo age) | exact (fun d => stage_abandon_is_final bo tmo age d)]]. Qed.
Print Assumptions C09_staged_progress.

(* the linear procedure of the daemon killer (pause / exit): flag first, cancel exactly after the backoff and only with a
   timeout, never leaves a running daemon un-abandoned, and ALWAYS returns within backoff + timeout, for every reaction *)
Theorem C09_linear_staged : forall h why sp t0 done0 x,
  (exists tl, l_trace (linear_stop h why sp t0 done0 x) = (t0, ASet why) :: tl) /\
  is_set (l_sp (linear_stop h why sp t0 done0 x)) (Some why) = true /\
  (forall tc, l_cancelled (linear_stop h why sp t0 done0 x) = Some tc ->
     exists t, eff_timeout h = Some t /\ In (tc, ACancel) (l_trace (linear_stop h why sp t0 done0 x)) /\ t0 <= tc /\
               (forall b, eff_backoff h = Some b -> tc = t0 + Z.max 0 b)) /\
  (l_done (linear_stop h why sp t0 done0 x) = false -> is_set (l_sp (linear_stop h why sp t0 done0 x)) (Some RAbandoned) = true).
Proof.
  intros h why sp t0 done0 x.
  exact (conj (linear_flag_first h why sp t0 done0 x) (conj (linear_sets_reason h why sp t0 done0 x)
        (conj (linear_cancel_after_backoff h why sp t0 done0 x) (linear_done_or_abandoned h why sp t0 done0 x)))).
Qed.
Print Assumptions C09_linear_staged.

Theorem C09_linear_stop_bounded : forall h why sp t0 done0 x,
  t0 <= l_end (linear_stop h why sp t0 done0 x) <= t0 + Z.max 0 (oz (eff_backoff h)) + Z.max 0 (oz (eff_timeout h)).
Proof. exact linear_bounded. Qed.
Print Assumptions C09_linear_stop_bounded.

(* an instance that ends while its flag never got a reason is remembered, and is never started again in any continuation *)
Theorem C09_own_exit_is_remembered : forall spoll s id ser s' i,
  lookup id (o_running s) = Some i -> sp_reason (i_sp i) = None ->
  step spoll s (LEnd id ser) = Some s' -> In id (o_forever s') /\ ~ In id (keys (o_running s')).
Proof. exact own_exit_is_remembered. Qed.
Print Assumptions C09_own_exit_is_remembered.

Theorem C09_no_restart_after_own_exit : forall spoll tr s s' id,
  run spoll s tr = Some s' -> In id (o_forever s) -> ~ In id (keys (o_running s)) ->
  In id (o_forever s') /\ ~ In id (keys (o_running s')).
Proof. exact no_restart_after_own_exit. Qed.
Print Assumptions C09_no_restart_after_own_exit.

(* a stopping instance is not respawned before it has fully ended; the runner's `del daemons[id]` always finds itself *)
Theorem C09_no_respawn_before_end : forall spoll tr s l s' id ser ser',
  run spoll init tr = Some s -> step spoll s l = Some s' ->
  In (id, ser) (o_live s) -> In (id, ser') (o_live s') -> ser' <> ser -> ~ In (id, ser) (o_live s').
Proof. exact no_respawn_before_end. Qed.
Print Assumptions C09_no_respawn_before_end.

Theorem C09_runner_never_keyerror : forall spoll tr s id ser,
  run spoll init tr = Some s -> In (id, ser) (o_live s) ->
  exists i, lookup id (o_running s) = Some i /\ i_ser i = ser /\ finish id s <> None.
Proof. exact runner_finds_itself. Qed.
Print Assumptions C09_runner_never_keyerror.

(* "stopping never stalls", timer part, FULL statement (true of the faithful model since fix ba077d7, finding F1 = fixed): once
   its stopper is set, every timer — interval / idle / both / neither, sharp or not, whatever the idle-reset time — leaves its
   loop from every program point after at most one further, non-suspending sleep() call *)
Theorem C09_stop_terminates : forall c ra p fuel, (4 <= fuel)%nat ->
  exists n, timer_tail true c ra fuel p = Some n /\ (n <= 1)%nat.
Proof. exact timer_tail_terminates. Qed.
Print Assumptions C09_stop_terminates.

(* HYPOTHETICAL VARIANT (not the code): the idle-only loop WITHOUT the stopper test, as before ba077d7, would spin for ever.
   This is what a revert of the fix re-introduces; the D:timer tie and the stall monitor turn it into a VIOLATION. *)
Theorem C09_unguarded_loop_would_spin : exists c p, forall fuel, timer_tail false c false fuel p = None.
Proof. exact unguarded_loop_would_spin. Qed.
Print Assumptions C09_unguarded_loop_would_spin.

(* "asked to stop when the object disappears": FALSE of the faithful model (finding F7) — DELETED without deletionTimestamp *)
Theorem C09_stop_on_disappear_refuted :
  exists tr s, run 1000 init (tr ++ [LProc true v_live 0 []]) = Some s /\ orphan s 0 0 /\ In (0%nat, 0%nat) (o_live s).
Proof. exact stop_on_disappear_refuted. Qed.
Print Assumptions C09_stop_on_disappear_refuted.

(* ... and such an orphan is never asked to stop by anything the operator does later (events, pause, exit) *)
Theorem C09_orphan_never_stopped : forall spoll tr s s' id ser, orphan s id ser -> run spoll s tr = Some s' ->
  forall i, lookup id (o_running s') = Some i -> i_ser i = ser /\ sp_reason (i_sp i) = None.
Proof. exact orphan_never_stopped. Qed.
Print Assumptions C09_orphan_never_stopped.

(* ... true whenever the DELETED event still shows the deletionTimestamp (graceful deletion, or forced finalizer removal
   AFTER the deletion was requested) *)
Theorem C09_stop_on_disappear_partial : forall spoll s v now orc s' id i,
  step spoll s (LProc true v now orc) = Some s' -> v_deleting v = true ->
  lookup id (o_running s') = Some i -> is_set (i_sp i) (Some RDeleted) = true.
Proof. exact (fun spoll s => stop_on_deletion_mark spoll s true). Qed.
Print Assumptions C09_stop_on_disappear_partial.

(* "cancellation after the backoff, abandonment after the timeout ... when the object disappears": FALSE of the faithful model
   (finding F702).  Forced removal while the daemons are being stopped: the DELETED event (here WITH deletionTimestamp) is the
   last cycle; the flag is set, stop_daemons asks for a next check (o_delays = [500]) which never comes
   (process_resource_event applies no delays on DELETED), and the memory is forgotten: the instance is `stranded`. *)
Theorem C09_stop_on_forced_removal_refuted :
  exists s i, run 1000 init forced_removal_trace = Some s /\ stranded s 0 0 i /\ In (0%nat, 0%nat) (o_live s) /\
    is_set (i_sp i) (Some RDeleted) = true /\ eff_backoff (i_h i) = Some 1000 /\ eff_timeout (i_h i) = Some 2000 /\
    o_delays s = [500] /\
    i_canc i = false /\ is_set (i_sp i) (Some RCancelled) = false /\ is_set (i_sp i) (Some RAbandoned) = false.
Proof. exact stop_on_forced_removal_refuted. Qed.
Print Assumptions C09_stop_on_forced_removal_refuted.

(* ... and for EVERY continuation (no event of that uid can come; pause, resume, exit and every killer sweep included) a
   stranded instance stays exactly as it was: never cancelled, never abandoned, not reached by the killer.  The orphans of F7
   (C09_orphan_never_stopped) are the stranded instances whose flag was not even set. *)
Theorem C09_stranded_never_touched : forall spoll tr s s' id ser i, stranded s id ser i -> run spoll s tr = Some s' ->
  forall i', lookup id (o_running s') = Some i' -> i' = i.
Proof. exact stranded_never_touched. Qed.
Print Assumptions C09_stranded_never_touched.

Theorem C09_orphan_is_stranded : forall s id ser, orphan s id ser -> exists i, stranded s id ser i /\ sp_reason (i_sp i) = None.
Proof. exact orphan_is_stranded. Qed.
Print Assumptions C09_orphan_is_stranded.

(* ... TRUE whenever the cycles continue (the object is still there to be touched after the returned delay): a flagged,
   still running daemon IS cancelled by the cycle that falls into the cancellation stage and IS given up by the one that falls
   into the abandonment stage (with C09_staged_delays / C09_staged_progress: the returned delays land exactly there) *)
Theorem C09_stop_on_forced_removal_partial : forall h spoll now why sp ex,
  is_set sp (Some why) = true ->
  (stage_of (eff_backoff h) (eff_timeout h) (age_of now sp) = SCancel -> is_set sp (Some RCancelled) = false ->
     r_cancel (stage h spoll now why sp false ex) = true /\ is_set (r_sp (stage h spoll now why sp false ex)) (Some RCancelled) = true) /\
  (stage_of (eff_backoff h) (eff_timeout h) (age_of now sp) = SAbandon ->
     is_set (r_sp (stage h spoll now why sp false ex)) (Some RAbandoned) = true /\ r_delays (stage h spoll now why sp false ex) = []).
Proof.
  intros h spoll now why sp ex Hw.
  exact (conj (stage_cancels_when_due h spoll now why sp ex Hw) (stage_abandons_when_due h spoll now why sp ex Hw)).
Qed.
Print Assumptions C09_stop_on_forced_removal_partial.
