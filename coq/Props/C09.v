(* C09 — daemon/timer life-cycle.  Only statements here; proofs in Proofs/Daemons.v, model in Model/Daemons.v.
   ∀ = unbounded: every label history of the per-object LTS (events with any view/time/oracle, task ends, killer steps),
   every handler configuration (backoff/timeout/polling in Z or None), every age of the stop flag, every oracle.

   CLAUSE AUDIT (statement and quantifier of C09 in properties.jsonl)
   ----------------------------------------------------------------------------------------------------------------------
   clause                                              | stated by                                              | status
   ----------------------------------------------------+--------------------------------------------------------+---------
   1 at most one instance per (object, handler)        | C09_single_instance, C09_runner_never_keyerror         | full
   2 started when the object appears / starts matching | C09_spawn_on_match; must-not: C09_matching_untouched   | full
   3 asked to stop: flag first, cancel after backoff,  |                                                        |
     abandon after timeout ...                         |                                                        |
     - stages not early, in order (multi-cycle)        | C09_staged_flag_first/_cancel/_abandon/_delays         | full
     - stages DO happen when the cycles continue       | C09_staged_completion (<= 3 cycles, any reaction),     | full
                                                       | C09_staged_without_timeout (documented polling),       |
                                                       | C09_staged_progress, C09_stop_on_forced_removal_partial|
     - (a) when marked for deletion                    | C09_stop_on_deletion_mark                              | full
     - (b) when the object disappears                  | C09_stop_on_disappear_refuted/_partial +               | F7
                                                       |   C09_orphan_never_stopped                             |
                                                       | C09_stop_on_forced_removal_refuted/_partial +          | F702
                                                       |   C09_stranded_never_touched, C09_orphan_is_stranded   |
     - (c) when it stops matching                      | C09_stop_on_mismatch (paused or not)                   | full
     - (d) when the operator pauses                    | events: C09_stop_on_pause; killer: C09_killer_pass_    | full for a
     - (e) when the operator exits                     |   reaches_all (+ _needs_known), C09_linear_staged,     | pass; the
                                                       |   C09_linear_stop_bounded                              | 1 s period
                                                       |                                                        | and "a pass
                                                       |                                                        | happens" are
                                                       |                                                        | monitored
                                                       |                                                        | (not-stopped-
                                                       |                                                        | on-pause/exit,
                                                       |                                                        | killer-skipped)
   4 own exit is not restarted                         | C09_own_exit_is_remembered, C09_no_restart_after_..    | full
   5 stopping instance not respawned before it ended   | C09_no_respawn_before_end                              | full
   6 stopping never stalls ...                         | timers: C09_stop_terminates (+ hypothetical            | full for the
                                                       |   C09_unguarded_loop_would_spin, F1 fixed);            | loops modelled
                                                       | daemons: C09_daemon_stop_terminates;                   |
                                                       | killer: C09_linear_stop_bounded; stop_daemons: total   |
     ... or crashes the operator                       | C09_runner_never_keyerror (the only raise in the       | partial: other
                                                       |   modelled code); killer iteration (F901 fixed) and    | exceptions are
                                                       |   everything else: monitors crash / killer-crash       | monitored only
   quantifier: histories, #handlers, reactions,        | label lists / oracles / Z parameters, all universally  | full; sync
     backoff/timeout, timer configs, timings           |   quantified; timer configs: forall tcfg               | (threaded)
                                                       |                                                        | daemons: not
                                                       |                                                        | covered
   ---------------------------------------------------------------------------------------------------------------------- *)
From Coq Require Import ZArith List Bool.
From KV Require Import Model.Daemons Proofs.Daemons.
Import ListNotations.
Open Scope Z_scope.

(* at most one runner task per (object, handler id) at any time, in every reachable state *)
Theorem C09_single_instance : forall spoll tr s id ser1 ser2,
  run spoll init tr = Some s -> In (id, ser1) (o_live s) -> In (id, ser2) (o_live s) -> ser1 = ser2.
Proof. exact single_instance. Qed.
Print Assumptions C09_single_instance.

(* started when the object appears / starts matching (not marked for deletion, operator not paused, never exited on its own) *)
Theorem C09_spawn_on_match : forall spoll s v now orc s' id h,
  step spoll s (LProc false v now orc) = Some s' -> v_deleting v = false -> v_paused v = false ->
  In (id, h) (v_matching v) -> ~ In id (o_forever s) -> In id (keys (o_running s')).
Proof. exact spawn_on_match. Qed.
Print Assumptions C09_spawn_on_match.

(* asked to stop when marked for deletion (any event type, also a DELETED event that still shows the deletionTimestamp) *)
Theorem C09_stop_on_deletion_mark : forall spoll s del v now orc s' id i,
  step spoll s (LProc del v now orc) = Some s' -> v_deleting v = true ->
  lookup id (o_running s') = Some i -> is_set (i_sp i) (Some RDeleted) = true.
Proof. exact stop_on_deletion_mark. Qed.
Print Assumptions C09_stop_on_deletion_mark.

(* (paused or not: the reason set by match_daemons survives pause_daemons) *)
Theorem C09_stop_on_mismatch : forall spoll s v now orc s' id i,
  step spoll s (LProc false v now orc) = Some s' -> v_deleting v = false ->
  ~ In id (keys (v_matching v)) -> lookup id (o_running s') = Some i -> is_set (i_sp i) (Some RMismatch) = true.
Proof. exact stop_on_mismatch_any. Qed.
Print Assumptions C09_stop_on_mismatch.

Theorem C09_stop_on_pause : forall spoll s v now orc s' id i,
  step spoll s (LProc false v now orc) = Some s' -> v_deleting v = false -> v_paused v = true ->
  lookup id (o_running s') = Some i -> is_set (i_sp i) (Some RPausing) = true.
Proof. exact stop_on_pause. Qed.
Print Assumptions C09_stop_on_pause.

(* staged termination (stop_daemons), for every configuration, age and oracle:
   flag first; cancellation only at backoff <= age < backoff+timeout with a timeout configured; abandonment only at
   age >= backoff+timeout with a timeout configured; otherwise a positive delay up to the next boundary (or polling) *)
Theorem C09_staged_flag_first : forall h spoll now why sp done0 ex,
  is_set (r_sp (stage h spoll now why sp done0 ex)) (Some why) = true.
Proof. exact stage_sets_reason. Qed.
Print Assumptions C09_staged_flag_first.

Theorem C09_staged_cancel : forall h spoll now why sp done0 ex,
  (r_cancel (stage h spoll now why sp done0 ex) = true \/ In ACancel (r_acts (stage h spoll now why sp done0 ex))) ->
  exists t, eff_timeout h = Some t /\ age_of now sp < t + oz (eff_backoff h) /\ (forall b, eff_backoff h = Some b -> b <= age_of now sp).
Proof. exact stage_cancel_only_after_backoff. Qed.
Print Assumptions C09_staged_cancel.

Theorem C09_staged_abandon : forall h spoll now why sp done0 ex,
  why <> RAbandoned -> In (ASet RAbandoned) (r_acts (stage h spoll now why sp done0 ex)) ->
  exists t, eff_timeout h = Some t /\ t + oz (eff_backoff h) <= age_of now sp /\ (forall b, eff_backoff h = Some b -> b <= age_of now sp).
Proof. exact stage_abandon_only_after_timeout. Qed.
Print Assumptions C09_staged_abandon.

Theorem C09_staged_delays : forall h spoll now why sp done0 ex,
  r_done (stage h spoll now why sp done0 ex) = false ->
  match stage_of (eff_backoff h) (eff_timeout h) (age_of now sp) with
  | SSignal => r_delays (stage h spoll now why sp done0 ex) = [oz (eff_backoff h) - age_of now sp] /\ 0 < oz (eff_backoff h) - age_of now sp
  | SCancel => r_delays (stage h spoll now why sp done0 ex) = [oz (eff_timeout h) + oz (eff_backoff h) - age_of now sp]
               /\ 0 < oz (eff_timeout h) + oz (eff_backoff h) - age_of now sp
  | SAbandon => r_delays (stage h spoll now why sp done0 ex) = [] /\ is_set (r_sp (stage h spoll now why sp done0 ex)) (Some RAbandoned) = true
  | SPoll => r_delays (stage h spoll now why sp done0 ex) = [eff_polling h spoll]
  end.
Proof. exact stage_delays_until_done. Qed.
Print Assumptions C09_staged_delays.

(* following the returned delay leaves the signalling stage, then reaches abandonment, which is final: <= 3 cycles *)
Theorem C09_staged_progress : forall bo tmo age,
  (stage_of bo tmo age = SSignal -> stage_of bo tmo (age + (oz bo - age)) <> SSignal) /\
  (stage_of bo tmo age = SCancel -> stage_of bo tmo (age + (oz tmo + oz bo - age)) = SAbandon) /\
  (forall d, stage_of bo tmo age = SAbandon -> 0 <= d -> stage_of bo tmo (age + d) = SAbandon).
Proof. intros bo tmo age; split; [exact (stage_next_after_signal bo tmo age) | split; [exact (stage_next_after_cancel bo tmo age) | exact (fun d => stage_abandon_is_final bo tmo age d)]]. Qed.
Print Assumptions C09_staged_progress.

(* the linear procedure of the daemon killer (pause / exit): flag first, cancel exactly after the backoff and only with a
   timeout, never leaves a running daemon un-abandoned, and ALWAYS returns within backoff + timeout, for every reaction *)
Theorem C09_linear_staged : forall h why sp t0 done0 x,
  (exists tl, l_trace (linear_stop h why sp t0 done0 x) = (t0, ASet why) :: tl) /\
  is_set (l_sp (linear_stop h why sp t0 done0 x)) (Some why) = true /\
  (forall tc, l_cancelled (linear_stop h why sp t0 done0 x) = Some tc ->
     exists t, eff_timeout h = Some t /\ In (tc, ACancel) (l_trace (linear_stop h why sp t0 done0 x)) /\ t0 <= tc /\
               (forall b, eff_backoff h = Some b -> tc = t0 + Z.max 0 b)) /\
  (l_done (linear_stop h why sp t0 done0 x) = false -> is_set (l_sp (linear_stop h why sp t0 done0 x)) (Some RAbandoned) = true).
Proof.
  intros h why sp t0 done0 x.
  exact (conj (linear_flag_first h why sp t0 done0 x) (conj (linear_sets_reason h why sp t0 done0 x)
        (conj (linear_cancel_after_backoff h why sp t0 done0 x) (linear_done_or_abandoned h why sp t0 done0 x)))).
Qed.
Print Assumptions C09_linear_staged.

Theorem C09_linear_stop_bounded : forall h why sp t0 done0 x,
  t0 <= l_end (linear_stop h why sp t0 done0 x) <= t0 + Z.max 0 (oz (eff_backoff h)) + Z.max 0 (oz (eff_timeout h)).
Proof. exact linear_bounded. Qed.
Print Assumptions C09_linear_stop_bounded.

(* an instance that ends while its flag never got a reason is remembered, and is never started again in any continuation *)
Theorem C09_own_exit_is_remembered : forall spoll s id ser s' i,
  lookup id (o_running s) = Some i -> sp_reason (i_sp i) = None ->
  step spoll s (LEnd id ser) = Some s' -> In id (o_forever s') /\ ~ In id (keys (o_running s')).
Proof. exact own_exit_is_remembered. Qed.
Print Assumptions C09_own_exit_is_remembered.

Theorem C09_no_restart_after_own_exit : forall spoll tr s s' id,
  run spoll s tr = Some s' -> In id (o_forever s) -> ~ In id (keys (o_running s)) ->
  In id (o_forever s') /\ ~ In id (keys (o_running s')).
Proof. exact no_restart_after_own_exit. Qed.
Print Assumptions C09_no_restart_after_own_exit.

(* a stopping instance is not respawned before it has fully ended; the runner's `del daemons[id]` always finds itself *)
Theorem C09_no_respawn_before_end : forall spoll tr s l s' id ser ser',
  run spoll init tr = Some s -> step spoll s l = Some s' ->
  In (id, ser) (o_live s) -> In (id, ser') (o_live s') -> ser' <> ser -> ~ In (id, ser) (o_live s').
Proof. exact no_respawn_before_end. Qed.
Print Assumptions C09_no_respawn_before_end.

Theorem C09_runner_never_keyerror : forall spoll tr s id ser,
  run spoll init tr = Some s -> In (id, ser) (o_live s) ->
  exists i, lookup id (o_running s) = Some i /\ i_ser i = ser /\ finish id s <> None.
Proof. exact runner_finds_itself. Qed.
Print Assumptions C09_runner_never_keyerror.

(* "stopping never stalls", timer part, FULL statement (true of the faithful model since fix ba077d7, finding F1 = fixed): once
   its stopper is set, every timer — interval / idle / both / neither, sharp or not, whatever the idle-reset time — leaves its
   loop from every program point after at most one further, non-suspending sleep() call *)
Theorem C09_stop_terminates : forall c ra p fuel, (4 <= fuel)%nat ->
  exists n, timer_tail true c ra fuel p = Some n /\ (n <= 1)%nat.
Proof. exact timer_tail_terminates. Qed.
Print Assumptions C09_stop_terminates.

(* HYPOTHETICAL VARIANT (not the code): the idle-only loop WITHOUT the stopper test, as before ba077d7, would spin for ever.
   This is what a revert of the fix re-introduces; the D:timer tie and the stall monitor turn it into a VIOLATION. *)
Theorem C09_unguarded_loop_would_spin : exists c p, forall fuel, timer_tail false c false fuel p = None.
Proof. exact unguarded_loop_would_spin. Qed.
Print Assumptions C09_unguarded_loop_would_spin.

(* "asked to stop when the object disappears": FALSE of the faithful model (finding F7) — DELETED without deletionTimestamp *)
Theorem C09_stop_on_disappear_refuted :
  exists tr s, run 1000 init (tr ++ [LProc true v_live 0 []]) = Some s /\ orphan s 0 0 /\ In (0%nat, 0%nat) (o_live s).
Proof. exact stop_on_disappear_refuted. Qed.
Print Assumptions C09_stop_on_disappear_refuted.

(* ... and such an orphan is never asked to stop by anything the operator does later (events, pause, exit) *)
Theorem C09_orphan_never_stopped : forall spoll tr s s' id ser, orphan s id ser -> run spoll s tr = Some s' ->
  forall i, lookup id (o_running s') = Some i -> i_ser i = ser /\ sp_reason (i_sp i) = None.
Proof. exact orphan_never_stopped. Qed.
Print Assumptions C09_orphan_never_stopped.

(* ... true whenever the DELETED event still shows the deletionTimestamp (graceful deletion, or forced finalizer removal
   AFTER the deletion was requested) *)
Theorem C09_stop_on_disappear_partial : forall spoll s v now orc s' id i,
  step spoll s (LProc true v now orc) = Some s' -> v_deleting v = true ->
  lookup id (o_running s') = Some i -> is_set (i_sp i) (Some RDeleted) = true.
Proof. exact (fun spoll s => stop_on_deletion_mark spoll s true). Qed.
Print Assumptions C09_stop_on_disappear_partial.

(* "cancellation after the backoff, abandonment after the timeout ... when the object disappears": FALSE of the faithful model
   (finding F702).  Forced removal while the daemons are being stopped: the DELETED event (here WITH deletionTimestamp) is the
   last cycle; the flag is set, stop_daemons asks for a next check (o_delays = [500]) which never comes
   (process_resource_event applies no delays on DELETED), and the memory is forgotten: the instance is `stranded`. *)
Theorem C09_stop_on_forced_removal_refuted :
  exists s i, run 1000 init forced_removal_trace = Some s /\ stranded s 0 0 i /\ In (0%nat, 0%nat) (o_live s) /\
    is_set (i_sp i) (Some RDeleted) = true /\ eff_backoff (i_h i) = Some 1000 /\ eff_timeout (i_h i) = Some 2000 /\
    o_delays s = [500] /\
    i_canc i = false /\ is_set (i_sp i) (Some RCancelled) = false /\ is_set (i_sp i) (Some RAbandoned) = false.
Proof. exact stop_on_forced_removal_refuted. Qed.
Print Assumptions C09_stop_on_forced_removal_refuted.

(* ... and for EVERY continuation (no event of that uid can come; pause, resume, exit and every killer sweep included) a
   stranded instance stays exactly as it was: never cancelled, never abandoned, not reached by the killer.  The orphans of F7
   (C09_orphan_never_stopped) are the stranded instances whose flag was not even set. *)
Theorem C09_stranded_never_touched : forall spoll tr s s' id ser i, stranded s id ser i -> run spoll s tr = Some s' ->
  forall i', lookup id (o_running s') = Some i' -> i' = i.
Proof. exact stranded_never_touched. Qed.
Print Assumptions C09_stranded_never_touched.

Theorem C09_orphan_is_stranded : forall s id ser, orphan s id ser -> exists i, stranded s id ser i /\ sp_reason (i_sp i) = None.
Proof. exact orphan_is_stranded. Qed.
Print Assumptions C09_orphan_is_stranded.

(* ... TRUE whenever the cycles continue (the object is still there to be touched after the returned delay): a flagged,
   still running daemon IS cancelled by the cycle that falls into the cancellation stage and IS given up by the one that falls
   into the abandonment stage (with C09_staged_delays / C09_staged_progress: the returned delays land exactly there) *)
Theorem C09_stop_on_forced_removal_partial : forall h spoll now why sp ex,
  is_set sp (Some why) = true ->
  (stage_of (eff_backoff h) (eff_timeout h) (age_of now sp) = SCancel -> is_set sp (Some RCancelled) = false ->
     r_cancel (stage h spoll now why sp false ex) = true /\ is_set (r_sp (stage h spoll now why sp false ex)) (Some RCancelled) = true) /\
  (stage_of (eff_backoff h) (eff_timeout h) (age_of now sp) = SAbandon ->
     is_set (r_sp (stage h spoll now why sp false ex)) (Some RAbandoned) = true /\ r_delays (stage h spoll now why sp false ex) = []).
Proof.
  intros h spoll now why sp ex Hw.
  exact (conj (stage_cancels_when_due h spoll now why sp ex Hw) (stage_abandons_when_due h spoll now why sp ex Hw)).
Qed.
Print Assumptions C09_stop_on_forced_removal_partial.

(* ---- deepening round *)

(* the staged stop DOES happen when the cycles continue: with a cancellation timeout configured, following the delays the
   operator returns settles every daemon (ended, or cancelled and finally given up) within three cycles, whatever it does *)
Theorem C09_staged_completion : forall h spoll now why sp ex1 ex2 ex3 t, wf_sp sp -> eff_timeout h = Some t ->
  let r1 := stage h spoll now why sp false ex1 in
  settled r1 \/ exists d1, 0 < d1 /\ r_delays r1 = [d1] /\
    let r2 := stage h spoll (now + d1) why (r_sp r1) false ex2 in
    settled r2 \/ exists d2, 0 < d2 /\ r_delays r2 = [d2] /\ settled (stage h spoll (now + d1 + d2) why (r_sp r2) false ex3).
Proof. exact stage_completion. Qed.
Print Assumptions C09_staged_completion.

(* without a cancellation timeout: never cancelled (hence never abandoned), re-checked at the backoff and then every polling period *)
Theorem C09_staged_without_timeout : forall h spoll now why sp ex, eff_timeout h = None ->
  let r := stage h spoll now why sp false ex in
  r_cancel r = false /\ (r_done r = false -> match eff_backoff h with
                                              | Some b => if age_of now sp <? b then r_delays r = [b - age_of now sp] else r_delays r = [eff_polling h spoll]
                                              | None => r_delays r = [eff_polling h spoll] end).
Proof. exact stage_without_timeout_polls. Qed.
Print Assumptions C09_staged_without_timeout.

(* pause / exit: in every reachable state, one pass of the killer over a memory it can still see is a behaviour of the LTS and
   leaves EVERY daemon of that memory with the reason on its flag; it neither adds nor removes instances, nor touches
   forever_stopped.  A forgotten memory gets no pass at all. *)
Theorem C09_killer_pass_reaches_all : forall spoll tr s why now, run spoll init tr = Some s -> o_known s = true -> kreason why = true ->
  exists s', run spoll s (kpass_labels why now s) = Some s' /\
    (forall id i, lookup id (o_running s') = Some i -> is_set (i_sp i) (Some why) = true) /\
    (forall id, lookup id (o_running s') = None <-> lookup id (o_running s) = None) /\ o_forever s' = o_forever s.
Proof. exact killer_pass_reaches_all. Qed.
Print Assumptions C09_killer_pass_reaches_all.

Theorem C09_killer_pass_needs_known : forall spoll s why now, o_known s = false -> run spoll s (kpass_labels why now s) = None.
Proof. exact killer_pass_needs_known. Qed.
Print Assumptions C09_killer_pass_needs_known.

(* what an event must NOT do: a running instance whose handler still matches is left exactly as it is *)
Theorem C09_matching_untouched : forall spoll s v now orc s' id h i,
  step spoll s (LProc false v now orc) = Some s' -> v_deleting v = false -> v_paused v = false ->
  In (id, h) (v_matching v) -> ~ In id (o_forever s) -> lookup id (o_running s) = Some i -> lookup id (o_running s') = Some i.
Proof. exact matching_untouched. Qed.
Print Assumptions C09_matching_untouched.

(* _daemon's loop once the stopper is set: leaves after at most one further, non-suspending sleep(), from every program point *)
Theorem C09_daemon_stop_terminates : forall p fuel, (3 <= fuel)%nat -> exists n, daemon_tail fuel p = Some n /\ (n <= 1)%nat.
Proof. exact daemon_tail_terminates. Qed.
Print Assumptions C09_daemon_stop_terminates.
