From Coq Require Import ZArith List Bool.
From KV Require Import Model.Daemons Proofs.Daemons.
Theorem C09_placeholder : True. Proof. exact placeholder_true. Qed.
Print Assumptions C09_placeholder.
