(* C06 — the finalizer is never released early, always released eventually.
   Only statements here; model in Model/Finalizers.v (list edits, decision points, life-cycle LTS) and
   Model/FinalizersDaemon.v (staged stop of a daemon, the LTS with a clock); proofs in Proofs/Finalizers.v,
   Proofs/FinalizersLts.v, Proofs/FinalizersQuiet.v, Proofs/FinalizersDaemon.v.
   Quantification: JSON bodies, fn lists, handler lists with their filter oracles, delays, times, stoppers, label
   sequences and the oracles inside the labels are unbounded.

   CLAUSE AUDIT (statement + quantifier of properties.jsonl)
   -----------------------------------------------------------------------------------------------------------------
   clause                                              | how it is covered
   -----------------------------------------------------------------------------------------------------------------
   A  while a matching mandatory deletion handler has  | FALSE of the faithful model as stated:
      not finished the finalizer stays, under every    |   C06_not_released_early_refuted          (finding F8: shared id)
      interleaving of events, retries, 422s, restarts  |   C06_not_released_early_calm_needed      (finding F601: carried release)
                                                       | strongest true statement, all label sequences:
                                                       |   C06_not_released_early_steady  (ids unshared; label/spec edits may
                                                       |     happen whenever they keep the filters' verdicts or the operator is
                                                       |     quiescent for the object - exactly what F601 needs is excluded)
                                                       |   C06_not_released_early_partial (older, stronger guard: no edits)
                                                       | one pass, no guard at all: C06_release_only_if
   B  ... or a matching daemon/timer that has neither  | C06_daemon_abandoned_after_timeouts (ALL timed histories: abandoned =>
      exited nor been abandoned after its timeouts     |   timeout configured, declared >= backoff+timeout after the stop was
                                                       |   requested; cancelled only after the backoff),
                                                       | C06_not_released_early_daemon (timed, calm+unshared: at a release D has
                                                       |   no task or was abandoned after its timeouts),
                                                       | C06_not_released_early_steady (a daemon still running at a release does
                                                       |   not match), one call: C06_daemon_stop_abandoned/_cancelled/_holds
   C  once all of them are finished it is removed so   | C06_released_eventually, C06_released_eventually_stop (enabledness from
      that deletion proceeds                           |   EVERY state), C06_released_after_timeouts (with the clock: after
                                                       |   backoff+timeout whatever the task does), C06_daemon_stop_exhausted,
                                                       |   one pass: C06_release_when_finished.  Fairness (the cycle does run,
                                                       |   nobody interferes forever) is the history level's (C03) - not here.
   D  it is added/removed when handlers start/stop     | C06_added_removed_on_matching, C06_requires_iff (match for spawning
      requiring (matching) the object                  |   handlers minus forever_stopped, prematch for changing handlers),
                                                       |   C06_never_added_while_deleting, C06_dedicated_pass;
      ("requires" = exists a matching mandatory deletion     |   C06_requires_order_independent, C06_decision_order_independent,
      handler or a matching daemon/timer, in any order)   |   C06_requires_monotone (no handler can veto), C06_optional_first_nonvacuous;
                                                       |   request level: C06_add_request_while_deleting_refuted /
                                                       |   C06_add_while_deleting_partial (harmless: the server refuses)
   E  finalizers owned by others are never added,      | C06_foreign_untouched (all label sequences, all configurations),
      dropped or reordered                             |   C06_foreign_untouched_json, C06_block_effect, C06_allow_effect,
                                                       |   C06_edit_atomic, C06_lists_are_json_edits
   Q  quantifier: deletion requests (LDelete), label/  | all are labels of the LTS; handler failures are the oracle k_h_finishes =
      spec edits (LMatch), foreign finalizer edits     |   false / delays of the others; 422 = LJson on a moved resourceVersion;
      (LForeign), handler failures, 422s, restarts     |   restarts = LRestart.  Guarded only in clause A/B as said above.
   -----------------------------------------------------------------------------------------------------------------
   Not covered here: liveness under fairness (history level, C03); daemons other than by the staged stop of ONE followed
   daemon (the others are arbitrary oracles of the cycle label, so every theorem holds for each of them separately);
   OPERATOR_PAUSING/EXITING stops (C09). *)
From Coq Require Import ZArith List String Bool Ascii.
From KV Require Import Base.Json Base.Dicts Model.Finalizers Model.FinalizersDaemon Proofs.Finalizers Proofs.FinalizersLts
  Proofs.FinalizersQuiet Proofs.FinalizersDaemon.
Import ListNotations.
Open Scope string_scope.
Open Scope list_scope.

(* ---------- finalizers owned by others are never added, dropped or reordered ---------- *)

(* any sequence of the framework's transformation functions, on any body the API server can hold: no Python
   error, and the sub-list of the other owners' entries (arbitrary JSON values, duplicates included) is the same
   list afterwards *)
Theorem C06_foreign_untouched_json : forall fin fns body, fz_wellformed body = true ->
  exists b', fz_apply_fns fin fns body = Ok b' /\ fz_wellformed b' = true /\
             fz_foreign fin (fz_fins b') = fz_foreign fin (fz_fins body).
Proof. exact fz_apply_fns_spec. Qed.
Print Assumptions C06_foreign_untouched_json.

(* block_deletion: appends the own entry at the end iff it is absent; otherwise the body is returned as it is *)
Theorem C06_block_effect : forall fin body, fz_wellformed body = true ->
  exists b', fz_block fin body = Ok b' /\ fz_wellformed b' = true /\
    fz_foreign fin (fz_fins b') = fz_foreign fin (fz_fins body) /\
    existsb (fz_is_fin fin) (fz_fins b') = true /\
    (existsb (fz_is_fin fin) (fz_fins body) = true -> b' = body) /\
    (existsb (fz_is_fin fin) (fz_fins body) = false -> fz_fins b' = fz_fins body ++ [JStr fin]).
Proof. exact fz_block_spec. Qed.
Print Assumptions C06_block_effect.

(* allow_deletion: what remains is exactly the others' entries, in their order (all own duplicates go) *)
Theorem C06_allow_effect : forall fin body, fz_wellformed body = true ->
  exists b', fz_allow fin body = Ok b' /\ fz_wellformed b' = true /\
    fz_fins b' = fz_foreign fin (fz_fins body).
Proof. exact fz_allow_spec. Qed.
Print Assumptions C06_allow_effect.

(* through the conditional JSON-patch of patch_obj: either the whole edit, computed on the freshest body, lands on
   exactly the tested resourceVersion, or nothing does (and the fns are handed back) *)
Theorem C06_edit_atomic : forall fin fns orig mr server o, fz_patch_obj fin fns orig mr server = Ok o ->
  let fresh := match mr with Some b => if fz_truthy b then b else orig | None => orig end in
  match o with
  | PoNoRequest => True
  | PoLanded t after =>
      t = fz_rv fresh /\ ojeqb (fz_rv fresh) (fz_rv server) = true /\ fz_apply_fns fin fns fresh = Ok after
  | PoConflict t => t = fz_rv fresh
  end.
Proof. exact fz_patch_obj_atomic. Qed.
Print Assumptions C06_edit_atomic.

(* ---------- added / removed when handlers start / stop requiring the object ---------- *)

(* what "requiring" means: a daemon/timer that matches (match) and is not stopped forever, or a changing handler
   with requires_finalizer that pre-matches (prematch) *)
Theorem C06_requires_iff : forall a, fz_must a = true <->
  (exists hs h, a_spawn a = Some hs /\ In h hs /\ sh_excluded h = false /\ sh_reqfin h = true /\ sh_match h = true) \/
  (exists hs h, a_chg a = Some hs /\ In h hs /\ ch_reqfin h = true /\ ch_prematch h = true).
Proof. exact fz_must_iff. Qed.
Print Assumptions C06_requires_iff.

(* the finalizer is requested exactly when it is required, absent, and the object is not being deleted *)
Theorem C06_added_removed_on_matching : forall a,
  (In FBlock (o_fns (fz_decide a)) <-> (fz_must a = true /\ a_blocked a = false /\ a_ongoing a = false)) /\
  (fz_must a = false -> a_blocked a = true -> In FAllow (o_fns (fz_decide a))).
Proof. intros a; split; [exact (fz_block_iff a) | exact (fz_release_when_unneeded a)]. Qed.
Print Assumptions C06_added_removed_on_matching.

Theorem C06_never_added_while_deleting : forall a, a_ongoing a = true -> ~ In FBlock (o_fns (fz_decide a)).
Proof. exact fz_never_added_while_deleting. Qed.
Print Assumptions C06_never_added_while_deleting.

(* ---------- one pass: never released early, released when finished ---------- *)

(* a release is appended only if nobody requires the finalizer, or: the object is being deleted, still held, not
   yet gone, no daemon/handler reported a delay, and - if change handling applies to the object - the change
   handlers were consulted in this very pass on a consistent view with nothing carried over *)
Theorem C06_release_only_if : forall a, In FAllow (o_fns (fz_decide a)) ->
  (fz_must a = false /\ a_blocked a = true) \/
  (fz_must a = true /\ a_deleted a = false /\ a_ongoing a = true /\ a_blocked a = true /\
   o_delays (fz_decide a) = [] /\ a_sdelays a = [] /\
   (match a_chg a with Some hs => fz_chg_prematch hs | None => false end = true ->
      o_changing (fz_decide a) = true /\ a_cdelays a = [] /\ a_patch0_empty a = true /\
      (a_ctime a = CtNone \/ (a_ctime a = CtSome /\ a_timed_out a = true /\ a_low_empty a = true)))).
Proof. exact fz_allow_only_if. Qed.
Print Assumptions C06_release_only_if.

Theorem C06_release_when_finished : forall a,
  a_deleted a = false -> a_ongoing a = true -> a_blocked a = true ->
  a_sdelays a = [] -> a_cdelays a = [] -> a_patch0_empty a = true -> a_ctime a = CtNone ->
  In FAllow (o_fns (fz_decide a)).
Proof. exact fz_release_when_finished. Qed.
Print Assumptions C06_release_when_finished.

(* a pass that edits the finalizer for (non-)requirement reasons does not run the change handlers *)
Theorem C06_dedicated_pass : forall a, (In FBlock (o_fns (fz_decide a)) \/ fz_rem a = true) -> o_changing (fz_decide a) = false.
Proof. exact fz_dedicated_pass. Qed.
Print Assumptions C06_dedicated_pass.

(* ====================================================================================== *)
(* The life of one object's finalizer list: every interleaving of foreign finalizer edits, label/spec edits
   (LMatch), deletion requests, event deliveries, processing cycles with arbitrary oracles (other handlers'
   requirements and delays, consistency, handler outcomes), the two requests of patch_obj with 422s in between,
   daemon exits/abandonment and operator restarts.  One mandatory deletion handler H and one daemon D are followed;
   all others are oracles - so each statement holds for every such handler/daemon. *)

(* for ALL label sequences and ALL configurations (shared ids and filter changes included): at every instant the
   others' entries on the server are, as a list, what the others last made of them, and no step of the framework
   (or of anyone but them) changes that list *)
Theorem C06_foreign_untouched : forall c fins a b tr s,
  fl_run c (fl_init c fins a b) tr = Some s ->
  fl_foreign (c_own c) (v_fins (sv s)) = g_foreign s /\
  (forall l s', fl_step c s l = Some s' -> (forall l', l <> LForeign l') ->
     fl_foreign (c_own c) (v_fins (sv s')) = fl_foreign (c_own c) (v_fins (sv s))).
Proof. exact fl_foreign_untouched. Qed.
Print Assumptions C06_foreign_untouched.

(* The full statement "never removed while a matching mandatory deletion handler has not finished" is false of the
   faithful model: with H's id shared with a handler of another cause (finding F8) a calm history releases the
   finalizer of a deleting object although H was never invoked for the deletion ... *)
Theorem C06_not_released_early_refuted :
  exists c tr s s', c_shared c = true /\ forallb fl_calm tr = true /\
    fl_run c (fl_init c [] true false) tr = Some s /\ fl_step c s LJson = Some s' /\
    fl_releases c s s' = true /\ c_del c = true /\ v_mdel (sv s) = true /\ v_deleting (sv s) = true /\ g_done s = false.
Proof. exact fl_not_released_early_refuted. Qed.
Print Assumptions C06_not_released_early_refuted.

(* ... and it holds for every history in which ids are not shared between causes and the filters' verdicts on the
   object do not change: whenever an accepted request of the framework takes the own finalizer off, H - if it
   matches - was invoked for the deletion and finished, and D is neither running nor being stopped *)
Theorem C06_not_released_early_partial : forall c, c_shared c = false -> forall fins a b tr s s',
  forallb fl_calm tr = true -> fl_run c (fl_init c fins a b) tr = Some s ->
  fl_step c s LJson = Some s' -> fl_releases c s s' = true ->
  (c_del c = true -> v_mdel (sv s) = true -> g_done s = true) /\ fl_daemon_live (p_daemon s) = false.
Proof. exact fl_not_released_early_partial. Qed.
Print Assumptions C06_not_released_early_partial.

(* the second hypothesis is necessary as well: a release decided while H did not match is carried over a 422 and
   lands after a label edit made H match again (the decision is not re-evaluated) *)
Theorem C06_not_released_early_calm_needed :
  exists c tr s s', c_shared c = false /\
    fl_run c (fl_init c [] true false) tr = Some s /\ fl_step c s LJson = Some s' /\
    fl_releases c s s' = true /\ c_del c = true /\ v_mdel (sv s) = true /\ g_done s = false.
Proof. exact fl_calm_needed. Qed.
Print Assumptions C06_not_released_early_calm_needed.

(* non-vacuity of the partial theorem: a calm history with an unshared id, a foreign edit and a deletion, in which
   the release does happen (after H finished) and the foreign entry stays *)
Theorem C06_not_released_early_nonvacuous :
  exists s s', forallb fl_calm fl_trace_good = true /\
    fl_run fl_cfg_plain (fl_init fl_cfg_plain [] true false) fl_trace_good = Some s /\
    fl_step fl_cfg_plain s LJson = Some s' /\ fl_releases fl_cfg_plain s s' = true /\
    g_done s = true /\ v_fins (sv s') = ["other"] /\ v_alive (sv s') = true.
Proof. exact fl_partial_nonvacuous. Qed.
Print Assumptions C06_not_released_early_nonvacuous.

(* released eventually (enabledness): from EVERY state in which the operator is idle with nothing carried, the
   object is being deleted and held, and D is neither running nor being stopped - delivering the event and running
   one cycle in which H (if selected) finishes, the others report nothing, the view is consistent, followed by its
   two requests with nobody interfering - takes the own finalizer off, leaves the others' entries, carries nothing *)
Theorem C06_released_eventually : forall c s,
  p_flight s = FNone -> p_carried s = [] ->
  v_alive (sv s) = true -> v_deleting (sv s) = true -> fl_mem (c_own c) (v_fins (sv s)) = true ->
  fl_daemon_live (p_daemon s) = false ->
  exists s', fl_run c s [LEvent; LCycle (fl_k_quiet true true); LMerge; LJson] = Some s' /\
             fl_mem (c_own c) (v_fins (sv s')) = false /\
             v_fins (sv s') = fl_foreign (c_own c) (v_fins (sv s)) /\
             p_carried s' = [] /\ p_flight s' = FNone.
Proof. exact fl_released_eventually. Qed.
Print Assumptions C06_released_eventually.

(* never added while deleting, at the level of requests: "the framework never sends a request that adds its
   finalizer to an object being deleted" is false of the faithful model (a block refused by a 422 is carried and
   sent again after the deletion started) ... *)
Theorem C06_add_request_while_deleting_refuted :
  exists c tr s, fl_run c (fl_init c [] true false) tr = Some s /\ fl_adds_while_deleting c s = true.
Proof. exact fl_add_request_while_deleting_refuted. Qed.
Print Assumptions C06_add_request_while_deleting_refuted.

(* ... what holds: no pass ever asks for it (C06_never_added_while_deleting above), and - the API server refusing
   new finalizers on objects being deleted - no step of anyone but the other owners makes it appear *)
Theorem C06_add_while_deleting_partial : forall c s l s', fl_step c s l = Some s' ->
  v_deleting (sv s) = true -> fl_mem (c_own c) (v_fins (sv s)) = false -> (forall l', l <> LForeign l') ->
  fl_mem (c_own c) (v_fins (sv s')) = false.
Proof. exact fl_never_added_while_deleting_step. Qed.
Print Assumptions C06_add_while_deleting_partial.

(* the list-of-names edits used in the life-cycle model are exactly the JSON edits of finalizers.py on bodies whose
   finalizers are strings *)
Theorem C06_lists_are_json_edits : forall fin fns body l, fz_wellformed body = true -> fz_fins body = map JStr l ->
  exists b', fz_apply_fns fin fns body = Ok b' /\ fz_wellformed b' = true /\ fz_fins b' = map JStr (fl_apply_fns fin fns l).
Proof. exact fz_apply_fns_bridge. Qed.
Print Assumptions C06_lists_are_json_edits.

(* ====================================================================================== *)
(* Deepening round: weaker guard for clause A, the daemon clause B with the clock, clause C with the clock *)

(* clause A/B under the weakest guard that the two findings leave: ids unshared (F8) and no edit that changes a
   filter's verdict while a cycle is in progress or a release is carried (F601); every other label/annotation/spec
   edit is admitted *)
Theorem C06_not_released_early_steady : forall c, c_shared c = false -> forall fins a b tr s s',
  fl_run_steady c (fl_init c fins a b) tr = Some s ->
  fl_step c s LJson = Some s' -> fl_releases c s s' = true ->
  (c_del c = true -> v_mdel (sv s) = true -> g_done s = true) /\
  (fl_daemon_live (p_daemon s) = true -> v_mdmn (sv s) = false).
Proof. exact fl_not_released_early_steady. Qed.
Print Assumptions C06_not_released_early_steady.

(* every calm history is a steady one (the older theorem's guard implies this one's) *)
Theorem C06_calm_is_steady : forall c tr s s', forallb fl_calm tr = true -> fl_run c s tr = Some s' -> fl_run_steady c s tr = Some s'.
Proof. exact fl_calm_steady. Qed.
Print Assumptions C06_calm_is_steady.

(* non-vacuity: a steady history that is not calm (the filter's label removed and set again while the operator is
   quiescent, a spec edit racing with a cycle) and does release after H finished; and the F601 trace is not steady *)
Theorem C06_steady_nonvacuous :
  (exists s s', forallb fl_calm fq_trace = false /\
    fl_run_steady fl_cfg_plain (fl_init fl_cfg_plain [] true false) fq_trace = Some s /\
    fl_step fl_cfg_plain s LJson = Some s' /\ fl_releases fl_cfg_plain s s' = true /\ g_done s = true /\ v_mdel (sv s) = true) /\
  fl_run_steady fl_cfg_plain (fl_init fl_cfg_plain [] true false) fl_trace_stale = None.
Proof. exact (conj fq_nonvacuous fq_f601_not_steady). Qed.
Print Assumptions C06_steady_nonvacuous.

(* one call of stop_daemons on one daemon, for ALL handler configurations, times, stopper states and task behaviours *)
Theorem C06_daemon_stop_abandoned : forall h y now w done0 i1 i2 i3,
  r_out (fd_stop h y now w done0 i1 i2 i3) = SAbandoned ->
  exists t, d_timeout h = Some t /\ t + fd_or0 (d_backoff h) <= fd_age now w /\
            (forall b, d_backoff h = Some b -> b <= fd_age now w) /\
            w_aband (r_w (fd_stop h y now w done0 i1 i2 i3)) = true /\
            r_delays (fd_stop h y now w done0 i1 i2 i3) = [].
Proof. exact fd_stop_abandoned. Qed.
Print Assumptions C06_daemon_stop_abandoned.

Theorem C06_daemon_stop_cancelled : forall h y now w done0 i1 i2 i3,
  r_cancel (fd_stop h y now w done0 i1 i2 i3) = true -> (fd_or0 (d_backoff h) <= fd_age now w)%Z \/ d_backoff h = None.
Proof. exact fd_stop_cancelled. Qed.
Print Assumptions C06_daemon_stop_cancelled.

(* the finalizer is held (a delay is reported) exactly while the outcome is "still stopping" *)
Theorem C06_daemon_stop_delays : forall h y now w done0 i1 i2 i3,
  (r_out (fd_stop h y now w done0 i1 i2 i3) = SStill <-> r_delays (fd_stop h y now w done0 i1 i2 i3) <> []).
Proof. exact fd_stop_delays. Qed.
Print Assumptions C06_daemon_stop_delays.

(* never early: a task that keeps running holds the finalizer until backoff+timeout are over - forever without a timeout *)
Theorem C06_daemon_stop_holds : forall h y now w,
  (forall t, d_timeout h = Some t -> (fd_age now w < t + fd_or0 (d_backoff h))%Z) ->
  r_out (fd_stop h y now w false false false false) = SStill.
Proof. exact fd_stop_holds. Qed.
Print Assumptions C06_daemon_stop_holds.

(* eventually: once backoff+timeout are over, no delay is reported whatever the task does *)
Theorem C06_daemon_stop_exhausted : forall h y now w done0 i1 i2 i3 t,
  d_timeout h = Some t -> (0 <= t)%Z -> (t + fd_or0 (d_backoff h) <= fd_age now w)%Z ->
  r_delays (fd_stop h y now w done0 i1 i2 i3) = [].
Proof. exact fd_stop_exhausted. Qed.
Print Assumptions C06_daemon_stop_exhausted.

(* non-vacuity of the stages (backoff 5, timeout 10, stop requested at 100): signalled at 102, cancelled at 105, still
   held at 114, abandoned at 115 *)
Theorem C06_daemon_stop_stages :
  r_delays (fd_stop fd_ex_h WDeleted 102 fd_ex_w false false false false) = [3%Z] /\
  r_cancel (fd_stop fd_ex_h WDeleted 105 fd_ex_w false false false false) = true /\
  r_out (fd_stop fd_ex_h WDeleted 114 fd_ex_w false false false false) = SStill /\
  r_out (fd_stop fd_ex_h WDeleted 115 fd_ex_w false false false false) = SAbandoned.
Proof. exact (conj (proj2 fd_ex_signal) (conj (proj1 fd_ex_cancel) (conj fd_ex_not_yet fd_ex_abandon))). Qed.
Print Assumptions C06_daemon_stop_stages.

(* the LTS with a clock refines the untimed one: every theorem above about fl_run holds of its histories *)
Theorem C06_timed_refines : forall h c tr s s', fd_run h c s tr = Some s' ->
  exists btr, fl_run c (fb s) btr = Some (fb s') /\ (forallb fd_calm tr = true -> forallb fl_calm btr = true).
Proof. exact fd_run_base. Qed.
Print Assumptions C06_timed_refines.

(* clause B, ALL timed histories (any configuration, filters changing, ids shared or not) *)
Theorem C06_daemon_abandoned_after_timeouts : forall h c fins a b t0 tr s,
  fd_run h c (fd_init c fins a b t0) tr = Some s ->
  (p_daemon (fb s) = DAbandoned ->
     exists t w ab, d_timeout h = Some t /\ w_when (f_w s) = Some w /\ f_aband_at s = Some ab /\
                    (w + t + fd_or0 (d_backoff h) <= ab)%Z /\ (ab <= f_now s)%Z) /\
  (forall x, f_cancel_at s = Some x ->
     exists w, w_when (f_w s) = Some w /\ ((w + fd_or0 (d_backoff h) <= x)%Z \/ d_backoff h = None) /\ (w <= x)%Z /\ (x <= f_now s)%Z).
Proof. exact fd_abandoned_after_timeouts. Qed.
Print Assumptions C06_daemon_abandoned_after_timeouts.

Theorem C06_not_released_early_daemon : forall h c, c_shared c = false -> forall fins a b t0 tr s s' i1 i2 i3,
  forallb fd_calm tr = true -> fd_run h c (fd_init c fins a b t0) tr = Some s ->
  fd_step h c s (TBase LJson i1 i2 i3) = Some s' -> fl_releases c (fb s) (fb s') = true ->
  (c_del c = true -> v_mdel (sv (fb s)) = true -> g_done (fb s) = true) /\
  (fd_in_dict (p_daemon (fb s)) = false \/
   (p_daemon (fb s) = DAbandoned /\
    exists t w ab, d_timeout h = Some t /\ w_when (f_w s) = Some w /\ f_aband_at s = Some ab /\
                   (w + t + fd_or0 (d_backoff h) <= ab)%Z /\ (ab <= f_now s)%Z)).
Proof. exact fd_not_released_early. Qed.
Print Assumptions C06_not_released_early_daemon.

(* non-vacuity: the daemon ignores flag and cancellation; flagged at 0, cancelled at 5, still held at 14 (delay 1),
   abandoned at 15 = backoff+timeout, and only then the finalizer goes *)
Theorem C06_daemon_history_nonvacuous :
  (exists s s', forallb fd_calm fd_ex_trace = true /\
    fd_run fd_ex_h fd_ex_cfg (fd_init fd_ex_cfg [] false true 0) fd_ex_trace = Some s /\
    fd_step fd_ex_h fd_ex_cfg s (fd_b LJson) = Some s' /\ fl_releases fd_ex_cfg (fb s) (fb s') = true /\
    p_daemon (fb s) = DAbandoned /\ f_aband_at s = Some 15%Z /\ f_cancel_at s = Some 5%Z /\ w_when (f_w s) = Some 0%Z) /\
  (exists s, fd_run fd_ex_h fd_ex_cfg (fd_init fd_ex_cfg [] false true 0) (firstn 12 fd_ex_trace) = Some s /\
    p_daemon (fb s) = DStopping /\ fl_mem "kopf" (v_fins (sv (fb s))) = true /\ p_flight (fb s) = FNone /\ p_carried (fb s) = []).
Proof. exact (conj fd_ex_history fd_ex_held). Qed.
Print Assumptions C06_daemon_history_nonvacuous.

(* clause C with D's stop outcome as a parameter, and with the clock *)
Theorem C06_released_eventually_stop : forall c s stop,
  p_flight s = FNone -> p_carried s = [] ->
  v_alive (sv s) = true -> v_deleting (sv s) = true -> fl_mem (c_own c) (v_fins (sv s)) = true ->
  snd (fl_spawning c (sv s) (p_daemon s) (p_forever s) stop) = [] ->
  exists s', fl_run c s [LEvent; LCycle (fl_k_quiet_stop stop); LMerge; LJson] = Some s' /\
             fl_mem (c_own c) (v_fins (sv s')) = false /\
             v_fins (sv s') = fl_foreign (c_own c) (v_fins (sv s)) /\
             p_carried s' = [] /\ p_flight s' = FNone.
Proof. exact fl_released_eventually_stop. Qed.
Print Assumptions C06_released_eventually_stop.

Theorem C06_released_after_timeouts : forall h c s t dt i1 i2 i3,
  p_flight (fb s) = FNone -> p_carried (fb s) = [] ->
  v_alive (sv (fb s)) = true -> v_deleting (sv (fb s)) = true -> fl_mem (c_own c) (v_fins (sv (fb s))) = true ->
  d_timeout h = Some t -> (0 <= t)%Z -> (0 <= dt)%Z ->
  (t + fd_or0 (d_backoff h) <= fd_age (f_now s + dt) (f_w s))%Z ->
  exists s', fd_run h c s [TTick dt; TBase LEvent false false false; TBase (LCycle (fl_k_quiet_stop SStill)) i1 i2 i3;
                           TBase LMerge false false false; TBase LJson false false false] = Some s' /\
             fl_mem (c_own c) (v_fins (sv (fb s'))) = false /\
             v_fins (sv (fb s')) = fl_foreign (c_own c) (v_fins (sv (fb s))).
Proof. exact fd_released_after_timeouts. Qed.
Print Assumptions C06_released_after_timeouts.

Theorem C06_released_after_timeouts_nonvacuous :
  exists s, fd_run fd_ex_h fd_ex_cfg (fd_init fd_ex_cfg [] false true 0) (firstn 12 fd_ex_trace) = Some s /\
    p_flight (fb s) = FNone /\ p_carried (fb s) = [] /\ v_alive (sv (fb s)) = true /\ v_deleting (sv (fb s)) = true /\
    fl_mem (c_own fd_ex_cfg) (v_fins (sv (fb s))) = true /\ d_timeout fd_ex_h = Some 10%Z /\
    (10 + fd_or0 (d_backoff fd_ex_h) <= fd_age (f_now s + 1) (f_w s))%Z /\ fl_daemon_live (p_daemon (fb s)) = true.
Proof. exact fd_ex_released_hyps. Qed.
Print Assumptions C06_released_after_timeouts_nonvacuous.

(* ---------- clause D: "requires" is order-independent and cannot be vetoed ---------- *)
From Coq Require Import Sorting.Permutation.

(* the three aggregates, and with them the whole decision of a pass, are the same for every order of registration *)
Theorem C06_requires_order_independent : forall sp sp' ch ch', Permutation sp sp' -> Permutation ch ch' ->
  fz_spawn_requires sp = fz_spawn_requires sp' /\ fz_chg_requires ch = fz_chg_requires ch' /\ fz_chg_prematch ch = fz_chg_prematch ch'.
Proof. exact fz_requires_order_independent. Qed.
Print Assumptions C06_requires_order_independent.

Theorem C06_decision_order_independent : forall a sp sp' ch ch', Permutation sp sp' -> Permutation ch ch' ->
  fz_decide (fz_with_handlers a (Some sp) (Some ch)) = fz_decide (fz_with_handlers a (Some sp') (Some ch')).
Proof. exact fz_decide_order_independent. Qed.
Print Assumptions C06_decision_order_independent.

(* more registrations (optional deletion handlers included) never turn "required" into "not required" *)
Theorem C06_requires_monotone : forall sp sp' ch ch', incl sp sp' -> incl ch ch' ->
  (fz_spawn_requires sp = true -> fz_spawn_requires sp' = true) /\ (fz_chg_requires ch = true -> fz_chg_requires ch' = true).
Proof. exact fz_requires_monotone. Qed.
Print Assumptions C06_requires_monotone.

(* non-vacuity: optional before mandatory, both matching: required in both orders; added when absent, kept when present *)
Theorem C06_optional_first_nonvacuous : fz_chg_requires [fz_ex_opt; fz_ex_del] = true /\ fz_chg_requires [fz_ex_del; fz_ex_opt] = true /\
  o_fns (fz_decide (fz_ex_atoms [] [fz_ex_opt; fz_ex_del] false false [] [])) = [FBlock] /\
  o_fns (fz_decide (fz_ex_atoms [] [fz_ex_opt; fz_ex_del] true false [] [])) = [].
Proof. exact fz_ex_optional_first. Qed.
Print Assumptions C06_optional_first_nonvacuous.
