(* C06 — the finalizer is never released early, always released eventually.
   Only statements here; model in Model/Finalizers.v, proofs in Proofs/Finalizers.v (list edits, decision points)
   and Proofs/FinalizersLts.v (the life of one object's finalizer list: all label sequences).
   Quantification: JSON bodies, fn lists, handler lists with their filter oracles, delays, label sequences and the
   oracles inside the labels are unbounded. *)
From Coq Require Import ZArith List String Bool Ascii.
From KV Require Import Base.Json Base.Dicts Model.Finalizers Proofs.Finalizers Proofs.FinalizersLts.
Import ListNotations.
Open Scope string_scope.
Open Scope list_scope.

(* ---------- finalizers owned by others are never added, dropped or reordered ---------- *)

(* any sequence of the framework's transformation functions, on any body the API server can hold: no Python
   error, and the sub-list of the other owners' entries (arbitrary JSON values, duplicates included) is the same
   list afterwards *)
Theorem C06_foreign_untouched_json : forall fin fns body, fz_wellformed body = true ->
  exists b', fz_apply_fns fin fns body = Ok b' /\ fz_wellformed b' = true /\
             fz_foreign fin (fz_fins b') = fz_foreign fin (fz_fins body).
Proof. exact fz_apply_fns_spec. Qed.
Print Assumptions C06_foreign_untouched_json.

(* block_deletion: appends the own entry at the end iff it is absent; otherwise the body is returned as it is *)
Theorem C06_block_effect : forall fin body, fz_wellformed body = true ->
  exists b', fz_block fin body = Ok b' /\ fz_wellformed b' = true /\
    fz_foreign fin (fz_fins b') = fz_foreign fin (fz_fins body) /\
    existsb (fz_is_fin fin) (fz_fins b') = true /\
    (existsb (fz_is_fin fin) (fz_fins body) = true -> b' = body) /\
    (existsb (fz_is_fin fin) (fz_fins body) = false -> fz_fins b' = fz_fins body ++ [JStr fin]).
Proof. exact fz_block_spec. Qed.
Print Assumptions C06_block_effect.

(* allow_deletion: what remains is exactly the others' entries, in their order (all own duplicates go) *)
Theorem C06_allow_effect : forall fin body, fz_wellformed body = true ->
  exists b', fz_allow fin body = Ok b' /\ fz_wellformed b' = true /\
    fz_fins b' = fz_foreign fin (fz_fins body).
Proof. exact fz_allow_spec. Qed.
Print Assumptions C06_allow_effect.

(* through the conditional JSON-patch of patch_obj: either the whole edit, computed on the freshest body, lands on
   exactly the tested resourceVersion, or nothing does (and the fns are handed back) *)
Theorem C06_edit_atomic : forall fin fns orig mr server o, fz_patch_obj fin fns orig mr server = Ok o ->
  let fresh := match mr with Some b => if fz_truthy b then b else orig | None => orig end in
  match o with
  | PoNoRequest => True
  | PoLanded t after =>
      t = fz_rv fresh /\ ojeqb (fz_rv fresh) (fz_rv server) = true /\ fz_apply_fns fin fns fresh = Ok after
  | PoConflict t => t = fz_rv fresh
  end.
Proof. exact fz_patch_obj_atomic. Qed.
Print Assumptions C06_edit_atomic.

(* ---------- added / removed when handlers start / stop requiring the object ---------- *)

(* what "requiring" means: a daemon/timer that matches (match) and is not stopped forever, or a changing handler
   with requires_finalizer that pre-matches (prematch) *)
Theorem C06_requires_iff : forall a, fz_must a = true <->
  (exists hs h, a_spawn a = Some hs /\ In h hs /\ sh_excluded h = false /\ sh_reqfin h = true /\ sh_match h = true) \/
  (exists hs h, a_chg a = Some hs /\ In h hs /\ ch_reqfin h = true /\ ch_prematch h = true).
Proof. exact fz_must_iff. Qed.
Print Assumptions C06_requires_iff.

(* the finalizer is requested exactly when it is required, absent, and the object is not being deleted *)
Theorem C06_added_removed_on_matching : forall a,
  (In FBlock (o_fns (fz_decide a)) <-> (fz_must a = true /\ a_blocked a = false /\ a_ongoing a = false)) /\
  (fz_must a = false -> a_blocked a = true -> In FAllow (o_fns (fz_decide a))).
Proof. intros a; split; [exact (fz_block_iff a) | exact (fz_release_when_unneeded a)]. Qed.
Print Assumptions C06_added_removed_on_matching.

Theorem C06_never_added_while_deleting : forall a, a_ongoing a = true -> ~ In FBlock (o_fns (fz_decide a)).
Proof. exact fz_never_added_while_deleting. Qed.
Print Assumptions C06_never_added_while_deleting.

(* ---------- one pass: never released early, released when finished ---------- *)

(* a release is appended only if nobody requires the finalizer, or: the object is being deleted, still held, not
   yet gone, no daemon/handler reported a delay, and - if change handling applies to the object - the change
   handlers were consulted in this very pass on a consistent view with nothing carried over *)
Theorem C06_release_only_if : forall a, In FAllow (o_fns (fz_decide a)) ->
  (fz_must a = false /\ a_blocked a = true) \/
  (fz_must a = true /\ a_deleted a = false /\ a_ongoing a = true /\ a_blocked a = true /\
   o_delays (fz_decide a) = [] /\ a_sdelays a = [] /\
   (match a_chg a with Some hs => fz_chg_prematch hs | None => false end = true ->
      o_changing (fz_decide a) = true /\ a_cdelays a = [] /\ a_patch0_empty a = true /\
      (a_ctime a = CtNone \/ (a_ctime a = CtSome /\ a_timed_out a = true /\ a_low_empty a = true)))).
Proof. exact fz_allow_only_if. Qed.
Print Assumptions C06_release_only_if.

Theorem C06_release_when_finished : forall a,
  a_deleted a = false -> a_ongoing a = true -> a_blocked a = true ->
  a_sdelays a = [] -> a_cdelays a = [] -> a_patch0_empty a = true -> a_ctime a = CtNone ->
  In FAllow (o_fns (fz_decide a)).
Proof. exact fz_release_when_finished. Qed.
Print Assumptions C06_release_when_finished.

(* a pass that edits the finalizer for (non-)requirement reasons does not run the change handlers *)
Theorem C06_dedicated_pass : forall a, (In FBlock (o_fns (fz_decide a)) \/ fz_rem a = true) -> o_changing (fz_decide a) = false.
Proof. exact fz_dedicated_pass. Qed.
Print Assumptions C06_dedicated_pass.

(* ====================================================================================== *)
(* The life of one object's finalizer list: every interleaving of foreign finalizer edits, label/spec edits
   (LMatch), deletion requests, event deliveries, processing cycles with arbitrary oracles (other handlers'
   requirements and delays, consistency, handler outcomes), the two requests of patch_obj with 422s in between,
   daemon exits/abandonment and operator restarts.  One mandatory deletion handler H and one daemon D are followed;
   all others are oracles - so each statement holds for every such handler/daemon. *)

(* for ALL label sequences and ALL configurations (shared ids and filter changes included): at every instant the
   others' entries on the server are, as a list, what the others last made of them, and no step of the framework
   (or of anyone but them) changes that list *)
Theorem C06_foreign_untouched : forall c fins a b tr s,
  fl_run c (fl_init c fins a b) tr = Some s ->
  fl_foreign (c_own c) (v_fins (sv s)) = g_foreign s /\
  (forall l s', fl_step c s l = Some s' -> (forall l', l <> LForeign l') ->
     fl_foreign (c_own c) (v_fins (sv s')) = fl_foreign (c_own c) (v_fins (sv s))).
Proof. exact fl_foreign_untouched. Qed.
Print Assumptions C06_foreign_untouched.

(* The full statement "never removed while a matching mandatory deletion handler has not finished" is false of the
   faithful model: with H's id shared with a handler of another cause (finding F8) a calm history releases the
   finalizer of a deleting object although H was never invoked for the deletion ... *)
Theorem C06_not_released_early_refuted :
  exists c tr s s', c_shared c = true /\ forallb fl_calm tr = true /\
    fl_run c (fl_init c [] true false) tr = Some s /\ fl_step c s LJson = Some s' /\
    fl_releases c s s' = true /\ c_del c = true /\ v_mdel (sv s) = true /\ v_deleting (sv s) = true /\ g_done s = false.
Proof. exact fl_not_released_early_refuted. Qed.
Print Assumptions C06_not_released_early_refuted.

(* ... and it holds for every history in which ids are not shared between causes and the filters' verdicts on the
   object do not change: whenever an accepted request of the framework takes the own finalizer off, H - if it
   matches - was invoked for the deletion and finished, and D is neither running nor being stopped *)
Theorem C06_not_released_early_partial : forall c, c_shared c = false -> forall fins a b tr s s',
  forallb fl_calm tr = true -> fl_run c (fl_init c fins a b) tr = Some s ->
  fl_step c s LJson = Some s' -> fl_releases c s s' = true ->
  (c_del c = true -> v_mdel (sv s) = true -> g_done s = true) /\ fl_daemon_live (p_daemon s) = false.
Proof. exact fl_not_released_early_partial. Qed.
Print Assumptions C06_not_released_early_partial.

(* the second hypothesis is necessary as well: a release decided while H did not match is carried over a 422 and
   lands after a label edit made H match again (the decision is not re-evaluated) *)
Theorem C06_not_released_early_calm_needed :
  exists c tr s s', c_shared c = false /\
    fl_run c (fl_init c [] true false) tr = Some s /\ fl_step c s LJson = Some s' /\
    fl_releases c s s' = true /\ c_del c = true /\ v_mdel (sv s) = true /\ g_done s = false.
Proof. exact fl_calm_needed. Qed.
Print Assumptions C06_not_released_early_calm_needed.

(* non-vacuity of the partial theorem: a calm history with an unshared id, a foreign edit and a deletion, in which
   the release does happen (after H finished) and the foreign entry stays *)
Theorem C06_not_released_early_nonvacuous :
  exists s s', forallb fl_calm fl_trace_good = true /\
    fl_run fl_cfg_plain (fl_init fl_cfg_plain [] true false) fl_trace_good = Some s /\
    fl_step fl_cfg_plain s LJson = Some s' /\ fl_releases fl_cfg_plain s s' = true /\
    g_done s = true /\ v_fins (sv s') = ["other"] /\ v_alive (sv s') = true.
Proof. exact fl_partial_nonvacuous. Qed.
Print Assumptions C06_not_released_early_nonvacuous.

(* released eventually (enabledness): from EVERY state in which the operator is idle with nothing carried, the
   object is being deleted and held, and D is neither running nor being stopped - delivering the event and running
   one cycle in which H (if selected) finishes, the others report nothing, the view is consistent, followed by its
   two requests with nobody interfering - takes the own finalizer off, leaves the others' entries, carries nothing *)
Theorem C06_released_eventually : forall c s,
  p_flight s = FNone -> p_carried s = [] ->
  v_alive (sv s) = true -> v_deleting (sv s) = true -> fl_mem (c_own c) (v_fins (sv s)) = true ->
  fl_daemon_live (p_daemon s) = false ->
  exists s', fl_run c s [LEvent; LCycle (fl_k_quiet true true); LMerge; LJson] = Some s' /\
             fl_mem (c_own c) (v_fins (sv s')) = false /\
             v_fins (sv s') = fl_foreign (c_own c) (v_fins (sv s)) /\
             p_carried s' = [] /\ p_flight s' = FNone.
Proof. exact fl_released_eventually. Qed.
Print Assumptions C06_released_eventually.

(* never added while deleting, at the level of requests: "the framework never sends a request that adds its
   finalizer to an object being deleted" is false of the faithful model (a block refused by a 422 is carried and
   sent again after the deletion started) ... *)
Theorem C06_add_request_while_deleting_refuted :
  exists c tr s, fl_run c (fl_init c [] true false) tr = Some s /\ fl_adds_while_deleting c s = true.
Proof. exact fl_add_request_while_deleting_refuted. Qed.
Print Assumptions C06_add_request_while_deleting_refuted.

(* ... what holds: no pass ever asks for it (C06_never_added_while_deleting above), and - the API server refusing
   new finalizers on objects being deleted - no step of anyone but the other owners makes it appear *)
Theorem C06_add_while_deleting_partial : forall c s l s', fl_step c s l = Some s' ->
  v_deleting (sv s) = true -> fl_mem (c_own c) (v_fins (sv s)) = false -> (forall l', l <> LForeign l') ->
  fl_mem (c_own c) (v_fins (sv s')) = false.
Proof. exact fl_never_added_while_deleting_step. Qed.
Print Assumptions C06_add_while_deleting_partial.

(* the list-of-names edits used in the life-cycle model are exactly the JSON edits of finalizers.py on bodies whose
   finalizers are strings *)
Theorem C06_lists_are_json_edits : forall fin fns body l, fz_wellformed body = true -> fz_fins body = map JStr l ->
  exists b', fz_apply_fns fin fns body = Ok b' /\ fz_wellformed b' = true /\ fz_fins b' = map JStr (fl_apply_fns fin fns l).
Proof. exact fz_apply_fns_bridge. Qed.
Print Assumptions C06_lists_are_json_edits.
