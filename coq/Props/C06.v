(* C06 — the finalizer is never released early, always released eventually.
   Only statements here; model in Model/Finalizers.v, proofs in Proofs/Finalizers.v (list edits, decision points)
   and Proofs/FinalizersLts.v (the life of one object's finalizer list: all label sequences).
   Quantification: JSON bodies, fn lists, handler lists with their filter oracles, delays, label sequences and the
   oracles inside the labels are unbounded. *)
From Coq Require Import ZArith List String Bool Ascii.
From KV Require Import Base.Json Base.Dicts Model.Finalizers Proofs.Finalizers.
Import ListNotations.
Open Scope string_scope.
Open Scope list_scope.

(* ---------- finalizers owned by others are never added, dropped or reordered ---------- *)

(* any sequence of the framework's transformation functions, on any body the API server can hold: no Python
   error, and the sub-list of the other owners' entries (arbitrary JSON values, duplicates included) is the same
   list afterwards *)
Theorem C06_foreign_untouched_json : forall fin fns body, fz_wellformed body = true ->
  exists b', fz_apply_fns fin fns body = Ok b' /\ fz_wellformed b' = true /\
             fz_foreign fin (fz_fins b') = fz_foreign fin (fz_fins body).
Proof. exact fz_apply_fns_spec. Qed.
Print Assumptions C06_foreign_untouched_json.

(* block_deletion: appends the own entry at the end iff it is absent; otherwise the body is returned as it is *)
Theorem C06_block_effect : forall fin body, fz_wellformed body = true ->
  exists b', fz_block fin body = Ok b' /\ fz_wellformed b' = true /\
    fz_foreign fin (fz_fins b') = fz_foreign fin (fz_fins body) /\
    existsb (fz_is_fin fin) (fz_fins b') = true /\
    (existsb (fz_is_fin fin) (fz_fins body) = true -> b' = body) /\
    (existsb (fz_is_fin fin) (fz_fins body) = false -> fz_fins b' = fz_fins body ++ [JStr fin]).
Proof. exact fz_block_spec. Qed.
Print Assumptions C06_block_effect.

(* allow_deletion: what remains is exactly the others' entries, in their order (all own duplicates go) *)
Theorem C06_allow_effect : forall fin body, fz_wellformed body = true ->
  exists b', fz_allow fin body = Ok b' /\ fz_wellformed b' = true /\
    fz_fins b' = fz_foreign fin (fz_fins body).
Proof. exact fz_allow_spec. Qed.
Print Assumptions C06_allow_effect.

(* through the conditional JSON-patch of patch_obj: either the whole edit, computed on the freshest body, lands on
   exactly the tested resourceVersion, or nothing does (and the fns are handed back) *)
Theorem C06_edit_atomic : forall fin fns orig mr server o, fz_patch_obj fin fns orig mr server = Ok o ->
  let fresh := match mr with Some b => if fz_truthy b then b else orig | None => orig end in
  match o with
  | PoNoRequest => True
  | PoLanded t after =>
      t = fz_rv fresh /\ ojeqb (fz_rv fresh) (fz_rv server) = true /\ fz_apply_fns fin fns fresh = Ok after
  | PoConflict t => t = fz_rv fresh
  end.
Proof. exact fz_patch_obj_atomic. Qed.
Print Assumptions C06_edit_atomic.

(* ---------- added / removed when handlers start / stop requiring the object ---------- *)

(* what "requiring" means: a daemon/timer that matches (match) and is not stopped forever, or a changing handler
   with requires_finalizer that pre-matches (prematch) *)
Theorem C06_requires_iff : forall a, fz_must a = true <->
  (exists hs h, a_spawn a = Some hs /\ In h hs /\ sh_excluded h = false /\ sh_reqfin h = true /\ sh_match h = true) \/
  (exists hs h, a_chg a = Some hs /\ In h hs /\ ch_reqfin h = true /\ ch_prematch h = true).
Proof. exact fz_must_iff. Qed.
Print Assumptions C06_requires_iff.

(* the finalizer is requested exactly when it is required, absent, and the object is not being deleted *)
Theorem C06_added_removed_on_matching : forall a,
  (In FBlock (o_fns (fz_decide a)) <-> (fz_must a = true /\ a_blocked a = false /\ a_ongoing a = false)) /\
  (fz_must a = false -> a_blocked a = true -> In FAllow (o_fns (fz_decide a))).
Proof. intros a; split; [exact (fz_block_iff a) | exact (fz_release_when_unneeded a)]. Qed.
Print Assumptions C06_added_removed_on_matching.

Theorem C06_never_added_while_deleting : forall a, a_ongoing a = true -> ~ In FBlock (o_fns (fz_decide a)).
Proof. exact fz_never_added_while_deleting. Qed.
Print Assumptions C06_never_added_while_deleting.

(* ---------- one pass: never released early, released when finished ---------- *)

(* a release is appended only if nobody requires the finalizer, or: the object is being deleted, still held, not
   yet gone, no daemon/handler reported a delay, and - if change handling applies to the object - the change
   handlers were consulted in this very pass on a consistent view with nothing carried over *)
Theorem C06_release_only_if : forall a, In FAllow (o_fns (fz_decide a)) ->
  (fz_must a = false /\ a_blocked a = true) \/
  (fz_must a = true /\ a_deleted a = false /\ a_ongoing a = true /\ a_blocked a = true /\
   o_delays (fz_decide a) = [] /\ a_sdelays a = [] /\
   (match a_chg a with Some hs => fz_chg_prematch hs | None => false end = true ->
      o_changing (fz_decide a) = true /\ a_cdelays a = [] /\ a_patch0_empty a = true /\
      (a_ctime a = CtNone \/ (a_ctime a = CtSome /\ a_timed_out a = true /\ a_low_empty a = true)))).
Proof. exact fz_allow_only_if. Qed.
Print Assumptions C06_release_only_if.

Theorem C06_release_when_finished : forall a,
  a_deleted a = false -> a_ongoing a = true -> a_blocked a = true ->
  a_sdelays a = [] -> a_cdelays a = [] -> a_patch0_empty a = true -> a_ctime a = CtNone ->
  In FAllow (o_fns (fz_decide a)).
Proof. exact fz_release_when_finished. Qed.
Print Assumptions C06_release_when_finished.

(* a pass that edits the finalizer for (non-)requirement reasons does not run the change handlers *)
Theorem C06_dedicated_pass : forall a, (In FBlock (o_fns (fz_decide a)) \/ fz_rem a = true) -> o_changing (fz_decide a) = false.
Proof. exact fz_dedicated_pass. Qed.
Print Assumptions C06_dedicated_pass.
