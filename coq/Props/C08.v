(* C08 — accumulated patches are delivered completely, atomically and exactly once.
   Function level: patching.patch_obj, application.patch_and_check / apply (Model/PatchObj.v, Proofs/PatchObj.v);
   carry level: processing.process_resource_event's memory.remaining_patch from cycle to cycle (Model/Carry.v, Proofs/Carry.v).
   Only statements here.  The API server is an oracle ([S], [serve]: EVERY server behaviour) in the generic theorems and the
   stateful server [po_wserve] in the others (RFC 7386 / RFC 6902 writes, status-subresource picking, a fresh resourceVersion per
   write, one foreign write — edit, delete, delete-and-recreate — slipped in before request number [slip], arbitrary server-side
   post-processing [post]); its instance po_fake_* is tied to harness/kv/fakeapi.py by the differential D:server.

   CLAUSE TABLE (statement of C08 in properties.jsonl; quantifier: every patch content x transformations, with/without status
   subresource, every position of a foreign write relative to the four requests, every 404/422, delete-and-recreate timings)

   1 "everything accumulated reaches the API server as merge-patches"
        full      C08_everything_sent (every key, incl. status: None, in exactly one payload), C08_merge_parts_sent (all planned
                  requests are sent when nothing is refused), C08_merge_sent_irrespective_of_body (the handled body has no say), C08_merge_complete (no subresource: exact final object, arbitrary
                  post, incl. the transformations under the from_diff law), C08_merge_complete_sub (subresource, plain server:
                  final object = RFC 7386 merge of the whole patch, key by key, for every patch with unique keys)
        refuted   C08_fns_complete_sub_refuted (finding F802: with a subresource the JSON-patch ops are routed by destination path
                  only; a `move` between the status and the rest loses the removal at its source — all requests 200, nothing carried)
        partial   C08_fns_complete_sub_partial (subresource, transformations whose from_diff ops all lie on one side of the split:
                  the server computes the full result and persists the addressed side)
        monitored ops on both sides without crossing (add/remove/replace): monitors fn-effect-incomplete / incomplete and
                  the closed-model tie D:server; not proved (needs the locality of RFC 6902 ops per top-level key)
   2 "status through the status subresource exactly when the resource has one"
        full      C08_split (also: each part at most once, order, test op in front of every JSON batch)
   3 "only ever lands on the object it was computed for, never on a later object that reuses its name"
        refuted   C08_lands_on_same_object_refuted (finding F6: merge-patches carry no precondition)
        partial   C08_lands_on_same_object_partial (all writes, while the uid behind the name is stable),
                  C08_lands_on_same_object_fns_only (NO assumption on the other writer: a call with transformations only
                  writes to the computed-for uid or not at all), C08_fns_atomic (every JSON batch, any call: applied to exactly
                  the body it tests).  This is as far as F6 allows: the only writes without a guard are the merge-patches.
        monitored history level (lead): delete-and-recreate timings against running handlers
   4 "transformations are applied atomically against a specific resource version; if stale nothing computed from it is written"
        full      C08_fns_atomic (every slip position, every foreign write; body batch: ops computed from the very body whose
                  version is tested; status batch: ops computed from the body before the body batch, applied to the server's
                  answer to that body batch or to that body itself), C08_fns_atomic_step
   5 "carried forward and re-evaluated against a fresh state in the next cycle; neither lost nor duplicated"
        full      C08_fns_carried (after 422 nothing further is sent, exactly the fns remain, in no other way),
                  C08_fns_never_lost, C08_fns_delivered (every sequence of cycles)
        partial   C08_fns_exactly_once / C08_fns_not_duplicated_partial (fresh identities, no accepted-but-failed batch)
        refuted   C08_fns_not_duplicated_refuted (lost response: re-applied; outside the quantifier, no finding; harmless
                  for idempotent transformations)
   6 "a vanished object (404) ends patching silently"
        full      C08_404_silent, C08_patch_and_check_404_silent, C08_outcomes (every other way a call ends)
   anchors (application.apply: patch / sleep / touch / applied)      full  C08_apply_decision *)
From Coq Require Import ZArith List String Bool Ascii Sorted.
From KV Require Import Base.Json Base.Dicts Model.JsonPatch Model.PatchObj Proofs.PatchObj Model.Carry Proofs.Carry.
Import ListNotations.
Open Scope string_scope.
Open Scope list_scope.

(* the log of a call is exactly the dialogue with the server: for EVERY server *)
Theorem C08_dialogue : forall S serve diff has_sub patch fns orig (s0 : S),
  let r := patch_obj S serve diff has_sub patch fns orig s0 in
  po_replay serve s0 (map fst (r_log r)) = (map snd (r_log r), r_srv r).
Proof. exact po_log_replay. Qed.
Print Assumptions C08_dialogue.

(* status goes to /status iff the resource has the subresource; every part is sent at most once, in the order
   merge body, merge status, JSON body, JSON status; every JSON batch starts with the resourceVersion test:
   for every patch, all transformations, every server behaviour *)
Theorem C08_split : forall S serve diff has_sub patch fns orig (s0 : S),
  po_split_ok has_sub patch (map fst (r_log (patch_obj S serve diff has_sub patch fns orig s0))).
Proof. exact po_split_thm. Qed.
Print Assumptions C08_split.

(* if nothing is refused, every planned merge-patch request is sent ... *)
Theorem C08_merge_parts_sent : forall S serve diff has_sub patch fns orig (s0 : S),
  let r := patch_obj S serve diff has_sub patch fns orig s0 in
  po_all_ok (r_log r) = true ->
  filter (fun q => negb (po_is_json q)) (map fst (r_log r)) = po_merge_plan has_sub patch.
Proof. exact po_merges_sent. Qed.
Print Assumptions C08_merge_parts_sent.

(* ... irrespective of the body the patch was accumulated against (a field whose value equals the handled body is still a field),
   of the transformations and of the server state *)
Theorem C08_merge_sent_irrespective_of_body : forall S serve diff has_sub patch fns fns' orig orig' (s0 s0' : S),
  let r := patch_obj S serve diff has_sub patch fns orig s0 in
  let r' := patch_obj S serve diff has_sub patch fns' orig' s0' in
  po_all_ok (r_log r) = true -> po_all_ok (r_log r') = true ->
  filter (fun q => negb (po_is_json q)) (map fst (r_log r)) = filter (fun q => negb (po_is_json q)) (map fst (r_log r')).
Proof. exact po_merges_irrespective_of_body. Qed.
Print Assumptions C08_merge_sent_irrespective_of_body.

(* ... and the plan covers every key of the patch: the key `status` (incl. `status: None`, which removes the status —
   finding F801, repaired by kopf commit 0a8dc55) goes to /status iff there is the subresource, every other key to the
   main URL.  Regression examples with the old witness: Proofs/PatchObj.v po_status_null_split, po_ex_status_null_plan,
   po_ex_status_null_scripted, po_ex_status_null_removed. *)
Theorem C08_everything_sent : forall has_sub patch bp sp k v,
  po_split has_sub patch = (bp, sp) -> lookup k patch = Some v ->
  (if has_sub && String.eqb k "status" then sp = Some (JObj [("status", v)]) /\ lookup k bp = None
   else lookup k bp = Some v).
Proof. exact po_split_cover. Qed.
Print Assumptions C08_everything_sent.

(* with an RFC 7386 / RFC 6902 server, no status subresource and no foreign write: afterwards the object is the
   merge-patch applied, then the transformations applied (each followed by the server's own post-processing) *)
Theorem C08_merge_complete : forall rvs post slip foreign diff,
  (forall n, jeqb (rvs n) (rvs n) = true) ->
  (forall a b, apply_ops (diff a b) a = Some b) ->
  forall patch fns b0 c0 to_be,
    patch <> [] -> slip <> 0%nat -> slip <> 1%nat ->
    let obj0 := po_stamp (rvs c0) b0 in
    let new1 := po_stamp (rvs (Datatypes.S c0)) (post obj0 (merge obj0 (JObj patch))) in
    po_run_fns fns new1 = Ok to_be ->
    let r := patch_obj po_world (po_wserve rvs post false slip foreign) diff false patch fns (Some obj0)
                       (mkW (Some obj0) c0 0 []) in
    let final := match fns, diff new1 to_be with
                 | [], _ | _, [] => new1
                 | _, _ => po_stamp (rvs (Datatypes.S (Datatypes.S c0))) (post new1 to_be)
                 end in
    w_obj (r_srv r) = Some final /\ r_out r = Returned (Some final) None /\ po_all_ok (r_log r) = true.
Proof. exact po_complete_nosub. Qed.
Print Assumptions C08_merge_complete.

(* one JSON batch against the server, for every position of a foreign write (before this very request or not):
   accepted -> it was applied to exactly the body [seen] the operator holds; otherwise the server object is
   not changed by it *)
Theorem C08_fns_atomic_step : forall rvs post has_sub slip foreign,
  (forall a b, jeqb (rvs a) (rvs b) = true -> a = b) ->
  forall w u rest seen resp w',
    po_stamped rvs w -> w_obj w = Some seen ->
    po_wserve rvs post has_sub slip foreign w (po_json_req u (po_test (rvs (w_ctr w)) :: rest)) = (resp, w') ->
    match resp with
    | ROk new =>
        exists cand, apply_ops rest seen = Some cand /\
                     new = po_stamp (rvs (Datatypes.S (w_ctr w))) (post seen (po_pick has_sub u seen cand)) /\
                     w_hist w' = w_hist w ++ [mkWe (Some seen) (po_json_req u (po_test (rvs (w_ctr w)) :: rest)) (ROk new) (Some new)] /\
                     po_stamped rvs w' /\ w_obj w' = Some new
    | _ => exists before, w_hist w' = w_hist w ++ [mkWe before (po_json_req u (po_test (rvs (w_ctr w)) :: rest)) resp before] /\
                          w_obj w' = before
    end.
Proof. exact po_wstep_json. Qed.
Print Assumptions C08_fns_atomic_step.

(* the whole call, for EVERY slip position, every foreign write (edit, delete, delete-and-recreate), every patch,
   all transformations: each JSON batch in the server's history either was applied to exactly the body whose
   version it tests (for the body batch: the body the ops were computed from), or left the server unchanged *)
Theorem C08_fns_atomic : forall rvs post has_sub slip foreign diff,
  (forall a b, jeqb (rvs a) (rvs b) = true -> a = b) ->
  forall patch fns b0 c0,
    let obj0 := po_stamp (rvs c0) b0 in
    let r := patch_obj po_world (po_wserve rvs post has_sub slip foreign) diff has_sub patch fns (Some obj0)
                       (mkW (Some obj0) c0 0 []) in
    forall e, In e (w_hist (r_srv r)) -> po_entry_ok rvs post has_sub diff fns e.
Proof. exact po_atomic_thm. Qed.
Print Assumptions C08_fns_atomic.

(* after a 422 on a JSON batch nothing further is sent in this call and the remaining patch is exactly the fns;
   a remaining patch is returned in no other situation *)
Theorem C08_fns_carried : forall S serve diff has_sub patch fns orig (s0 : S),
  let r := patch_obj S serve diff has_sub patch fns orig s0 in
  (forall q, In (q, RUnprocessable) (r_log r) -> po_is_json q = true ->
             r_out r = Returned (po_last_ok (r_log r)) (Some fns) /\ po_stops (r_log r) = true) /\
  (forall b rem, r_out r = Returned b (Some rem) ->
                 rem = fns /\ exists pre q, r_log r = pre ++ [(q, RUnprocessable)] /\ po_is_json q = true) /\
  (po_all_ok (r_log r) = true -> forall b rem, r_out r = Returned b rem -> rem = None).
Proof. exact po_fns_carried. Qed.
Print Assumptions C08_fns_carried.

(* a vanished object ends patching silently *)
Theorem C08_404_silent : forall S serve diff has_sub patch fns orig (s0 : S),
  let r := patch_obj S serve diff has_sub patch fns orig s0 in
  forall q, In (q, RNotFound) (r_log r) -> r_out r = Returned None None /\ po_stops (r_log r) = true.
Proof. exact po_404_silent. Qed.
Print Assumptions C08_404_silent.

(* every way a call can end (incl. the error behaviour: 422 on a merge-patch and any other API error escalate) *)
Theorem C08_outcomes : forall S serve diff has_sub patch fns orig (s0 : S),
  po_outcome_ok S fns (patch_obj S serve diff has_sub patch fns orig s0).
Proof. exact po_outcome_thm. Qed.
Print Assumptions C08_outcomes.

(* "only ever lands on the object it was computed for" is false of the faithful model (finding F6): a merge-patch
   computed for uid-1 lands on the recreated uid-2 ... *)
Theorem C08_lands_on_same_object_refuted :
  let obj0 := po_stamp (po_ex_rvs 0) (po_ex_obj "uid-1") in
  let r := patch_obj po_world (po_wserve po_ex_rvs (fun _ c => c) false 0 po_ex_recreate) po_ex_diff false
                     po_ex_patch [] (Some obj0) (mkW (Some obj0) 0 0 []) in
  exists q new, r_log r = [(q, ROk new)] /\ po_is_json q = false /\
                po_uid_field obj0 = Some (JStr "uid-1") /\ po_uid_field new = Some (JStr "uid-2") /\
                w_obj (r_srv r) = Some new /\
                po_status_of new = Some (JObj [("handled-for", JStr "uid-1")]) /\
                r_out r = Returned (Some new) None.
Proof. exact po_wrong_object. Qed.
Print Assumptions C08_lands_on_same_object_refuted.

(* ... and holds while the uid behind the name is unchanged (JSON batches are safe unconditionally: C08_fns_atomic) *)
Theorem C08_lands_on_same_object_partial : forall rvs post has_sub slip foreign diff uid,
  (forall old cand, po_uid_field old = Some uid -> po_uid_field (post old cand) = Some uid) ->
  (forall o o', (forall x, o = Some x -> po_uid_field x = Some uid) -> foreign o = Some o' -> po_uid_field o' = Some uid) ->
  forall patch fns orig obj0 c0,
    po_uid_field obj0 = Some uid ->
    let r := patch_obj po_world (po_wserve rvs post has_sub slip foreign) diff has_sub patch fns orig (mkW (Some obj0) c0 0 []) in
    (forall q new, In (q, ROk new) (r_log r) -> po_uid_field new = Some uid) /\
    (forall o, w_obj (r_srv r) = Some o -> po_uid_field o = Some uid).
Proof. exact po_same_object. Qed.
Print Assumptions C08_lands_on_same_object_partial.

(* application.apply: applied / slept / touched *)
Theorem C08_apply_decision : forall S serve diff has_sub patch0 clear fns orig delays woken touch_patch (s0 : S) r,
  po_apply S serve diff has_sub patch0 clear fns orig delays woken touch_patch s0 = ApOk r ->
  let p := po_patch_truthy patch0 fns in
  (ap_applied r = true <-> (p = false /\ po_min delays = None)) /\
  (ap_slept r <> None -> p = false) /\
  (ap_touched r = true -> p = false /\ exists d, po_min delays = Some d /\ (woken = false \/ (d <= 0)%Z)) /\
  (p = false -> po_min delays <> None -> ap_touched r = true \/ (woken = true /\ ap_slept r <> None)).
Proof. exact po_apply_decision. Qed.
Print Assumptions C08_apply_decision.

(* with a status subresource and the plain RFC server, nobody else writing: after the (up to two) merge-patch requests the
   object is the RFC 7386 merge of the WHOLE patch — key by key, the resourceVersion aside — for every patch with unique keys *)
Theorem C08_merge_complete_sub : forall rvs slip foreign diff patch b0 c0,
  patch <> [] -> NoDup (map fst patch) -> slip <> 0%nat -> slip <> 1%nat ->
  let obj0 := po_stamp (rvs c0) b0 in
  let r := patch_obj po_world (po_wserve rvs (fun _ c => c) true slip foreign) diff true patch [] (Some obj0) (mkW (Some obj0) c0 0 []) in
  exists final,
    w_obj (r_srv r) = Some final /\ r_out r = Returned (Some final) None /\ po_all_ok (r_log r) = true /\
    (forall k, String.eqb k "metadata" = false -> po_top k final = po_top k (merge obj0 (JObj patch))) /\
    (forall k, String.eqb k "resourceVersion" = false -> po_meta_field k final = po_meta_field k (merge obj0 (JObj patch))).
Proof. exact po_complete_sub. Qed.
Print Assumptions C08_merge_complete_sub.

(* "the transformations take their whole effect" is false of the faithful model with a status subresource (finding F802):
   a transformation moves spec.token into status.token; from_diff answers one `move` op (its law holds on the instance);
   every request is accepted and nothing is carried; without the subresource the spec loses the token, with it the token
   stays in the spec *)
Theorem C08_fns_complete_sub_refuted :
  let b0 := JObj [("metadata", JObj [("uid", JStr "uid-1")]); ("spec", JObj [("token", JStr "t")]); ("status", JObj [])] in
  let obj0 := po_stamp (po_ex_rvs 0) b0 in
  let to_be := JObj [("metadata", JObj [("uid", JStr "uid-1"); ("resourceVersion", JNum 0)]); ("spec", JObj []); ("status", JObj [("token", JStr "t")])] in
  let fn := mkFn 0 (fun _ => Ok to_be) in
  let diff := fun _ _ => [OMove "/spec/token" "/status/token"] in
  apply_ops (diff obj0 to_be) obj0 = Some to_be /\
  forall has_sub,
    let r := patch_obj po_world (po_wserve po_ex_rvs (fun _ c => c) has_sub 9 (fun o => o)) diff has_sub [] [fn] (Some obj0) (mkW (Some obj0) 0 0 []) in
    po_all_ok (r_log r) = true /\ (exists b, r_out r = Returned b None) /\
    exists final, w_obj (r_srv r) = Some final /\ jp_get final ["status"; "token"] = Some (JStr "t") /\
                  jp_get final ["spec"; "token"] = (if has_sub then Some (JStr "t") else None).
Proof. exact po_ex_move_across_split. Qed.
Print Assumptions C08_fns_complete_sub_refuted.

(* ... and holds when all the ops lie on one side of the split: the single JSON batch carries the whole diff, the server
   computes the full result [to_be] and persists the addressed side of it (nothing of that side is lost) *)
Theorem C08_fns_complete_sub_partial : forall rvs slip foreign diff,
  (forall n, jeqb (rvs n) (rvs n) = true) ->
  (forall a b, apply_ops (diff a b) a = Some b) ->
  forall fns b0 c0 to_be,
    slip <> 0%nat ->
    let obj0 := po_stamp (rvs c0) b0 in
    po_run_fns fns obj0 = Ok to_be -> fns <> [] ->
    let ops := diff obj0 to_be in
    po_status_ops true ops = [] \/ po_body_ops true ops = [] ->
    let r := patch_obj po_world (po_wserve rvs (fun _ c => c) true slip foreign) diff true [] fns (Some obj0) (mkW (Some obj0) c0 0 []) in
    let final := match ops with
                 | [] => obj0
                 | _ => match po_status_ops true ops with
                        | [] => po_stamp (rvs (Datatypes.S c0)) (po_with_status (po_status_of obj0) to_be)
                        | _ => po_stamp (rvs (Datatypes.S c0)) (po_with_status (po_status_of to_be) obj0)
                        end
                 end in
    w_obj (r_srv r) = Some final /\ (exists b, r_out r = Returned b None) /\ po_all_ok (r_log r) = true.
Proof. exact po_complete_sub_fns. Qed.
Print Assumptions C08_fns_complete_sub_partial.

(* whoever else writes — edit, delete, delete-and-recreate under the same name, at any position: a call that carries
   transformations only writes to an object with the uid it was computed for, or leaves the server unchanged *)
Theorem C08_lands_on_same_object_fns_only : forall rvs post has_sub slip foreign diff uid,
  (forall a b, jeqb (rvs a) (rvs b) = true -> a = b) ->
  (forall old cand, po_uid_field old = Some uid -> po_uid_field (post old cand) = Some uid) ->
  forall fns b0 c0,
    let obj0 := po_stamp (rvs c0) b0 in
    po_uid_field obj0 = Some uid ->
    let r := patch_obj po_world (po_wserve rvs post has_sub slip foreign) diff has_sub [] fns (Some obj0) (mkW (Some obj0) c0 0 []) in
    forall e, In e (w_hist (r_srv r)) ->
      match we_resp e with
      | ROk new => exists seen, we_before e = Some seen /\ po_uid_field seen = Some uid /\ po_uid_field new = Some uid
      | _ => we_after e = we_before e
      end.
Proof. exact po_fns_only_same_object. Qed.
Print Assumptions C08_lands_on_same_object_fns_only.

(* 404 at the level of application.patch_and_check: no exception, no version to wait for, nothing remains *)
Theorem C08_patch_and_check_404_silent : forall S serve diff has_sub patch fns orig (s0 : S) q,
  po_patch_truthy patch fns = true ->
  let r := patch_obj S serve diff has_sub patch fns orig s0 in
  In (q, RNotFound) (r_log r) ->
  po_patch_and_check S serve diff has_sub patch fns orig s0 = PcOk None None (r_log r) (r_srv r).
Proof. exact po_pc_404_silent. Qed.
Print Assumptions C08_patch_and_check_404_silent.

(* ---------- the carry-over from cycle to cycle (Model/Carry.v: process_resource_event's memory.remaining_patch) ---------- *)

(* never lost: what a 422 put into the per-object memory is, after EVERY further sequence of cycles that keeps the object
   (conflicts, exceptions escaping the cycle, throttled cycles, new fns appended, ...), still carried, or was applied, or
   was found satisfied *)
Theorem C08_fns_never_lost : forall tr1 new landed tr2 s0 s',
  cy_run s0 (tr1 ++ Cyc new (OConflict landed) :: tr2) = Some s' ->
  forallb cy_keeps tr2 = true ->
  forall x, In x new -> In x (cy_mem s') \/ In x (cy_applied s') \/ In x (cy_sat s').
Proof. exact cy_carried_never_lost. Qed.
Print Assumptions C08_fns_never_lost.

(* progress: from any state one accepted cycle empties the memory and everything carried (and new) is on the server *)
Theorem C08_fns_delivered : forall s new,
  exists s', cy_step s (Cyc new OApplied) = Some s' /\ cy_mem s' = [] /\
             (forall x, In x (cy_mem s) \/ In x new -> In x (cy_applied s')) /\ cy_sat s' = cy_sat s.
Proof. exact cy_applied_delivers. Qed.
Print Assumptions C08_fns_delivered.

(* exactly once: under fresh function identities and no batch that is accepted by the server but reported failed *)
Theorem C08_fns_exactly_once : forall tr1 new tr2 s',
  cy_run_fresh cy_init (tr1 ++ Cyc new (OConflict false) :: tr2) = Some s' ->
  forallb cy_clean tr1 = true -> forallb cy_clean tr2 = true -> forallb cy_keeps tr2 = true ->
  forall x, In x new -> count_occ Nat.eq_dec (cy_mem s' ++ cy_applied s' ++ cy_sat s') x = 1.
Proof. exact cy_exactly_once. Qed.
Print Assumptions C08_fns_exactly_once.

Theorem C08_fns_not_duplicated_partial : forall tr s s',
  cy_run_fresh s tr = Some s' -> forallb cy_clean tr = true -> NoDup (cy_known s) -> NoDup (cy_known s').
Proof. exact cy_not_duplicated. Qed.
Print Assumptions C08_fns_not_duplicated_partial.

(* without the second hypothesis "applied at most once" is false of the faithful model: a JSON-patch batch accepted by the
   server whose call still fails (lost response, failing /status batch) leaves the fns in the memory and the next cycle
   applies them again (harmless for idempotent transformations, such as kopf's own finalizer edits) *)
Theorem C08_fns_not_duplicated_refuted :
  exists tr s', cy_run_fresh cy_init tr = Some s' /\ forallb cy_keeps tr = true /\
                count_occ Nat.eq_dec (cy_applied s') 1 = 2.
Proof. exact cy_not_duplicated_refuted. Qed.
Print Assumptions C08_fns_not_duplicated_refuted.
