(* C02 / C07 at the level of whole histories of the closed loop (Model/CycleWorld.v, tied to the real
   operator by trace acceptance, see C03).  Statements only. *)
From Coq Require Import Arith List Bool.
From KV Require Import Model.CycleWorld Proofs.CycleWorld Proofs.CycleOnce.
Import ListNotations.

(* The invariant — queue ordered by version; every queued view that is at least as new as the worker's own
   last patch carries the server's CURRENT progress records — holds right after an operator process has listed
   the object and in every world reached from there through any interleaving of external edits, time, worker
   cycles, sleeps and daemon exits, absent the excluded events (kill / lost write / barrier released by timeout). *)
Theorem C02_history_invariant : forall hc hu lc T w, strict_reach hc hu lc T w -> Inv w.
Proof. exact strict_reach_inv. Qed.
Print Assumptions C02_history_invariant.

(* In every such world, a worker cycle invokes a handler only if the SERVER's current record of that handler is
   not finished, and with the retry number recorded on the server: no finished handler is ever re-run, whatever
   stale events are still queued (this is also C07's barrier: the view is never older than the own last write). *)
Theorem C02_no_rerun_in_history : forall hc hu lc T w o waited lost w' h r e out,
  Inv w -> strict w (Proc o waited lost) -> step hc hu lc T w (Proc o waited lost) = Some w' ->
  In (h, r, e, out) (skipn (List.length (w_log w)) (w_log w')) ->
  (forall ok, rget h (o_recs (w_srv w)) <> Some (HDone ok))
  /\ r = retries_of (match rget h (o_recs (w_srv w)) with Some s => s | None => HOpen 0 0 end).
Proof. exact invoked_on_current_progress. Qed.
Print Assumptions C02_no_rerun_in_history.

(* An inconsistent worker (own patch not yet echoed, deadline not reached) invokes nothing at all. *)
Theorem C07_inconsistent_invokes_nothing : forall hc hu lc init now nf carried v oracle,
  d_invoked (process_at hc hu lc init now nf carried false v oracle) = [].
Proof. exact inconsistent_invokes_nothing. Qed.
Print Assumptions C07_inconsistent_invokes_nothing.

(* "Absent crashes, lost API responses and echo delays beyond the consistency timeout, every handler succeeds at
   most once per cycle": along EVERY strict history, the number of successful invocations of a handler since its
   progress record was last absent from the object (records are removed only when a cycle is closed or superseded)
   never exceeds one, and after a success the object carries its `success` record. *)
Theorem C02_once_per_cycle : forall hc hu lc T, NoDup (hc ++ hu) ->
  forall w c, counted hc hu lc T w c -> forall h, In h (owned hc hu) ->
  c h <= 1 /\ (c h = 1 -> rget h (o_recs (w_srv w)) = Some (HDone true)).
Proof. exact at_most_one_success_between_purges. Qed.
Print Assumptions C02_once_per_cycle.
