(* C05 — every event maps to exactly one cause; handler kinds are mutually exclusive.
   Only statements here; model in Model/Causes.v, proofs in Proofs/Causes.v.
   Quantification: atoms range over all 2^6 valuations (finite domain: "unbounded" only in the trivial
   sense); handler lists [hs], the match/prematch oracles inside them, and JSON bodies are unbounded. *)
From Coq Require Import ZArith List String Bool Ascii.
From KV Require Import Base.Json Base.Dicts Model.Causes Proofs.Causes.
Import ListNotations.
Open Scope string_scope.
Open Scope list_scope.

(* ---------- one cause per event ---------- *)

(* detect is a function, its answer satisfies the guard of the property's precedence list, and no
   other reason's guard holds: exactly one cause *)
Theorem C05_total_unique : forall a,
  guard (fst (detect a)) a = true /\ (forall r, guard r a = true -> r = fst (detect a)).
Proof. exact total_unique. Qed.
Print Assumptions C05_total_unique.

(* the seven-line decision list, each line under the negations of all earlier guards *)
Theorem C05_precedence : forall a,
  (a_gone a = true -> fst (detect a) = Gone) /\
  (a_gone a = false -> a_deleting a = true -> a_blocked a = false -> fst (detect a) = Free) /\
  (a_gone a = false -> a_deleting a = true -> a_blocked a = true -> fst (detect a) = Delete) /\
  (a_gone a = false -> a_deleting a = false -> a_old_none a = true -> fst (detect a) = Create) /\
  (a_gone a = false -> a_deleting a = false -> a_old_none a = false -> a_diff_empty a = true -> a_initial a = true ->
     fst (detect a) = Resume) /\
  (a_gone a = false -> a_deleting a = false -> a_old_none a = false -> a_diff_empty a = true -> a_initial a = false ->
     fst (detect a) = Noop) /\
  (a_gone a = false -> a_deleting a = false -> a_old_none a = false -> a_diff_empty a = false ->
     fst (detect a) = Update).
Proof. exact precedence. Qed.
Print Assumptions C05_precedence.

(* non-vacuity: each of the seven causes is produced by some valuation *)
Theorem C05_every_reason_reachable : forall r, exists a, fst (detect a) = r.
Proof. exact every_reason_reachable. Qed.
Print Assumptions C05_every_reason_reachable.

(* the first-sight flag handed to the handlers: dropped on creation, untouched otherwise *)
Theorem C05_initial_flag : forall a,
  snd (detect a) = (if reason_eqb (fst (detect a)) Create then false else a_initial a).
Proof. exact initial_flag. Qed.
Print Assumptions C05_initial_flag.

(* ---------- which handlers run: for EVERY registry [hs] and EVERY outcome of the filters ---------- *)

(* exact characterisation of the invoked list (soundness / completeness up to handler identity / no repeats) *)
Theorem C05_invoked_sound : forall r i d hs h, In h (invoked r i d hs) ->
  In h hs /\ is_handler_reason r = true /\ selectable r i d h.
Proof. exact invoked_sound. Qed.
Print Assumptions C05_invoked_sound.

Theorem C05_invoked_complete : forall r i d hs h, In h hs -> is_handler_reason r = true -> selectable r i d h ->
  exists h', In h' (invoked r i d hs) /\ h_key h' = h_key h.
Proof. exact invoked_complete. Qed.
Print Assumptions C05_invoked_complete.

Theorem C05_invoked_once : forall r i d hs, NoDup (map h_key (invoked r i d hs)).
Proof. exact invoked_once. Qed.
Print Assumptions C05_invoked_once.

Theorem C05_no_create_update_when_deleting : forall a hs h,
  a_deleting a = true -> In h (invoked_of a hs) -> h_reason h <> Some Create /\ h_reason h <> Some Update.
Proof. exact no_create_update_when_deleting. Qed.
Print Assumptions C05_no_create_update_when_deleting.

Theorem C05_delete_only_when_blocked : forall a hs h,
  In h (invoked_of a hs) -> h_reason h = Some Delete ->
  a_gone a = false /\ a_deleting a = true /\ a_blocked a = true.
Proof. exact delete_only_when_blocked. Qed.
Print Assumptions C05_delete_only_when_blocked.

Theorem C05_reactor_reasons_invoke_nothing : forall r i d hs, In r reactor_reasons -> invoked r i d hs = [].
Proof. exact reactor_reasons_invoke_nothing. Qed.
Print Assumptions C05_reactor_reasons_invoke_nothing.

(* the same on the atoms: gone, released and no-op events invoke nothing *)
Theorem C05_gone_released_noop_invoke_nothing : forall a hs,
  (a_gone a = true \/
   (a_deleting a = true /\ a_blocked a = false) \/
   (a_deleting a = false /\ a_old_none a = false /\ a_diff_empty a = true /\ a_initial a = false)) ->
  invoked_of a hs = [].
Proof. exact atoms_reactor_nothing. Qed.
Print Assumptions C05_gone_released_noop_invoke_nothing.

(* by decorator (kopf/on.py): the conditions under which a handler of each kind can be invoked *)
Theorem C05_kinds_exclusive : forall a hs k key pm m,
  In (decl_of_kind k key pm m) (invoked_of a hs) ->
  match k with
  | KCreate => a_gone a = false /\ a_deleting a = false /\ a_old_none a = true
  | KUpdate => a_gone a = false /\ a_deleting a = false /\ a_old_none a = false /\ a_diff_empty a = false
  | KDelete _ => a_gone a = false /\ a_deleting a = true /\ a_blocked a = true
  | KResume del => a_initial a = true /\ a_gone a = false /\
                   (a_deleting a = false -> a_old_none a = false) /\
                   (a_deleting a = true -> del = Some true /\ a_blocked a = true)
  | KField => fst (detect a) <> Noop /\ fst (detect a) <> Free /\ fst (detect a) <> Gone
  end.
Proof. exact kinds_exclusive. Qed.
Print Assumptions C05_kinds_exclusive.

(* on.field / on.resume(deleted=True) handlers carry no reason: "only deletion handlers run on an object marked
   for deletion" is FALSE of the faithful model (witness: an on.field handler under the delete cause) ... *)
Theorem C05_only_delete_handlers_when_deleting_refuted : exists a hs h,
  a_deleting a = true /\ In h (invoked_of a hs) /\ h = decl_of_kind KField 0 true true.
Proof. exact field_under_delete_refuted. Qed.
Print Assumptions C05_only_delete_handlers_when_deleting_refuted.

(* ... what does hold: under the delete cause only, held by the finalizer, and only handlers declared for
   `delete` or for no reason whose filters (incl. the field-change test) accepted *)
Theorem C05_only_delete_handlers_when_deleting_partial : forall a hs h,
  a_deleting a = true -> In h (invoked_of a hs) ->
  fst (detect a) = Delete /\ a_blocked a = true /\ a_gone a = false /\
  (h_reason h = Some Delete \/ h_reason h = None) /\ h_match h = true.
Proof. exact when_deleting_partial. Qed.
Print Assumptions C05_only_delete_handlers_when_deleting_partial.

(* ---------- composition with real bodies (all JSON bodies) ---------- *)

(* the deletion atom is exactly "metadata.deletionTimestamp present and not null" *)
Theorem C05_deleting_from_body : forall body,
  is_deletion_ongoing body = Ok true <-> exists v, deletion_ts body = Some v /\ v <> JNull.
Proof. exact ongoing_spec. Qed.
Print Assumptions C05_deleting_from_body.

(* the finalizer atom is list membership — for a finalizers LIST ... *)
Theorem C05_blocked_from_body_partial : forall fin body l, finalizers_of body = Some (JList l) ->
  is_deletion_blocked fin body = Ok (existsb (is_fin fin) l) /\
  (is_deletion_blocked fin body = Ok true <-> In (JStr fin) l).
Proof. exact blocked_list_partial. Qed.
Print Assumptions C05_blocked_from_body_partial.

(* ... and NOT in general: a str-valued field is searched for a substring (never delivered by an API server) *)
Theorem C05_blocked_from_body_refuted : exists fin body s,
  finalizers_of body = Some (JStr s) /\ s <> fin /\ is_deletion_blocked fin body = Ok true.
Proof. exact blocked_exact_refuted. Qed.
Print Assumptions C05_blocked_from_body_refuted.

(* detect_changing_cause on a body = the decision list on the atoms read from that body *)
Theorem C05_from_body : forall fin ev body on de ini r i,
  detect_body fin ev body on de ini = Ok (r, i) ->
  (ev = EvDeleted /\ r = Gone /\ i = ini) \/
  (ev <> EvDeleted /\ exists dl bl,
      is_deletion_ongoing body = Ok dl /\ is_deletion_blocked fin body = Ok bl /\
      (r, i) = detect (Build_atoms false dl bl on de ini)).
Proof. exact from_body. Qed.
Print Assumptions C05_from_body.

(* cause detection and the pass read nothing of a body but metadata.deletionTimestamp / metadata.finalizers
   ("from the object's state alone": of the body, only these two fields; the rest enters through old/diff) *)
Theorem C05_reads_only_core : forall fin ev body on de ini cons hs,
  detect_body fin ev (core_body body) on de ini = detect_body fin ev body on de ini /\
  cycle fin ev (core_body body) on de ini cons hs = cycle fin ev body on de ini cons hs.
Proof. intros; split; [exact (core_detect_body fin ev body on de ini) | exact (core_cycle fin ev body on de ini cons hs)]. Qed.
Print Assumptions C05_reads_only_core.

(* one pass of process_resource_causes over a body: whatever it invokes is in the invoked list of the cause
   detected from that body (finalizer passes, the stealth filter and the consistency gate only remove) *)
Theorem C05_pass_sound : forall fin ev body on de ini cons hs out h,
  cycle fin ev body on de ini cons hs = Ok out -> In h (co_invoked out) ->
  exists r i dl bl,
    detect_body fin ev body on de ini = Ok (r, i) /\
    is_deletion_ongoing body = Ok dl /\ is_deletion_blocked fin body = Ok bl /\
    co_cause out = Some (r, i) /\ cons = true /\ prematch_any hs = true /\
    (requires_finalizer hs = true -> bl = true \/ dl = true) /\
    (requires_finalizer hs = false -> bl = false) /\
    In h (invoked r i dl hs).
Proof. exact cycle_sound. Qed.
Print Assumptions C05_pass_sound.

Theorem C05_pass_no_create_update_when_deleting : forall fin ev body on de ini cons hs out h,
  cycle fin ev body on de ini cons hs = Ok out -> In h (co_invoked out) ->
  (h_reason h = Some Create \/ h_reason h = Some Update) ->
  ev <> EvDeleted /\ (deletion_ts body = None \/ deletion_ts body = Some JNull).
Proof. exact cycle_no_create_update_when_deleting. Qed.
Print Assumptions C05_pass_no_create_update_when_deleting.

Theorem C05_pass_delete_only_when_blocked : forall fin ev body on de ini cons hs out h,
  cycle fin ev body on de ini cons hs = Ok out -> In h (co_invoked out) -> h_reason h = Some Delete ->
  ev <> EvDeleted /\
  (exists v, deletion_ts body = Some v /\ v <> JNull) /\
  is_deletion_blocked fin body = Ok true /\
  (forall l, finalizers_of body = Some (JList l) -> In (JStr fin) l).
Proof. exact cycle_delete_only_when_blocked. Qed.
Print Assumptions C05_pass_delete_only_when_blocked.

Theorem C05_pass_gone_released_noop_invoke_nothing : forall fin ev body on de ini cons hs out,
  cycle fin ev body on de ini cons hs = Ok out ->
  (ev = EvDeleted \/
   (is_deletion_ongoing body = Ok true /\ is_deletion_blocked fin body = Ok false) \/
   (is_deletion_ongoing body = Ok false /\ on = false /\ de = true /\ ini = false)) ->
  co_invoked out = [].
Proof. exact cycle_reactor_nothing. Qed.
Print Assumptions C05_pass_gone_released_noop_invoke_nothing.

Theorem C05_pass_resume : forall fin ev body on de ini cons hs out h,
  cycle fin ev body on de ini cons hs = Ok out -> In h (co_invoked out) -> truthy (h_initial h) = true ->
  ini = true /\ (is_deletion_ongoing body = Ok false -> on = false) /\
  ((exists v, deletion_ts body = Some v /\ v <> JNull) -> truthy (h_deleted h) = true).
Proof. exact cycle_resume. Qed.
Print Assumptions C05_pass_resume.

Theorem C05_finalizer_pass_invokes_nothing : forall fin ev body on de ini cons hs out,
  cycle fin ev body on de ini cons hs = Ok out -> co_block out = true \/ co_allow out = true -> co_invoked out = [].
Proof. exact cycle_finalizer_pass_invokes_nothing. Qed.
Print Assumptions C05_finalizer_pass_invokes_nothing.

(* the finalizer transformations establish exactly what the detector reads afterwards *)
Theorem C05_block_then_blocked : forall fin body body',
  block_deletion fin body = Ok body' -> is_deletion_blocked fin body' = Ok true.
Proof. exact block_then_blocked. Qed.
Print Assumptions C05_block_then_blocked.

Theorem C05_allow_then_unblocked : forall fin body body',
  allow_deletion fin body = Ok body' -> is_deletion_blocked fin body' = Ok false.
Proof. exact allow_then_unblocked. Qed.
Print Assumptions C05_allow_then_unblocked.

(* non-vacuity on concrete bodies and a six-handler registry (one of each decorator kind) *)
Theorem C05_example_delete_pass :
  exists out, cycle ex_fin EvModified ex_body_deleting false false true true ex_handlers = Ok out /\
              keys_of (co_invoked out) = [2; 4; 5]%nat /\ co_cause out = Some (Delete, true).
Proof. exact ex_delete_pass. Qed.
Print Assumptions C05_example_delete_pass.

Theorem C05_example_update_pass :
  exists out, cycle ex_fin EvModified ex_body_live false false true true ex_handlers = Ok out /\
              keys_of (co_invoked out) = [1; 3; 4; 5]%nat /\ co_cause out = Some (Update, true).
Proof. exact ex_update_pass. Qed.
Print Assumptions C05_example_update_pass.
