(* C05 — every event maps to exactly one cause; handler kinds are mutually exclusive.
   Only statements here; model in Model/Causes.v, proofs in Proofs/Causes.v.

   CLAUSE AUDIT (statement and quantifier of properties.jsonl C05)
   ---------------------------------------------------------------------------------------------------------
   clause                                                     | stated by
   ---------------------------------------------------------------------------------------------------------
   S1 every event -> exactly one cause                        | C05_total_unique (full); C05_every_reason_reachable
   S2 "from the object's state alone"                         | C05_reads_only_core (of the BODY only deletionTimestamp and
                                                              |   finalizers are read); C05_deleting_from_body (full);
                                                              |   C05_blocked_from_body_partial + _refuted (str-valued
                                                              |   finalizers: substring test; no finding: an API server
                                                              |   never delivers that); stored state / essential difference
                                                              |   are INPUTS (C04 models essence and diff); the first-sight
                                                              |   flag is process memory, modelled: C05_first_sight_flag
   S3 precedence gone > released > deletion > creation >      | C05_precedence (full, 7 lines with all earlier negations),
      resume > no-op > update                                 |   C05_from_body (on real bodies), C05_initial_flag
   S4 create/update handlers never on an object marked        | C05_no_create_update_when_deleting (atoms), C05_pass_no_create_
      for deletion                                            |   update_when_deleting (all JSON bodies), C05_history_exclusive
   S5 deletion handlers only while marked AND held by the     | C05_delete_only_when_blocked, C05_pass_delete_only_when_blocked,
      framework's finalizer                                   |   C05_history_exclusive
   S6 no change handler for gone / released / no-op           | C05_reactor_reasons_invoke_nothing, C05_gone_released_noop_
                                                              |   invoke_nothing, C05_pass_gone_released_noop_invoke_nothing,
                                                              |   C05_history_exclusive (is_handler_reason of every invocation)
   S7 "handler kinds are mutually exclusive" (title)          | C05_kinds_exclusive (by decorator), C05_invoked_sound/_complete/
                                                              |   _once; on.field / on.resume(deleted=True) carry no reason:
                                                              |   C05_only_delete_handlers_when_deleting_refuted + _partial
                                                              |   (documented behaviour, stated, no finding)
   Q1 every combination of event type, deletion mark,         | all theorems over `atoms` quantify over the 2^6 valuations;
      finalizer presence, stored state, essential             |   event types None/ADDED/MODIFIED/DELETED in detect_body/cycle;
      difference, first-sight flag                            |   finite domain: "unbounded" only in the trivial sense
   Q2 every object history in the closed loop                 | C05_history_exclusive: every invocation of every label list of
      (was: monitored only, pass_hist)                        |   the closed-loop LTS (user edits, deletion, foreign finalizers,
                                                              |   stripped stored state, restarts, processed events with ANY —
                                                              |   also stale — object, any registry / filter outcomes / handler
                                                              |   outcomes); what must NOT change: C05_operator_preserves,
                                                              |   C05_stored_state_stays; first-sight over histories:
                                                              |   C05_no_first_sight_after_handled; JSON pass = atoms pass:
                                                              |   C05_pass_is_atoms_pass.  Tie: T:world_trace (real
                                                              |   process_resource_event) + monitors on every pass.
   ---------------------------------------------------------------------------------------------------------
   not covered: event batching / stale views (C07), which handlers of the selected ones actually run in a pass
   (oracle [ran]: C02), handler outcomes (oracles [done], [nodelays]: C11), daemons' share of the finalizer decision
   (C09), F3-style differences between "diff empty" and "old == new" (C04), sync handlers, the API server (the
   harness's own: merge-patch + finalizer functions on the current object, removal when deleting without finalizers).

   Quantification: atoms range over all 2^6 valuations; handler lists [hs], the match/prematch oracles inside them,
   JSON bodies, and label lists of the closed loop are unbounded. *)
From Coq Require Import ZArith List String Bool Ascii.
From KV Require Import Base.Json Base.Dicts Model.Causes Proofs.Causes.
Import ListNotations.
Open Scope string_scope.
Open Scope list_scope.

(* ---------- one cause per event ---------- *)

(* detect is a function, its answer satisfies the guard of the property's precedence list, and no
   other reason's guard holds: exactly one cause *)
Theorem C05_total_unique : forall a,
  guard (fst (detect a)) a = true /\ (forall r, guard r a = true -> r = fst (detect a)).
Proof. exact total_unique. Qed.
Print Assumptions C05_total_unique.

(* the seven-line decision list, each line under the negations of all earlier guards *)
Theorem C05_precedence : forall a,
  (a_gone a = true -> fst (detect a) = Gone) /\
  (a_gone a = false -> a_deleting a = true -> a_blocked a = false -> fst (detect a) = Free) /\
  (a_gone a = false -> a_deleting a = true -> a_blocked a = true -> fst (detect a) = Delete) /\
  (a_gone a = false -> a_deleting a = false -> a_old_none a = true -> fst (detect a) = Create) /\
  (a_gone a = false -> a_deleting a = false -> a_old_none a = false -> a_diff_empty a = true -> a_initial a = true ->
     fst (detect a) = Resume) /\
  (a_gone a = false -> a_deleting a = false -> a_old_none a = false -> a_diff_empty a = true -> a_initial a = false ->
     fst (detect a) = Noop) /\
  (a_gone a = false -> a_deleting a = false -> a_old_none a = false -> a_diff_empty a = false ->
     fst (detect a) = Update).
Proof. exact precedence. Qed.
Print Assumptions C05_precedence.

(* non-vacuity: each of the seven causes is produced by some valuation *)
Theorem C05_every_reason_reachable : forall r, exists a, fst (detect a) = r.
Proof. exact every_reason_reachable. Qed.
Print Assumptions C05_every_reason_reachable.

(* the first-sight flag handed to the handlers: dropped on creation, untouched otherwise *)
Theorem C05_initial_flag : forall a,
  snd (detect a) = (if reason_eqb (fst (detect a)) Create then false else a_initial a).
Proof. exact initial_flag. Qed.
Print Assumptions C05_initial_flag.

(* ---------- which handlers run: for EVERY registry [hs] and EVERY outcome of the filters ---------- *)

(* exact characterisation of the invoked list (soundness / completeness up to handler identity / no repeats) *)
Theorem C05_invoked_sound : forall r i d hs h, In h (invoked r i d hs) ->
  In h hs /\ is_handler_reason r = true /\ selectable r i d h.
Proof. exact invoked_sound. Qed.
Print Assumptions C05_invoked_sound.

Theorem C05_invoked_complete : forall r i d hs h, In h hs -> is_handler_reason r = true -> selectable r i d h ->
  exists h', In h' (invoked r i d hs) /\ h_key h' = h_key h.
Proof. exact invoked_complete. Qed.
Print Assumptions C05_invoked_complete.

Theorem C05_invoked_once : forall r i d hs, NoDup (map h_key (invoked r i d hs)).
Proof. exact invoked_once. Qed.
Print Assumptions C05_invoked_once.

Theorem C05_no_create_update_when_deleting : forall a hs h,
  a_deleting a = true -> In h (invoked_of a hs) -> h_reason h <> Some Create /\ h_reason h <> Some Update.
Proof. exact no_create_update_when_deleting. Qed.
Print Assumptions C05_no_create_update_when_deleting.

Theorem C05_delete_only_when_blocked : forall a hs h,
  In h (invoked_of a hs) -> h_reason h = Some Delete ->
  a_gone a = false /\ a_deleting a = true /\ a_blocked a = true.
Proof. exact delete_only_when_blocked. Qed.
Print Assumptions C05_delete_only_when_blocked.

Theorem C05_reactor_reasons_invoke_nothing : forall r i d hs, In r reactor_reasons -> invoked r i d hs = [].
Proof. exact reactor_reasons_invoke_nothing. Qed.
Print Assumptions C05_reactor_reasons_invoke_nothing.

(* the same on the atoms: gone, released and no-op events invoke nothing *)
Theorem C05_gone_released_noop_invoke_nothing : forall a hs,
  (a_gone a = true \/
   (a_deleting a = true /\ a_blocked a = false) \/
   (a_deleting a = false /\ a_old_none a = false /\ a_diff_empty a = true /\ a_initial a = false)) ->
  invoked_of a hs = [].
Proof. exact atoms_reactor_nothing. Qed.
Print Assumptions C05_gone_released_noop_invoke_nothing.

(* by decorator (kopf/on.py): the conditions under which a handler of each kind can be invoked *)
Theorem C05_kinds_exclusive : forall a hs k key pm m,
  In (decl_of_kind k key pm m) (invoked_of a hs) ->
  match k with
  | KCreate => a_gone a = false /\ a_deleting a = false /\ a_old_none a = true
  | KUpdate => a_gone a = false /\ a_deleting a = false /\ a_old_none a = false /\ a_diff_empty a = false
  | KDelete _ => a_gone a = false /\ a_deleting a = true /\ a_blocked a = true
  | KResume del => a_initial a = true /\ a_gone a = false /\
                   (a_deleting a = false -> a_old_none a = false) /\
                   (a_deleting a = true -> del = Some true /\ a_blocked a = true)
  | KField => fst (detect a) <> Noop /\ fst (detect a) <> Free /\ fst (detect a) <> Gone
  end.
Proof. exact kinds_exclusive. Qed.
Print Assumptions C05_kinds_exclusive.

(* on.field / on.resume(deleted=True) handlers carry no reason: "only deletion handlers run on an object marked
   for deletion" is FALSE of the faithful model (witness: an on.field handler under the delete cause) ... *)
Theorem C05_only_delete_handlers_when_deleting_refuted : exists a hs h,
  a_deleting a = true /\ In h (invoked_of a hs) /\ h = decl_of_kind KField 0 true true.
Proof. exact field_under_delete_refuted. Qed.
Print Assumptions C05_only_delete_handlers_when_deleting_refuted.

(* ... what does hold: under the delete cause only, held by the finalizer, and only handlers declared for
   `delete` or for no reason whose filters (incl. the field-change test) accepted *)
Theorem C05_only_delete_handlers_when_deleting_partial : forall a hs h,
  a_deleting a = true -> In h (invoked_of a hs) ->
  fst (detect a) = Delete /\ a_blocked a = true /\ a_gone a = false /\
  (h_reason h = Some Delete \/ h_reason h = None) /\ h_match h = true.
Proof. exact when_deleting_partial. Qed.
Print Assumptions C05_only_delete_handlers_when_deleting_partial.

(* ---------- composition with real bodies (all JSON bodies) ---------- *)

(* the deletion atom is exactly "metadata.deletionTimestamp present and not null" *)
Theorem C05_deleting_from_body : forall body,
  is_deletion_ongoing body = Ok true <-> exists v, deletion_ts body = Some v /\ v <> JNull.
Proof. exact ongoing_spec. Qed.
Print Assumptions C05_deleting_from_body.

(* the finalizer atom is list membership — for a finalizers LIST ... *)
Theorem C05_blocked_from_body_partial : forall fin body l, finalizers_of body = Some (JList l) ->
  is_deletion_blocked fin body = Ok (existsb (is_fin fin) l) /\
  (is_deletion_blocked fin body = Ok true <-> In (JStr fin) l).
Proof. exact blocked_list_partial. Qed.
Print Assumptions C05_blocked_from_body_partial.

(* ... and NOT in general: a str-valued field is searched for a substring (never delivered by an API server) *)
Theorem C05_blocked_from_body_refuted : exists fin body s,
  finalizers_of body = Some (JStr s) /\ s <> fin /\ is_deletion_blocked fin body = Ok true.
Proof. exact blocked_exact_refuted. Qed.
Print Assumptions C05_blocked_from_body_refuted.

(* detect_changing_cause on a body = the decision list on the atoms read from that body *)
Theorem C05_from_body : forall fin ev body on de ini r i,
  detect_body fin ev body on de ini = Ok (r, i) ->
  (ev = EvDeleted /\ r = Gone /\ i = ini) \/
  (ev <> EvDeleted /\ exists dl bl,
      is_deletion_ongoing body = Ok dl /\ is_deletion_blocked fin body = Ok bl /\
      (r, i) = detect (Build_atoms false dl bl on de ini)).
Proof. exact from_body. Qed.
Print Assumptions C05_from_body.

(* cause detection and the pass read nothing of a body but metadata.deletionTimestamp / metadata.finalizers
   ("from the object's state alone": of the body, only these two fields; the rest enters through old/diff) *)
Theorem C05_reads_only_core : forall fin ev body on de ini cons hs,
  detect_body fin ev (core_body body) on de ini = detect_body fin ev body on de ini /\
  cycle fin ev (core_body body) on de ini cons hs = cycle fin ev body on de ini cons hs.
Proof. exact reads_only_core. Qed.
Print Assumptions C05_reads_only_core.

(* one pass of process_resource_causes over a body: whatever it invokes is in the invoked list of the cause
   detected from that body (finalizer passes, the stealth filter and the consistency gate only remove) *)
Theorem C05_pass_sound : forall fin ev body on de ini cons hs out h,
  cycle fin ev body on de ini cons hs = Ok out -> In h (co_invoked out) ->
  exists r i dl bl,
    detect_body fin ev body on de ini = Ok (r, i) /\
    is_deletion_ongoing body = Ok dl /\ is_deletion_blocked fin body = Ok bl /\
    co_cause out = Some (r, i) /\ cons = true /\ prematch_any hs = true /\
    (requires_finalizer hs = true -> bl = true \/ dl = true) /\
    (requires_finalizer hs = false -> bl = false) /\
    In h (invoked r i dl hs).
Proof. exact cycle_sound. Qed.
Print Assumptions C05_pass_sound.

Theorem C05_pass_no_create_update_when_deleting : forall fin ev body on de ini cons hs out h,
  cycle fin ev body on de ini cons hs = Ok out -> In h (co_invoked out) ->
  (h_reason h = Some Create \/ h_reason h = Some Update) ->
  ev <> EvDeleted /\ (deletion_ts body = None \/ deletion_ts body = Some JNull).
Proof. exact cycle_no_create_update_when_deleting. Qed.
Print Assumptions C05_pass_no_create_update_when_deleting.

Theorem C05_pass_delete_only_when_blocked : forall fin ev body on de ini cons hs out h,
  cycle fin ev body on de ini cons hs = Ok out -> In h (co_invoked out) -> h_reason h = Some Delete ->
  ev <> EvDeleted /\
  (exists v, deletion_ts body = Some v /\ v <> JNull) /\
  is_deletion_blocked fin body = Ok true /\
  (forall l, finalizers_of body = Some (JList l) -> In (JStr fin) l).
Proof. exact cycle_delete_only_when_blocked. Qed.
Print Assumptions C05_pass_delete_only_when_blocked.

Theorem C05_pass_gone_released_noop_invoke_nothing : forall fin ev body on de ini cons hs out,
  cycle fin ev body on de ini cons hs = Ok out ->
  (ev = EvDeleted \/
   (is_deletion_ongoing body = Ok true /\ is_deletion_blocked fin body = Ok false) \/
   (is_deletion_ongoing body = Ok false /\ on = false /\ de = true /\ ini = false)) ->
  co_invoked out = [].
Proof. exact cycle_reactor_nothing. Qed.
Print Assumptions C05_pass_gone_released_noop_invoke_nothing.

Theorem C05_pass_resume : forall fin ev body on de ini cons hs out h,
  cycle fin ev body on de ini cons hs = Ok out -> In h (co_invoked out) -> truthy (h_initial h) = true ->
  ini = true /\ (is_deletion_ongoing body = Ok false -> on = false) /\
  ((exists v, deletion_ts body = Some v /\ v <> JNull) -> truthy (h_deleted h) = true).
Proof. exact cycle_resume. Qed.
Print Assumptions C05_pass_resume.

Theorem C05_finalizer_pass_invokes_nothing : forall fin ev body on de ini cons hs out,
  cycle fin ev body on de ini cons hs = Ok out -> co_block out = true \/ co_allow out = true -> co_invoked out = [].
Proof. exact cycle_finalizer_pass_invokes_nothing. Qed.
Print Assumptions C05_finalizer_pass_invokes_nothing.

(* the finalizer transformations establish exactly what the detector reads afterwards *)
Theorem C05_block_then_blocked : forall fin body body',
  block_deletion fin body = Ok body' -> is_deletion_blocked fin body' = Ok true.
Proof. exact block_then_blocked. Qed.
Print Assumptions C05_block_then_blocked.

Theorem C05_allow_then_unblocked : forall fin body body',
  allow_deletion fin body = Ok body' -> is_deletion_blocked fin body' = Ok false.
Proof. exact allow_then_unblocked. Qed.
Print Assumptions C05_allow_then_unblocked.

(* non-vacuity on concrete bodies and a six-handler registry (one of each decorator kind) *)
Theorem C05_example_delete_pass :
  exists out, cycle ex_fin EvModified ex_body_deleting false false true true ex_handlers = Ok out /\
              keys_of (co_invoked out) = [2; 4; 5]%nat /\ co_cause out = Some (Delete, true).
Proof. exact ex_delete_pass. Qed.
Print Assumptions C05_example_delete_pass.

Theorem C05_example_update_pass :
  exists out, cycle ex_fin EvModified ex_body_live false false true true ex_handlers = Ok out /\
              keys_of (co_invoked out) = [1; 3; 4; 5]%nat /\ co_cause out = Some (Update, true).
Proof. exact ex_update_pass. Qed.
Print Assumptions C05_example_update_pass.

(* ---------- the closed loop: every object history ---------- *)

(* the JSON-level pass is the atoms-level pass on the atoms read from the body (ties the history model, which is
   over abstract objects, to the pass over real bodies) *)
Theorem C05_pass_is_atoms_pass : forall fin ev body on de ini cons hs out,
  cycle fin ev body on de ini cons hs = Ok out ->
  exists dl bl, is_deletion_ongoing body = Ok dl /\ is_deletion_blocked fin body = Ok bl /\
                out = cycle_on_atoms (Build_atoms (is_deleted_event ev) dl bl on de ini) cons hs.
Proof. exact cycle_is_cycle_atoms. Qed.
Print Assumptions C05_pass_is_atoms_pass.

(* the first-sight atom is exactly noticed_by_listing /\ ~fully_handled_once of the memory recalled for the event;
   a memory is created as "listed" only by an event of the initial listing *)
Theorem C05_first_sight_flag : forall ev s m mem,
  a_initial (atoms_of_snap ev s m) = (am_listed m && negb (am_handled m)) /\
  (recall None ev = {| am_listed := is_listing ev; am_handled := false |}) /\ recall (Some mem) ev = mem.
Proof. exact first_sight_flag. Qed.
Print Assumptions C05_first_sight_flag.

(* EVERY invocation of EVERY history: classified by the precedence list on the event's own object and the memory of
   that moment, and exclusive by kind — for any interleaving of environment actions and processed events, any
   (also stale) event object, any registry, any filter outcomes, any handler outcomes *)
Theorem C05_history_exclusive : forall tr o m w iv,
  run {| w_obj := o; w_mem := m; w_log := [] |} tr = Some w -> In iv (w_log w) ->
  let s := iv_snap iv in
  is_handler_reason (iv_reason iv) = true /\
  guard (iv_reason iv) (atoms_of_snap (iv_ev iv) s (iv_mem iv)) = true /\
  h_match (iv_h iv) = true /\
  (h_reason (iv_h iv) = Some Create ->
     iv_ev iv <> EvDeleted /\ ao_deleting s = false /\ ao_last s = None /\ iv_reason iv = Create /\ iv_initial iv = false) /\
  (h_reason (iv_h iv) = Some Update ->
     iv_ev iv <> EvDeleted /\ ao_deleting s = false /\ iv_reason iv = Update /\
     exists l, ao_last s = Some l /\ l <> ao_ess s) /\
  (h_reason (iv_h iv) = Some Delete ->
     iv_ev iv <> EvDeleted /\ ao_deleting s = true /\ ao_own s = true /\ iv_reason iv = Delete) /\
  (truthy (h_initial (iv_h iv)) = true ->
     first_sight (iv_mem iv) = true /\ iv_initial iv = true /\ iv_reason iv <> Create /\
     (ao_deleting s = true -> truthy (h_deleted (iv_h iv)) = true)) /\
  (ao_deleting s = true -> iv_reason iv = Delete /\ ao_own s = true /\
                           (h_reason (iv_h iv) = Some Delete \/ h_reason (iv_h iv) = None)).
Proof. exact history_exclusive. Qed.
Print Assumptions C05_history_exclusive.

(* what a processed event must NOT change on the server: the essence, the deletion mark, foreign finalizers; the stored
   last-handled state is kept or overwritten with the essence of the event's object, never cleared; no resurrection *)
Theorem C05_operator_preserves : forall w ev snap hs c d n ran w',
  step w (Proc ev snap hs c d n ran) = Some w' ->
  match w_obj w with
  | None => w_obj w' = None
  | Some o =>
      w_obj w' = None \/
      exists o', w_obj w' = Some o' /\
        ao_ess o' = ao_ess o /\ ao_deleting o' = ao_deleting o /\ ao_foreign o' = ao_foreign o /\
        (ao_last o' = ao_last o \/ ao_last o' = Some (ao_ess snap)) /\
        (ao_last o <> None -> ao_last o' <> None)
  end.
Proof. exact proc_preserves. Qed.
Print Assumptions C05_operator_preserves.

(* hence "creation (never handled before)" cannot recur: once stored, the last-handled state stays for the object's
   whole life through every history in which nobody strips it *)
Theorem C05_stored_state_stays : forall tr w w' o, forallb (fun l => negb (is_drop l)) tr = true ->
  run w tr = Some w' -> w_obj w = Some o -> ao_last o <> None ->
  w_obj w' = None \/ exists o', w_obj w' = Some o' /\ ao_last o' <> None.
Proof. exact stored_stays. Qed.
Print Assumptions C05_stored_state_stays.

(* "resume (first sight after start)": after a handling cycle completed in this process nothing is invoked with the
   first-sight flag until the process restarts or the object's DELETED event is processed *)
Theorem C05_no_first_sight_after_handled : forall tr w w' m, forallb keeps_memory tr = true ->
  run w tr = Some w' -> w_mem w = Some m -> am_handled m = true ->
  forall iv, In iv (skipn (List.length (w_log w)) (w_log w')) -> first_sight (iv_mem iv) = false.
Proof. exact no_first_sight_after_handled. Qed.
Print Assumptions C05_no_first_sight_after_handled.

(* non-vacuity: one object's whole life (listing, finalizer pass, creation, echo, edit, restart, resume, deletion,
   release) is a history of the model, with nine invocations *)
Theorem C05_example_life :
  match ex_drive ex_world0 ex_script with
  | Some w => w_obj w = None /\
              map (fun iv => (h_key (iv_h iv), iv_reason iv)) (w_log w) =
              [(0, Create); (4, Create); (1, Update); (4, Update); (3, Resume); (4, Resume); (5, Resume); (2, Delete); (4, Delete)]%nat
  | None => False
  end.
Proof. exact ex_life. Qed.
Print Assumptions C05_example_life.
