(* C16 — persistence storages.  Only statements here; proofs in Proofs/Keys.v, Proofs/Storage.v, Proofs/StoragePurge.v.

   Clause table (statement of C16 -> what states it):
   | clause                                                      | stated by                                                   | status |
   | stored record is read back identically from the patched object | C16_roundtrip_annotations, C16_roundtrip_pending, C16_status_store_reads_merge, C16_roundtrip_status_first_store | full for the annotation progress storage (every hash, prefix, v1/v2, verbosity, id, record, body, pending patch); status progress storage: C16_status_store_reads_merge (exact: the read-back is the RFC 7386 merge of the record into the old one, every path/id/record/body) and C16_roundtrip_status_first_store (identical for a first store of a flat null-free record); smart (default) progress storage: C16_roundtrip_smart, C16_smart_store_is_ann_store (full); diff-base storages: C16_roundtrip_diffbase_annotations, C16_roundtrip_diffbase_status (full, every non-null essence incl. the empty one); other multi storages: D-tied on the same inputs + round-trip monitor |
   | can be purged completely                                    | C16_purged_completely, C16_purged_completely_status         | full for the annotation storage (fresh or any pending patch, all keys incl. v1 and -ofDRS); status storage: C16_purged_completely_status; smart (default) storage: C16_purged_completely_smart (fresh patch, every stanza path; pending patch: D-tied + monitor) |
   | never disturbs other handlers' records / other prefixes / user data | C16_isolation_annotations (store), C16_store_keeps_pending (store, any pending patch), C16_isolation_purge (purge, any pending patch), C16_isolation_touch, C16_touch_keeps_pending (touch) | full for the annotation storage; status: monitor |
   | names are valid Kubernetes names                            | C16_suffix_shape, C16_len, C16_charset, C16_valid_names_partial / _refuted (F2), C16_v1_len_partial / _refuted (F12) | partial: exactly the two recorded findings are excluded |
   | identical across restarts                                   | make_keys is a function of (prefix, v1, is-DRS, id) in the model; D:keys ties it to two fresh storage instances | by construction + monitor nondeterministic-name |
   | distinct for long ids that share a prefix                   | C16_long_distinct                                           | full, reduced to distinctness of the digests (blake2b is an oracle) | *)
From Coq Require Import ZArith NArith List String Bool Ascii.
From KV Require Import Proofs.StoragePurge.
From KV Require Import Base.Json Base.Dicts Model.Keys Model.Storage Proofs.Keys Proofs.JsonMerge Proofs.Storage.
Import ListNotations.

(* make_suffix is always '-' plus six characters of the base64 alphabet: for EVERY digest *)
Theorem C16_suffix_shape : forall d, valid_digest d ->
  suffix_of d = "-"%char :: map b64char (sextets d) /\ List.length (suffix_of d) = 7%nat.
Proof. intros d H; split; [exact (suffix_shape d H) | exact (suffix_len d H)]. Qed.
Print Assumptions C16_suffix_shape.

(* name part never longer than 63, for every handler id of any length and every hash function *)
Theorem C16_len : forall dg, (forall k, valid_digest (dg k)) ->
  forall key, (List.length (v2_name dg key) <= 63)%nat.
Proof. exact v2_name_length. Qed.
Print Assumptions C16_len.

(* over the property's id alphabet [A-Za-z0-9_./<>-] the name is over [-A-Za-z0-9_.] *)
Theorem C16_charset : forall dg, (forall k, valid_digest (dg k)) ->
  forall key, forallb is_id_char key = true -> forallb is_name_char (v2_name dg key) = true.
Proof. exact v2_name_charset. Qed.
Print Assumptions C16_charset.

(* Full statement "always a valid Kubernetes name" is false of the faithful model ... *)
Theorem C16_valid_names_refuted :
  exists k, forallb is_id_char k = true /\ k <> [] /\ valid_name (v2_name const_dg k) = false.
Proof. exact v2_name_valid_refuted. Qed.
Print Assumptions C16_valid_names_refuted.

(* ... and holds exactly under the guard on the first/last character of the id. *)
Theorem C16_valid_names_partial : forall dg, (forall k, valid_digest (dg k)) ->
  forall c k,
    forallb is_id_char (c :: k) = true ->
    is_alnum c = true ->
    ((List.length (c :: k) <= 63)%nat -> is_alnum (last (c :: k) c) = true) ->
    valid_name (v2_name dg (c :: k)) = true.
Proof. exact v2_name_valid_partial. Qed.
Print Assumptions C16_valid_names_partial.

(* long ids sharing a prefix: names distinct whenever the hashes are *)
Theorem C16_long_distinct : forall dg, (forall k, valid_digest (dg k)) ->
  forall k k', (63 < List.length k)%nat -> (63 < List.length k')%nat ->
    dg k <> dg k' -> v2_name dg k <> v2_name dg k'.
Proof. exact v2_long_distinct. Qed.
Print Assumptions C16_long_distinct.

(* v1 keys: bounded when the prefix leaves room for the hash suffix; unbounded otherwise *)
Theorem C16_v1_len_partial : forall dg, (forall k, valid_digest (dg k)) ->
  forall prefix k, prefix <> [] -> (List.length prefix + 1 + 7 <= 63)%nat ->
    (List.length (v1_key dg prefix k) <= 63)%nat.
Proof. exact v1_key_length. Qed.
Print Assumptions C16_v1_len_partial.

Theorem C16_v1_len_refuted :
  exists prefix k, prefix <> [] /\ (List.length prefix <= 189)%nat /\
                   (63 < List.length (v1_name const_dg prefix k))%nat.
Proof. exact v1_key_length_refuted. Qed.
Print Assumptions C16_v1_len_refuted.

(* Round trip through an RFC 7386 server, annotation progress storage: for EVERY hash function, prefix, v1/v2
   switch, verbosity, handler id, record and body, what is stored is read back from the patched object
   (nulls dropped unless verbose, exactly as the code filters them). *)
Theorem C16_roundtrip_annotations : forall dg prefix v1 verbose tk key record body patch,
  pstore dg (PAnn prefix v1 verbose tk) key record body (JObj []) = Ok patch ->
  pfetch dg (PAnn prefix v1 verbose tk) key (merge body patch)
  = Ok (Some (JObj (if verbose then record else drop_nulls record))).
Proof. exact ann_roundtrip. Qed.
Print Assumptions C16_roundtrip_annotations.

(* ... also when the cycle's shared patch already holds something under metadata.annotations from earlier operations
   of the same cycle - a purge (null) of this very key, another value for it, other keys: the record stored LAST is what
   is read back.  (A store that skips the write because "the object already has this value" loses to a pending purge.) *)
Theorem C16_roundtrip_pending : forall dg prefix v1 verbose tk key record body anns patch,
  nodup_keys (map fst anns) = true -> (forall k v, lookup k anns = Some v -> is_obj v = false) ->
  pstore dg (PAnn prefix v1 verbose tk) key record body (pending anns) = Ok patch ->
  pfetch dg (PAnn prefix v1 verbose tk) key (merge body patch)
  = Ok (Some (JObj (if verbose then record else drop_nulls record))).
Proof. exact ann_roundtrip_pending. Qed.
Print Assumptions C16_roundtrip_pending.

(* Purged completely: after purge - whatever is on the object, whatever is pending in the cycle's shared patch under
   metadata.annotations (nothing, or any annotations incl. a value for this very key from an earlier store) - the record
   cannot be read back from the object as patched by an RFC 7386 server, under any of the storage's keys (v2 and v1, with
   the -ofDRS mark where it applies), for every prefix, id and body. *)
Theorem C16_purged_completely : forall dg prefix v1 verbose tk key body p anns patch,
  ann_patch p anns -> nodup_keys (map fst anns) = true ->
  ppurge dg (PAnn prefix v1 verbose tk) key body p = Ok patch ->
  pfetch dg (PAnn prefix v1 verbose tk) key (merge body patch) = Ok None.
Proof. exact ann_purge_complete. Qed.
Print Assumptions C16_purged_completely.

(* the two shapes of [ann_patch]: a fresh patch, and one with pending annotations *)
Example C16_purge_shapes : ann_patch (JObj []) [] /\ forall anns, ann_patch (pending anns) anns.
Proof. split; constructor. Qed.

(* Isolation of the purge: whatever is on the object and whatever is pending in the cycle's shared patch, purging one
   record (a) leaves what is pending for every annotation that is not one of its own keys exactly as it was (another
   handler's record stored earlier in the same cycle, a user's annotation), (b) where nothing is pending for such an
   annotation an RFC 7386 server leaves it as it is on the object, and (c) top-level fields other than metadata read as
   before.  (A purge that sweeps the whole prefix, or that rebuilds metadata.annotations, fails (a) or (b).) *)
Theorem C16_isolation_purge : forall dg prefix v1 verbose tk key body p anns patch k',
  ann_patch p anns ->
  ppurge dg (PAnn prefix v1 verbose tk) key body p = Ok patch ->
  ~ In k' (full_keys dg prefix v1 body key) ->
  (exists anns', ann_patch patch anns' /\ lookup k' anns' = lookup k' anns)
  /\ (lookup k' anns = None ->
      resolve (merge body patch) (ann_path k')
      = match resolve body ["metadata"; "annotations"]%string with Some (JObj a) => lookup k' a | _ => None end)
  /\ (forall f, f <> "metadata"%string -> lookup f (obj_of (merge body patch)) = lookup f (obj_of body)).
Proof. exact ann_purge_isolated. Qed.
Print Assumptions C16_isolation_purge.

(* the premises are met by a concrete, non-trivial purge: h2's record is pending in the shared patch, h1 is purged *)
Example C16_isolation_purge_nonvacuous :
  let body := JObj [("metadata", JObj [("annotations", JObj [("kopf.zalando.org/h1", JEnc (JObj [("retries", JNum 1)]));
                                                               ("kopf.zalando.org/h2", JEnc (JObj [])); ("user", JStr "x")])]);
                    ("spec", JObj [])]%string in
  let anns := [("kopf.zalando.org/h2", JEnc (JObj [("a", JNum 2)]))]%string in
  ann_patch (pending anns) anns
  /\ ppurge const_dg (PAnn "kopf.zalando.org" false false "touch") "h1" body (pending anns)
     = Ok (pending (anns ++ [("kopf.zalando.org/h1", JNull)]%string))
  /\ ~ In "kopf.zalando.org/h2"%string (full_keys const_dg "kopf.zalando.org" false body "h1")
  /\ ~ In "user"%string (full_keys const_dg "kopf.zalando.org" false body "h1") /\ lookup "user"%string anns = None.
Proof.
  cbv zeta. split; [constructor|]. split; [vm_compute; reflexivity|].
  split; [vm_compute; intros [E|[]]; discriminate|]. split; [vm_compute; intros [E|[]]; discriminate|reflexivity].
Qed.

(* Isolation: storing a record leaves every annotation that is neither one of its own keys nor the marker, and
   every top-level field other than metadata, exactly as it was. *)
Theorem C16_isolation_annotations : forall dg prefix v1 verbose tk key record body patch k',
  pstore dg (PAnn prefix v1 verbose tk) key record body (JObj []) = Ok patch ->
  ~ In k' (full_keys dg prefix v1 body key) -> k' <> (prefix ++ "/" ++ marker_name)%string ->
  resolve (merge body patch) (ann_path k')
  = match resolve body ["metadata"; "annotations"]%string with Some (JObj a) => lookup k' a | _ => None end
  /\ (forall f, f <> "metadata"%string -> lookup f (obj_of (merge body patch)) = lookup f (obj_of body)).
Proof. exact ann_store_isolated. Qed.
Print Assumptions C16_isolation_annotations.

(* Isolation of the touch (the dummy write that re-triggers a cycle): it goes to the storage's touch key(s) and the marker
   only; every other annotation - handlers' records, user data - and every top-level field other than metadata read as
   before from the object as patched by an RFC 7386 server. *)
Theorem C16_isolation_touch : forall dg prefix v1 verbose tk body v patch k',
  ptouch dg (PAnn prefix v1 verbose tk) body (JObj []) v = Ok patch ->
  ~ In k' (full_keys dg prefix v1 body tk) -> k' <> (prefix ++ "/" ++ marker_name)%string ->
  resolve (merge body patch) (ann_path k')
  = match resolve body ["metadata"; "annotations"]%string with Some (JObj a) => lookup k' a | _ => None end
  /\ (forall f, f <> "metadata"%string -> lookup f (obj_of (merge body patch)) = lookup f (obj_of body)).
Proof. exact ann_touch_isolated. Qed.
Print Assumptions C16_isolation_touch.

(* a touch that does write (value differs, unknown prefix so the marker goes along) meets the premises *)
Example C16_isolation_touch_nonvacuous :
  let body := JObj [("metadata", JObj [("annotations", JObj [("my.op/h1", JEnc (JObj [("retries", JNum 1)])); ("user", JStr "x")])]);
                    ("spec", JObj [])]%string in
  ptouch const_dg (PAnn "my.op" false false "touch-dummy") body (JObj []) (JStr "2020")
  = Ok (pending [("my.op/touch-dummy", JStr "2020"); ("my.op/kopf-managed", JStr "yes")]%string)
  /\ ~ In "my.op/h1"%string (full_keys const_dg "my.op" false body "touch-dummy")
  /\ "my.op/h1"%string <> ("my.op" ++ "/" ++ marker_name)%string.
Proof.
  cbv zeta. split; [vm_compute; reflexivity|]. split; [vm_compute; intros [E|[]]; discriminate|vm_compute; discriminate].
Qed.

(* Purged completely, status progress storage (fresh patch): whatever is on the object, after the purge the record cannot
   be read back from the object as patched by an RFC 7386 server, for every stanza path, touch field, id and body.  Guard:
   where the storage's stanza exists on the object it is a mapping (on anything else the real fetch raises, purge or not). *)
Theorem C16_purged_completely_status : forall dg field tf nw key body patch,
  (forall v, resolve body field = Some v -> is_obj v = true) ->
  ppurge dg (PStatus field tf nw) key body (JObj []) = Ok patch ->
  pfetch dg (PStatus field tf nw) key (merge body patch) = Ok None.
Proof. exact status_purge_complete. Qed.
Print Assumptions C16_purged_completely_status.

(* the premises are met by an object that carries the record (the purge writes a tombstone) *)
Example C16_purged_completely_status_nonvacuous :
  let body := JObj [("status", JObj [("kopf", JObj [("progress", JObj [("h1", JObj [("retries", JNum 1)]); ("h2", JObj [])])])])]%string in
  let field := ["status"; "kopf"; "progress"]%string in
  (forall v, resolve body field = Some v -> is_obj v = true)
  /\ ppurge const_dg (PStatus field ["status"; "kopf"; "dummy"]%string false) "h1" body (JObj [])
     = Ok (JObj [("status", JObj [("kopf", JObj [("progress", JObj [("h1", JNull)])])])]%string)
  /\ pfetch const_dg (PStatus field ["status"; "kopf"; "dummy"]%string false) "h1" body = Ok (Some (JObj [("retries", JNum 1)]%string)).
Proof.
  cbv zeta. split; [intros v E; vm_compute in E; injection E as <-; reflexivity|]. split; vm_compute; reflexivity.
Qed.

(* Read back, status progress storage (fresh patch): what is read back from the object as patched by an RFC 7386 server is
   EXACTLY the server's merge of the stored record into the record the object had (none: JNull) - every stanza path, id,
   record and body.  "Identically" therefore holds iff that merge is the identity on the record; RFC 7386 merges mappings
   field by field and drops nulls, which is why the framework stores total records there ... *)
Theorem C16_status_store_reads_merge : forall dg field tf key record body patch,
  pstore dg (PStatus field tf false) key record body (JObj []) = Ok patch ->
  pfetch dg (PStatus field tf false) key (merge body patch)
  = Ok (Some (merge (sub_or_null (resolve body (field ++ [key]))) (JObj record))).
Proof. exact status_store_reads_merge. Qed.
Print Assumptions C16_status_store_reads_merge.

(* ... and the first store of a record without nulls and nested mappings is read back identically (as the mapping built
   from its fields in order; for a record with distinct field names that is the record up to order). *)
Theorem C16_roundtrip_status_first_store : forall dg field tf key record body patch,
  resolve body (field ++ [key]) = None ->
  (forall k v, In (k, v) record -> is_obj v = false /\ v <> JNull) ->
  pstore dg (PStatus field tf false) key record body (JObj []) = Ok patch ->
  pfetch dg (PStatus field tf false) key (merge body patch)
  = Ok (Some (JObj (fold_left (fun t kv => set (fst kv) (snd kv) t) record []))).
Proof. exact status_first_store_roundtrip. Qed.
Print Assumptions C16_roundtrip_status_first_store.

Example C16_roundtrip_status_nonvacuous :
  let body := JObj [("status", JObj [("kopf", JObj [("progress", JObj [("h2", JObj [])])])])]%string in
  let field := ["status"; "kopf"; "progress"]%string in
  let record := [("started", JStr "2020"); ("retries", JNum 1); ("success", JBool false)]%string in
  resolve body (field ++ ["h1"%string]) = None
  /\ (forall k v, In (k, v) record -> is_obj v = false /\ v <> JNull)
  /\ pstore const_dg (PStatus field ["status"; "kopf"; "dummy"]%string false) "h1" record body (JObj [])
     = Ok (JObj [("status", JObj [("kopf", JObj [("progress", JObj [("h1", JObj record)])])])]%string)
  /\ fold_left (fun t kv => set (fst kv) (snd kv) t) record [] = record.
Proof.
  cbv zeta. split; [reflexivity|]. split.
  - intros k v [E|[E|[E|[]]]]; injection E as <- <-; split; (reflexivity || discriminate).
  - split; vm_compute; reflexivity.
Qed.

(* The DEFAULT progress storage (SmartProgressStorage: annotations first, a read-only status stanza second): its patch is
   the patch of its annotation storage (the status stanza is never written), and what is stored is read back through the
   multi-storage's first-found read - every hash, prefix, v1/v2, verbosity, stanza path, id, record, body. *)
Theorem C16_smart_store_is_ann_store : forall dg prefix v1 verbose tk field tf key record body p,
  pstore dg (smart prefix v1 verbose tk field tf) key record body p
  = pstore dg (PAnn prefix v1 verbose tk) key record body p.
Proof. exact smart_store_is_ann_store. Qed.
Print Assumptions C16_smart_store_is_ann_store.

Theorem C16_roundtrip_smart : forall dg prefix v1 verbose tk field tf key record body patch,
  pstore dg (smart prefix v1 verbose tk field tf) key record body (JObj []) = Ok patch ->
  pfetch dg (smart prefix v1 verbose tk field tf) key (merge body patch)
  = Ok (Some (JObj (if verbose then record else drop_nulls record))).
Proof. exact smart_roundtrip. Qed.
Print Assumptions C16_roundtrip_smart.

Example C16_roundtrip_smart_nonvacuous :
  exists patch,
    pstore const_dg (smart "kopf.zalando.org" false false "touch-dummy" ["status"; "kopf"; "progress"] ["status"; "kopf"; "dummy"])%string
           "h1"%string [("retries", JNum 1); ("message", JNull)]%string
           (JObj [("status", JObj [("kopf", JObj [("progress", JObj [("h1", JObj [("retries", JNum 7)]%string)]%string)]%string)]%string)]%string) (JObj [])
    = Ok patch.
Proof. eexists. vm_compute. reflexivity. Qed.

(* Last-handled state (diff-base storages): whatever essence is stored is read back from the object as patched by an RFC
   7386 server - annotation storage: every hash, prefix, key name, v1/v2, body; status storage: every stanza path, body.
   (Essences are mappings; the guard excludes only a literal null, which the real fetch reads as "nothing stored".) *)
Theorem C16_roundtrip_diffbase_annotations : forall dg prefix dkey v1 ign essence body patch,
  essence <> JNull ->
  dstore dg (DAnn prefix dkey v1 ign) body (JObj []) essence = Ok patch ->
  dfetch dg (DAnn prefix dkey v1 ign) (merge body patch) = Ok (Some essence).
Proof. exact dann_roundtrip. Qed.
Print Assumptions C16_roundtrip_diffbase_annotations.

Theorem C16_roundtrip_diffbase_status : forall dg field ign essence body patch,
  essence <> JNull ->
  dstore dg (DStatus field ign) body (JObj []) essence = Ok patch ->
  dfetch dg (DStatus field ign) (merge body patch) = Ok (Some essence).
Proof. exact dstatus_roundtrip. Qed.
Print Assumptions C16_roundtrip_diffbase_status.

(* an EMPTY essence (the case of the seeded change C16_6) is within the theorem: {} is stored and read back as {} *)
Example C16_roundtrip_diffbase_nonvacuous :
  (exists patch, dstore const_dg (DAnn "kopf.zalando.org" "last-handled-configuration" false [])%string
                        (JObj [("metadata", JObj [("annotations", JObj [("user", JStr "x")])])])%string (JObj []) (JObj []) = Ok patch)
  /\ (exists patch, dstore const_dg (DStatus ["status"; "kopf"; "last"]%string []) (JObj [("status", JStr "odd")]%string) (JObj []) (JObj [("spec", JObj [])]%string) = Ok patch)
  /\ JObj [] <> JNull.
Proof. split; [eexists; vm_compute; reflexivity|]. split; [eexists; vm_compute; reflexivity|discriminate]. Qed.

(* Purged completely, the DEFAULT progress storage (SmartProgressStorage: annotations first, then a read-only stanza under
   status): after the purge NEITHER of its storages yields the record from the object as patched by an RFC 7386 server -
   every hash, prefix, v1/v2, stanza path under status, id and body.  Guard as for the status storage: where the stanza
   exists on the object it is a mapping. *)
Theorem C16_purged_completely_smart : forall dg prefix v1 verbose tk frest tf key body patch,
  (forall v, resolve body ("status"%string :: frest) = Some v -> is_obj v = true) ->
  ppurge dg (smart prefix v1 verbose tk ("status"%string :: frest) tf) key body (JObj []) = Ok patch ->
  pfetch dg (smart prefix v1 verbose tk ("status"%string :: frest) tf) key (merge body patch) = Ok None.
Proof. exact smart_purge_complete. Qed.
Print Assumptions C16_purged_completely_smart.

(* an object that carries the record in BOTH places (as after an operator that used to write the status stanza) *)
Example C16_purged_completely_smart_nonvacuous :
  let body := JObj [("metadata", JObj [("annotations", JObj [("kopf.zalando.org/h1", JEnc (JObj [("retries", JNum 1)]))])]);
                    ("status", JObj [("kopf", JObj [("progress", JObj [("h1", JObj [("retries", JNum 7)])])])])]%string in
  (forall v, resolve body ["status"; "kopf"; "progress"]%string = Some v -> is_obj v = true)
  /\ ppurge const_dg (smart "kopf.zalando.org" false false "touch-dummy" ["status"; "kopf"; "progress"] ["status"; "kopf"; "dummy"])%string "h1"%string body (JObj [])
     = Ok (JObj [("metadata", JObj [("annotations", JObj [("kopf.zalando.org/h1", JNull)])]);
                 ("status", JObj [("kopf", JObj [("progress", JObj [("h1", JNull)])])])]%string).
Proof.
  cbv zeta. split; [intros v E; vm_compute in E; injection E as <-; reflexivity|vm_compute; reflexivity].
Qed.

(* Isolation of the store with ANY pending patch: whatever earlier operations of the same cycle have left in the shared
   patch for any other annotation - another handler's record, its purge, user data - is exactly what stays there. *)
Theorem C16_store_keeps_pending : forall dg prefix v1 verbose tk key record body p patch k',
  pstore dg (PAnn prefix v1 verbose tk) key record body p = Ok patch ->
  ~ In k' (full_keys dg prefix v1 body key) -> k' <> (prefix ++ "/" ++ marker_name)%string ->
  resolve patch (ann_path k') = resolve p (ann_path k').
Proof. exact ann_store_keeps_pending. Qed.
Print Assumptions C16_store_keeps_pending.

Example C16_store_keeps_pending_nonvacuous :
  let p := pending [("kopf.zalando.org/h2", JEnc (JObj [("a", JNum 2)])); ("kopf.zalando.org/h3", JNull)]%string in
  (exists patch, pstore const_dg (PAnn "kopf.zalando.org" false false "touch-dummy") "h1" [("retries", JNum 1)]%string (JObj []) p = Ok patch)
  /\ resolve p (ann_path "kopf.zalando.org/h2") = Some (JEnc (JObj [("a", JNum 2)]%string))
  /\ ~ In "kopf.zalando.org/h2"%string (full_keys const_dg "kopf.zalando.org" false (JObj []) "h1").
Proof.
  cbv zeta. split; [eexists; vm_compute; reflexivity|]. split; [reflexivity|vm_compute; intros [E|[]]; discriminate].
Qed.

(* ... and so does a touch: with ANY pending patch, what is pending for other annotations stays exactly as it is. *)
Theorem C16_touch_keeps_pending : forall dg prefix v1 verbose tk body p v patch k',
  ptouch dg (PAnn prefix v1 verbose tk) body p v = Ok patch ->
  ~ In k' (full_keys dg prefix v1 body tk) -> k' <> (prefix ++ "/" ++ marker_name)%string ->
  resolve patch (ann_path k') = resolve p (ann_path k').
Proof. exact ann_touch_keeps_pending. Qed.
Print Assumptions C16_touch_keeps_pending.
