(* C02 — recorded handler progress governs invocation.  Function level: the State / HandlerState algebra and the
   state pipeline of processing.process_changing_cause / subhandling.execute (Model/Progress.v); the history level
   (whole operator against an API server: Model/CycleWorld.v) is in Props/C02History.v and Props/C03.v.
   Only statements here; proofs are in Proofs/Progress.v.  All quantifiers are unbounded: every view (body records),
   every registry (owned / selected ids), every cause, every lifecycle, every instant, every oracle of handler outcomes,
   every nesting depth of sub-handlers, every sequence of calls.

   CLAUSE TABLE (property text of C02 in properties.jsonl; "fn" = this file, "hist" = Props/C02History.v, Props/C03.v)
   ------------------------------------------------------------------------------------------------------------------
   1  a handler whose success / permanent failure is recorded on the object is never invoked again
      1a within one call, every lifecycle ........ full: C02_finished_never_selected, C02_invoked_only_unfinished,
                                                   C02_lifecycle_picks_from_input (fn)
      1b sub-handlers, every depth ............... full: C02_sub_invoked_only_unfinished, C02_trace_only_unfinished (fn)
      1c across retries of siblings / intervening events (several calls on the evolving object)
                                                   _partial + _refuted: C02_no_rerun_across_calls (any sequence of calm
                                                   calls: not closing, no supersession purge; handlers and sub-handlers of
                                                   any depth) with C02_finished_stays_finished / C02_open_keeps_records_partial;
                                                   refuted when the supersession purge runs: C02_open_keeps_records_refuted,
                                                   C02_supersession_drops_subrecords = finding F0201.  The guard is exactly
                                                   the negation of F0201's signature.  hist: C02_no_rerun_in_history,
                                                   C02_history_invariant (top-level handlers, whole operator)
      1d across operator restarts ................ full: C02_restart_resumes, C02_restart_resumes_view (fn: ResourceMemory is
                                                   write-only; only the owned ids' records are read); hist: C02_history_invariant
                                                   over traces with Kill/Start
      1e the premise "is recorded": what an invocation did is on the object after the call
                                                   full for open calls: C02_attempt_is_recorded (top level),
                                                   C02_sub_attempt_is_recorded (the store call of subhandling.execute; its
                                                   landing in the shared patch is tied by D progress_children / progress_runs,
                                                   not proved: needs ids to be tree-shaped)
   2  a handler still due is invoked with a retry number equal to its recorded attempts
      2a the retry number ........................ full: C02_retry_is_recorded_retries, C02_trace_only_unfinished (every depth),
                                                   C02_unowned_record_ignored (what happens outside the registry's guarantee)
      2b "is invoked" ............................ full for all_at_once / one_by_one / asap: C02_due_is_invoked (all due ones /
                                                   the first due one / a due one with the fewest attempts); randomized and
                                                   shuffled only C02_lifecycle_picks_from_input (they pick by a random draw:
                                                   monitored, monitor due-not-invoked)
   3  the cycle is closed (records removed, last-handled written) exactly when every selected handler has finished
      3a closed <-> all finished, not before ..... full: C02_close_iff_done, C02_idle_causes_do_nothing
      3b records removed ......................... _partial + _refuted: C02_close_purges_partial, C02_close_leaves_nothing_partial
                                                   / _deep (NOTHING remains, any depth) under the invariant
                                                   C02_refs_closed_initially + C02_refs_closed_preserved;
                                                   C02_close_leaves_nothing_refuted (invariant needed);
                                                   C02_close_purges_refuted: with no handler selected the cycle is closed and the
                                                   records stay (no finding recorded under C02; reproduced on the real code,
                                                   reported to the coordinator; cf. F15)
      3c children keep the parent open ........... full: C02_children_keep_parent_open, C02_children_purged_with_parent,
                                                   C02_descendants_purged_with_ancestor, C02_subrefs_accumulate,
                                                   C02_outcome_lists_all_descendants
      3d supersession (cause changes mid-cycle) .. full, stated exactly: C02_supersession, C02_supersession_stale_success
                                                   (what F8 rests on), C02_supersession_purges_unselected
   4  hence every handler succeeds at most once per cycle (absent crashes, lost responses, echo delays, pauses)
                                                   hist: C02_once_per_cycle, C03_served_exactly_once (top-level handlers, closed
                                                   loop with the four exclusions as hypotheses); fn, incl. sub-handlers of any
                                                   depth: consequence of 1c + 1e for calm call sequences (C02_no_rerun_across_calls);
                                                   sub-handlers in the closed loop: monitored only (double-success in the
                                                   function-level histories) — the history model has no sub-handlers
   -  not an explicit clause, needed by all of the above: records equal to their origin are not rewritten
                                                   C02_store_only_changed, C02_unchanged_iff_equal_to_origin; no Python error
                                                   path is reachable: C02_pipeline_defined
   Not covered by proof: lifecycles that are arbitrary user functions (kopf runs whatever they return; only those that
   pick positions of their input are modelled); records not in the textual form kopf writes (naive timestamps, nulls
   kept by verbose storages); float delays. *)
From Coq Require Import ZArith List String Bool.
From KV Require Import Base.Harness Model.Progress Proofs.Progress.
Import ListNotations.
Open Scope string_scope. Open Scope Z_scope. Open Scope list_scope.

(* every invocation is of a selected handler that is not recorded as finished, whose recorded delay has elapsed,
   and the retry number passed is the recorded number of attempts (0 without a record) *)
Theorem C02_invoked_only_unfinished : forall body owned reason selected lc now nd orc k n,
  incl selected owned ->
  In (k, n) (r_invoked (pg_pipeline body owned reason selected lc now nd orc)) ->
  In k selected /\
  pg_rec_finished (pg_find k body) = false /\
  pg_rec_sleeping now (pg_find k body) = false /\
  n = pg_rec_retries (pg_find k body).
Proof. exact invoked_only_unfinished. Qed.
Print Assumptions C02_invoked_only_unfinished.

(* a handler whose success or permanent failure is recorded is not invoked: every lifecycle, every sibling state *)
Theorem C02_finished_never_selected : forall body owned reason selected lc now nd orc k,
  incl selected owned ->
  pg_rec_finished (pg_find k body) = true ->
  ~ In k (map fst (r_invoked (pg_pipeline body owned reason selected lc now nd orc))).
Proof. exact finished_never_selected. Qed.
Print Assumptions C02_finished_never_selected.

(* "every lifecycle": all_at_once, one_by_one, asap, and any lifecycle that picks positions of its input
   (randomized, shuffled) only return handlers they were given *)
Theorem C02_lifecycle_picks_from_input : forall lc st todo, incl (pg_lc_apply lc st todo) todo.
Proof. exact pg_lc_incl. Qed.
Print Assumptions C02_lifecycle_picks_from_input.

Theorem C02_retry_is_recorded_retries : forall body owned reason selected lc now nd orc k n,
  incl selected owned ->
  In (k, n) (r_invoked (pg_pipeline body owned reason selected lc now nd orc)) ->
  n = pg_rec_retries (pg_find k body).
Proof. exact retry_is_recorded_retries. Qed.
Print Assumptions C02_retry_is_recorded_retries.

(* the same for sub-handlers (subhandling.execute) *)
Theorem C02_sub_invoked_only_unfinished : forall body reason sub_owned sub_selected lc now orc k n,
  incl sub_selected sub_owned ->
  In (k, n) (sr_invoked (pg_sub_execute body reason sub_owned sub_selected lc now orc)) ->
  In k sub_selected /\
  pg_rec_finished (pg_find k body) = false /\
  pg_rec_sleeping now (pg_find k body) = false /\
  n = pg_rec_retries (pg_find k body).
Proof. exact sub_invoked_only_unfinished. Qed.
Print Assumptions C02_sub_invoked_only_unfinished.

(* the hypothesis selected <= owned is what the registry guarantees; without it the record is never read *)
Theorem C02_unowned_record_ignored : forall body owned reason selected lc now nd orc k n,
  ~ In k owned ->
  In (k, n) (r_invoked (pg_pipeline body owned reason selected lc now nd orc)) -> n = 0.
Proof. exact invoked_unowned_from_scratch. Qed.
Print Assumptions C02_unowned_record_ignored.

(* the cycle is closed (fully_handled_once set; last-handled stored when it differs) exactly when every selected
   handler has finished after this call — in particular when none is selected — and not before *)
Theorem C02_close_iff_done : forall body owned reason selected lc now nd orc,
  pg_handler_reason reason = true ->
  let r := pg_pipeline body owned reason selected lc now nd orc in
  (r_fho r = true <->
   forall k, In k selected -> exists h, pg_find k (st_items (r_final r)) = Some h /\ pg_finished h = true) /\
  r_diffbase r = (r_fho r && nd).
Proof. exact close_iff_done. Qed.
Print Assumptions C02_close_iff_done.

(* no-op causes (NOOP / FREE / GONE) neither run, write nor close anything *)
Theorem C02_idle_causes_do_nothing : forall body owned reason selected lc now nd orc,
  pg_handler_reason reason = false ->
  let r := pg_pipeline body owned reason selected lc now nd orc in
  r_invoked r = [] /\ r_patch r = [] /\ r_fho r = false /\ r_diffbase r = false /\ r_delays r = [].
Proof. exact pg_pipeline_idle. Qed.
Print Assumptions C02_idle_causes_do_nothing.

(* closing removes the progress records: owned ids, every id of the state, every sub-handler reference ... *)
Theorem C02_close_purges_partial : forall body owned reason selected lc now nd orc,
  pg_handler_reason reason = true -> selected <> [] ->
  let r := pg_pipeline body owned reason selected lc now nd orc in
  r_done r = Some true ->
  forall k, (In k owned \/ In k (map fst (st_items (r_final r))) \/
             exists k' h, In (k', h) (st_items (r_final r)) /\ In k (h_subrefs h)) ->
            pg_after body (r_patch r) k = None.
Proof. exact close_purges. Qed.
Print Assumptions C02_close_purges_partial.

(* ... but only when handlers were executed: with no handler selected the cycle is closed and records stay *)
Theorem C02_close_purges_refuted :
  exists body owned reason lc now orc,
    let r := pg_pipeline body owned reason [] lc now true orc in
    pg_handler_reason reason = true /\ r_fho r = true /\ r_diffbase r = true /\
    exists k, In k owned /\ pg_after body (r_patch r) k <> None.
Proof. exact close_purges_refuted. Qed.
Print Assumptions C02_close_purges_refuted.

(* HandlerChildrenRetry: a parent is final exactly when all its selected sub-handlers have finished, otherwise its
   outcome is a non-final error (so it is recorded neither as success nor as failure); it references every
   sub-handler state *)
Theorem C02_children_keep_parent_open : forall body reason lc now fam leaf k n result so ss,
  fam k = Some (result, so, ss) ->
  let o := fst (pg_children_oracle body reason lc now fam leaf k n) in
  let sr := pg_sub_execute body reason so ss lc now leaf in
  (o_final o = true <-> sr_done sr = true) /\
  (o_final o = true -> o_exc o = None /\
     forall s, In s ss -> exists h, pg_find s (st_items (sr_final sr)) = Some h /\ pg_finished h = true) /\
  (o_final o = false -> o_exc o <> None) /\
  incl (map fst (st_items (sr_final sr))) (o_subrefs o).
Proof. exact children_keep_parent_open. Qed.
Print Assumptions C02_children_keep_parent_open.

(* subrefs purge: what an invoked handler reported as its sub-handlers is removed when the cycle closes *)
Theorem C02_children_purged_with_parent : forall body owned reason selected lc now nd orc,
  pg_handler_reason reason = true -> selected <> [] ->
  let r := pg_pipeline body owned reason selected lc now nd orc in
  r_done r = Some true ->
  forall k n s, In (k, n) (r_invoked r) -> In s (o_subrefs (fst (orc k n))) ->
                pg_after body (r_patch r) s = None.
Proof. exact children_purged_with_parent. Qed.
Print Assumptions C02_children_purged_with_parent.

(* restart: the in-memory ResourceMemory is only written; the result is a function of the view *)
Theorem C02_restart_resumes : forall m1 m2 body owned reason selected lc now nd orc,
  fst (pg_process m1 body owned reason selected lc now nd orc) =
  fst (pg_process m2 body owned reason selected lc now nd orc) /\
  m_fho (snd (pg_process m1 body owned reason selected lc now nd orc)) =
  (m_fho m1 || r_fho (pg_pipeline body owned reason selected lc now nd orc)).
Proof. exact restart_resumes. Qed.
Print Assumptions C02_restart_resumes.

(* ... and of the view only the records of the owned ids decide who runs and whether the cycle closes *)
Theorem C02_restart_resumes_view : forall b1 b2 owned reason selected lc now nd orc,
  (forall k, In k owned -> pg_find k b1 = pg_find k b2) ->
  let r1 := pg_pipeline b1 owned reason selected lc now nd orc in
  let r2 := pg_pipeline b2 owned reason selected lc now nd orc in
  r_invoked r1 = r_invoked r2 /\ r_final r1 = r_final r2 /\ r_done r1 = r_done r2 /\ r_fho r1 = r_fho r2 /\
  r_diffbase r1 = r_diffbase r2 /\ r_delays r1 = r_delays r2.
Proof. exact restart_resumes_view. Qed.
Print Assumptions C02_restart_resumes_view.

(* supersession, stated exactly: when records of another purpose exist, the states of the handlers selected by the
   new cause are re-purposed AS THEY ARE (started, retries, delayed, success, failure, subrefs, origin unchanged),
   handlers without a record start from scratch, the others are left as fetched *)
Theorem C02_supersession : forall body owned reason selected now,
  pg_has_extras (pg_prepare1 body owned reason selected now) = true ->
  let st2 := pg_prepare body owned reason selected now in
  (forall k d, In k selected -> In k owned -> pg_find k body = Some d ->
     pg_find k (st_items st2) =
     Some (pg_hs_with_purpose (Some (pg_reason_str reason)) (pg_as_active (pg_hs_from_storage now d)))) /\
  (forall k, In k selected -> (~ In k owned \/ pg_find k body = None) ->
     pg_find k (st_items st2) = Some (pg_from_scratch now (Some (pg_reason_str reason)))) /\
  (forall k, ~ In k selected -> pg_find k (st_items st2) = pg_base body owned now k).
Proof. exact supersession_repurposes. Qed.
Print Assumptions C02_supersession.

(* ... including a stale success: if every selected handler is recorded as finished — for whatever purpose — nothing
   is invoked and the cycle closes at once.  With one id registered for update and delete this is finding F8. *)
Theorem C02_supersession_stale_success : forall body owned reason selected lc now nd orc,
  pg_handler_reason reason = true -> selected <> [] -> incl selected owned ->
  (forall k, In k selected -> pg_rec_finished (pg_find k body) = true) ->
  let r := pg_pipeline body owned reason selected lc now nd orc in
  r_invoked r = [] /\ r_fho r = true /\ r_diffbase r = nd.
Proof. exact supersession_stale_success. Qed.
Print Assumptions C02_supersession_stale_success.

(* ... and the records of the handlers the new cause does not select are purged (records in the form kopf writes) *)
Theorem C02_supersession_purges_unselected : forall body owned reason selected lc now nd orc,
  pg_handler_reason reason = true -> pg_pure orc ->
  pg_has_extras (pg_prepare body owned reason selected now) = true ->
  let r := pg_pipeline body owned reason selected lc now nd orc in
  forall k d, In k owned -> ~ In k selected -> pg_find k body = Some d ->
              pg_changed (pg_hs_from_storage now d) = false ->
              pg_after body (r_patch r) k = None.
Proof. exact supersession_purges_unselected. Qed.
Print Assumptions C02_supersession_purges_unselected.

(* an open cycle keeps every record — provided no supersession purge happens in this call ... *)
Theorem C02_open_keeps_records_partial : forall body owned reason selected lc now nd orc,
  pg_handler_reason reason = true -> selected <> [] ->
  let r := pg_pipeline body owned reason selected lc now nd orc in
  r_done r = Some false ->
  pg_has_extras (pg_prepare body owned reason selected now) = false ->
  forall k, pg_find k body <> None -> pg_after body (r_patch r) k <> None.
Proof. exact open_keeps_records_partial. Qed.
Print Assumptions C02_open_keeps_records_partial.

(* ... otherwise false: the purge nulls every owned id and every sub-handler reference, and State.store writes back
   only the records that differ from what was fetched (finding F0201) *)
Theorem C02_open_keeps_records_refuted :
  exists body owned reason selected lc now orc,
    let r := pg_pipeline body owned reason selected lc now true orc in
    pg_handler_reason reason = true /\ incl selected owned /\ pg_pure orc /\ r_done r = Some false /\
    exists k, In k selected /\ pg_rec_finished (pg_find k body) = true /\ pg_after body (r_patch r) k = None.
Proof. exact open_keeps_records_refuted. Qed.
Print Assumptions C02_open_keeps_records_refuted.

Theorem C02_supersession_drops_subrecords :
  exists body owned reason selected lc now leaf,
    let orc := pg_children_oracle body reason lc now w_fam leaf in
    let r := pg_pipeline body owned reason selected lc now true orc in
    incl selected owned /\ r_done r = Some false /\
    (exists h, pg_find "p" (st_items (r_final r)) = Some h /\ h_retries h = 1 /\ h_purpose h = Some "update" /\
               In "p/s1" (h_subrefs h)) /\
    pg_rec_finished (pg_find "p/s1" body) = true /\ pg_after body (r_patch r) "p/s1" = None /\
    pg_after body (r_patch r) "p" <> None.
Proof. exact supersession_drops_subrecords. Qed.
Print Assumptions C02_supersession_drops_subrecords.

(* store-only-changed: whatever is written is a record that differs from what was fetched ... *)
Theorem C02_store_only_changed : forall body owned reason selected lc now nd orc,
  pg_pure orc ->
  let r := pg_pipeline body owned reason selected lc now nd orc in
  forall k x, pg_find k (r_patch r) = Some (PStore x) ->
    exists h, pg_find k (st_items (r_final r)) = Some h /\ pg_changed h = true /\ x = pg_for_storage h.
Proof. exact store_only_changed. Qed.
Print Assumptions C02_store_only_changed.

(* ... where "unchanged" is exactly "equal to its origin" *)
Theorem C02_unchanged_iff_equal_to_origin : forall h,
  pg_changed h = false <-> h_origin h = Some (pg_for_storage h).
Proof. exact unchanged_iff_equal_to_origin. Qed.
Print Assumptions C02_unchanged_iff_equal_to_origin.

(* none of the KeyError / RuntimeError paths of State.with_purpose, state[h.id], State.with_outcomes is reachable *)
Theorem C02_pipeline_defined : forall body owned reason selected lc now orc,
  pg_pipeline_defined body owned reason selected lc now orc = true.
Proof. exact pipeline_defined. Qed.
Print Assumptions C02_pipeline_defined.

(* non-vacuity: the hypotheses above are satisfiable and the conclusions observable on concrete runs *)
Example C02_example_finished_skipped_due_invoked :
  let r := pg_pipeline [("a", w_done "update"); ("b", w_retry "update")] ["a"; "b"] PRUpdate ["a"; "b"] LAll w_now true (w_orc []) in
  r_invoked r = [("b", 1)] /\ r_fho r = true /\ r_diffbase r = true /\
  pg_after [("a", w_done "update"); ("b", w_retry "update")] (r_patch r) "a" = None /\
  pg_after [("a", w_done "update"); ("b", w_retry "update")] (r_patch r) "b" = None.
Proof. exact ex_finished_skipped_due_invoked. Qed.
Print Assumptions C02_example_finished_skipped_due_invoked.

(* ---------------------------------------------------------------------------------------------------------------
   Sub-handlers nested to ANY depth (pg_deep_oracle: [fuel] = the depth unfolded; every statement is for all fuel).
   execution.invoke_handler hands down the subrefs containers of all enclosing levels: every ancestor's outcome
   lists the ids of its own sub-state and everything its invoked sub-handlers list. *)
Theorem C02_subrefs_accumulate : forall f body reason lc now fam leaf k n res so ss,
  fam k = Some (res, so, ss) ->
  let sub := pg_deep_oracle f body reason lc now fam leaf in
  let sr := pg_sub_execute body reason so ss lc now sub in
  let o := fst (pg_deep_oracle (S f) body reason lc now fam leaf k n) in
  (forall s, In s (map fst (st_items (sr_final sr))) -> In s (o_subrefs o)) /\
  (forall c m s, In (c, m) (sr_invoked sr) -> In s (o_subrefs (fst (sub c m))) -> In s (o_subrefs o)).
Proof. exact deep_subrefs_accumulate. Qed.
Print Assumptions C02_subrefs_accumulate.

(* hence the outcome of an invocation lists ALL its descendants (pg_desc: ids of its sub-state, and descendants of
   the sub-handlers it invoked), whatever the depth *)
Theorem C02_outcome_lists_all_descendants : forall body reason lc now fam leaf fuel k n s,
  pg_desc body reason lc now fam leaf fuel k n s ->
  In s (o_subrefs (fst (pg_deep_oracle fuel body reason lc now fam leaf k n))).
Proof. exact deep_lists_all_descendants. Qed.
Print Assumptions C02_outcome_lists_all_descendants.

(* C02_children_purged_with_parent at arbitrary depth: when the cycle closes, the record of every descendant of
   every handler invoked in that call is removed *)
Theorem C02_descendants_purged_with_ancestor : forall body owned reason selected lc now nd fuel fam leaf,
  pg_handler_reason reason = true -> selected <> [] ->
  let orc := pg_deep_oracle fuel body reason lc now fam leaf in
  let r := pg_pipeline body owned reason selected lc now nd orc in
  r_done r = Some true ->
  forall k n s, In (k, n) (r_invoked r) -> pg_desc body reason lc now fam leaf fuel k n s ->
                pg_after body (r_patch r) s = None.
Proof. exact descendants_purged_with_ancestor. Qed.
Print Assumptions C02_descendants_purged_with_ancestor.

(* The whole object: if every record on it is top-level or referenced by a top-level record (what kopf maintains,
   next theorem) and the handlers report what they write, a closing call leaves NO progress record at all —
   also of sub-handlers finished in earlier calls of the cycle, at any depth. *)
Theorem C02_close_leaves_nothing_partial : forall body owned reason selected lc now nd orc,
  pg_handler_reason reason = true -> selected <> [] ->
  pg_reports_stores orc ->
  pg_refs_closed (fun s => pg_find s body) owned ->
  let r := pg_pipeline body owned reason selected lc now nd orc in
  r_done r = Some true ->
  forall s, pg_after body (r_patch r) s = None.
Proof. exact close_leaves_nothing. Qed.
Print Assumptions C02_close_leaves_nothing_partial.

(* without the invariant it is false: an unreferenced sub-handler record survives the closing *)
Theorem C02_close_leaves_nothing_refuted :
  exists body owned reason selected lc now orc,
    let r := pg_pipeline body owned reason selected lc now true orc in
    pg_handler_reason reason = true /\ incl selected owned /\ pg_pure orc /\ r_done r = Some true /\
    exists s, pg_after body (r_patch r) s <> None.
Proof. exact close_leaves_nothing_refuted. Qed.
Print Assumptions C02_close_leaves_nothing_refuted.

(* the invariant holds on an object without records and is preserved by EVERY call of the pipeline (any cause, any
   selection within the owned handlers, closing or not, with or without supersession) *)
Theorem C02_refs_closed_initially : forall tops, pg_refs_closed (fun s => pg_find s (@nil (pg_hid * pg_srec))) tops.
Proof. exact refs_closed_empty. Qed.
Print Assumptions C02_refs_closed_initially.

Theorem C02_refs_closed_preserved : forall body owned reason selected lc now nd orc,
  incl selected owned -> pg_reports_stores orc -> pg_stores_apart orc owned ->
  pg_refs_closed (fun s => pg_find s body) owned ->
  pg_refs_closed (pg_after body (r_patch (pg_pipeline body owned reason selected lc now nd orc))) owned.
Proof. exact refs_closed_preserved. Qed.
Print Assumptions C02_refs_closed_preserved.

(* the nested-handler oracle meets both side conditions, for every depth *)
Theorem C02_deep_reports_stores : forall body reason lc now fam leaf,
  pg_pure leaf -> forall fuel, pg_reports_stores (pg_deep_oracle fuel body reason lc now fam leaf).
Proof. exact deep_reports_stores. Qed.
Print Assumptions C02_deep_reports_stores.

Theorem C02_deep_stores_apart : forall body reason lc now fam leaf tops,
  pg_pure leaf -> pg_fam_apart fam tops -> forall fuel, pg_stores_apart (pg_deep_oracle fuel body reason lc now fam leaf) tops.
Proof. exact deep_stores_apart. Qed.
Print Assumptions C02_deep_stores_apart.

Theorem C02_close_leaves_nothing_deep : forall body owned reason selected lc now nd fuel fam leaf,
  pg_handler_reason reason = true -> selected <> [] -> pg_pure leaf ->
  pg_refs_closed (fun s => pg_find s body) owned ->
  let r := pg_pipeline body owned reason selected lc now nd (pg_deep_oracle fuel body reason lc now fam leaf) in
  r_done r = Some true ->
  forall s, pg_after body (r_patch r) s = None.
Proof. exact close_leaves_nothing_deep. Qed.
Print Assumptions C02_close_leaves_nothing_deep.

(* non-vacuity: parent -> child -> leaf -> twig in one call; closing leaves an empty patch on an empty object, an
   open cycle records all descendants in every ancestor *)
Example C02_example_nested_three_levels :
  let closed := pg_pipeline [] ["p"] PRCreate ["p"] LAll w_now true (pg_deep_oracle 5 [] PRCreate LAll w_now w_fam3 (w_orc [])) in
  let open := pg_pipeline [] ["p"] PRCreate ["p"] LAll w_now true (pg_deep_oracle 5 [] PRCreate LAll w_now w_fam3 (w_orc ["p/c/b/t"])) in
  r_invoked closed = [("p", 0)] /\
  r_sub closed = [("p/c", 0); ("p/c/a", 0); ("p/c/b", 0); ("p/c/b/t", 0); ("p/o", 0)] /\
  r_done closed = Some true /\ r_patch closed = [] /\
  r_done open = Some false /\
  option_map s_subrefs (pg_after [] (r_patch open) "p") = Some (Some ["p/c"; "p/c/a"; "p/c/b"; "p/c/b/t"; "p/o"]) /\
  option_map s_subrefs (pg_after [] (r_patch open) "p/c") = Some (Some ["p/c/a"; "p/c/b"; "p/c/b/t"]) /\
  option_map s_success (pg_after [] (r_patch open) "p/c/a") = Some (Some true) /\
  option_map s_success (pg_after [] (r_patch open) "p/c/b") = Some (Some false).
Proof. exact ex_nested_three_levels. Qed.
Print Assumptions C02_example_nested_three_levels.

Example C02_example_descendant : pg_desc [] PRCreate LAll w_now w_fam3 (w_orc []) 5 "p" 0 "p/c/b/t".
Proof. exact ex_nested_descendant. Qed.
Print Assumptions C02_example_descendant.

(* ---------------------------------------------------------------------------------------------------------------
   Deepening round: the whole trace of a call, liveness, what gets recorded, and sequences of calls. *)

(* clauses 1b / 2a for handlers and sub-handlers of EVERY depth in one statement *)
Theorem C02_trace_only_unfinished : forall body owned reason selected lc now nd fuel fam leaf s m,
  incl selected owned -> pg_quiet leaf -> pg_fam_wf fam ->
  In (s, m) (pg_trace (pg_pipeline body owned reason selected lc now nd (pg_deep_oracle fuel body reason lc now fam leaf))) ->
  pg_rec_finished (pg_find s body) = false /\
  pg_rec_sleeping now (pg_find s body) = false /\
  m = pg_rec_retries (pg_find s body).
Proof. exact trace_only_unfinished. Qed.
Print Assumptions C02_trace_only_unfinished.

(* clause 2b: a handler still due IS invoked — all due ones (all_at_once), the first due one (one_by_one), a due one
   with the fewest recorded attempts (asap); [pg_due] = selected, not recorded finished, recorded delay elapsed *)
Theorem C02_due_is_invoked : forall body owned reason selected lc now nd orc,
  pg_handler_reason reason = true -> incl selected owned ->
  let ids := map fst (r_invoked (pg_pipeline body owned reason selected lc now nd orc)) in
  let due := pg_due body selected now in
  (lc = LAll -> ids = due) /\
  (lc = LOne -> ids = firstn 1 due) /\
  (lc = LAsap -> (due = [] /\ ids = []) \/
                 exists k, ids = [k] /\ In k due /\
                           forall k', In k' due -> pg_rec_retries (pg_find k body) <= pg_rec_retries (pg_find k' body)).
Proof. exact due_is_invoked. Qed.
Print Assumptions C02_due_is_invoked.

Example C02_example_due_asap :
  let body := [("a", w_retry "update"); ("b", mkPgRec (Some 990000000) None None (Some "update") (Some 0) (Some false) (Some false) None None);
               ("c", w_done "update")] in
  pg_due body ["a"; "b"; "c"] w_now = ["a"; "b"] /\
  map fst (r_invoked (pg_pipeline body ["a"; "b"; "c"] PRUpdate ["a"; "b"; "c"] LAsap w_now true (w_orc []))) = ["b"].
Proof. exact ex_due_asap. Qed.
Print Assumptions C02_example_due_asap.

(* clause 1e: after a call that leaves the cycle open, the record of every invoked handler says what happened:
   attempts + 1, success / failure as the outcome was final with / without an exception, the new delay, the message,
   and every sub-handler reference the outcome lists *)
Theorem C02_attempt_is_recorded : forall body owned reason selected lc now nd orc k n,
  pg_handler_reason reason = true -> selected <> [] ->
  let r := pg_pipeline body owned reason selected lc now nd orc in
  r_done r = Some false ->
  In (k, n) (r_invoked r) ->
  let o := fst (orc k n) in
  exists d, pg_after body (r_patch r) k = Some d /\
            s_retries d = Some (n + 1) /\
            s_success d = Some (o_final o && match o_exc o with None => true | Some _ => false end) /\
            s_failure d = Some (o_final o && match o_exc o with None => false | Some _ => true end) /\
            s_delayed d = match o_delay o with Some x => Some (now + x) | None => None end /\
            s_message d = o_exc o /\
            pg_rec_finished (Some d) = o_final o /\
            (forall s, In s (o_subrefs o) -> In s (pg_or (s_subrefs d) [])).
Proof. exact attempt_is_recorded. Qed.
Print Assumptions C02_attempt_is_recorded.

Theorem C02_sub_attempt_is_recorded : forall body reason so ss lc now orc c m,
  let sr := pg_sub_execute body reason so ss lc now orc in
  In (c, m) (sr_invoked sr) ->
  exists d, In (c, d) (sr_stores sr) /\ s_retries d = Some (m + 1) /\
            pg_rec_finished (Some d) = o_final (fst (orc c m)) /\
            s_success d = Some (o_final (fst (orc c m)) && match o_exc (fst (orc c m)) with None => true | Some _ => false end).
Proof. exact sub_attempt_is_recorded. Qed.
Print Assumptions C02_sub_attempt_is_recorded.

(* clause 1c, one call: whatever is recorded as finished — handler or sub-handler of any depth — is still recorded as
   finished after a call that neither closes the cycle nor runs the supersession purge (otherwise: F0201) *)
Theorem C02_finished_stays_finished : forall body owned reason selected lc now nd orc,
  incl selected owned -> pg_keeps_finished body orc ->
  let r := pg_pipeline body owned reason selected lc now nd orc in
  r_done r <> Some true ->
  (pg_handler_reason reason = true -> pg_has_extras (pg_prepare body owned reason selected now) = false) ->
  forall s, pg_rec_finished (pg_find s body) = true -> pg_rec_finished (pg_after body (r_patch r) s) = true.
Proof. exact finished_stays_finished. Qed.
Print Assumptions C02_finished_stays_finished.

(* the next call's view is the object after the patch *)
Theorem C02_next_view : forall body p s, pg_find s (pg_apply body p) = pg_after body p s.
Proof. exact pg_find_apply. Qed.
Print Assumptions C02_next_view.

(* clause 1c / 4, any number of calls: across sibling retries and intervening events (any causes, selections, lifecycles,
   instants — a restart changes nothing: C02_restart_resumes), an id recorded as finished is in no trace of any later
   calm call, and stays recorded as finished *)
Theorem C02_no_rerun_across_calls : forall owned calls body s,
  (forall c, In c calls -> incl (c_selected c) owned /\ pg_orc_ok c) ->
  pg_all_calm owned body calls ->
  pg_rec_finished (pg_find s body) = true ->
  (forall r, In r (fst (pg_run_calls owned body calls)) -> ~ In s (map fst (pg_trace r))) /\
  pg_rec_finished (pg_find s (snd (pg_run_calls owned body calls))) = true.
Proof. exact no_rerun_across_calls. Qed.
Print Assumptions C02_no_rerun_across_calls.

(* handlers with sub-handlers nested to any depth are such behaviours *)
Theorem C02_deep_orc_ok : forall reason selected lc now nd fuel fam leaf,
  pg_quiet leaf -> pg_fam_wf fam ->
  pg_orc_ok (mkPgCall reason selected lc now nd (fun b => pg_deep_oracle fuel b reason lc now fam leaf)).
Proof. exact deep_orc_ok. Qed.
Print Assumptions C02_deep_orc_ok.

Theorem C02_deep_keeps_finished : forall body reason lc now fam leaf,
  pg_quiet leaf -> pg_fam_wf fam -> forall fuel, pg_keeps_finished body (pg_deep_oracle fuel body reason lc now fam leaf).
Proof. exact deep_keeps_finished. Qed.
Print Assumptions C02_deep_keeps_finished.

(* non-vacuity: two calm calls with a retrying twig three levels down; the hypotheses of C02_no_rerun_across_calls hold
   (w_fam3 is well-formed, the calls are calm) and the conclusion is visible in the traces *)
Example C02_example_two_calls :
  let calls := [w_call w_now ["p/c/b/t"]; w_call (w_now + 2000000) ["p/c/b/t"]] in
  let run := pg_run_calls ["a"; "p"] [] calls in
  map pg_trace (fst run) =
    [[("a", 0); ("p", 0); ("p/c", 0); ("p/c/a", 0); ("p/c/b", 0); ("p/c/b/t", 0); ("p/o", 0)];
     [("p", 1); ("p/c", 1); ("p/c/b", 1); ("p/c/b/t", 1)]] /\
  pg_rec_finished (pg_find "a" (snd run)) = true /\ pg_rec_finished (pg_find "p/c/a" (snd run)) = true /\
  pg_rec_finished (pg_find "p/c/b" (snd run)) = false /\
  pg_rec_retries (pg_find "p/c/b/t" (snd run)) = 2.
Proof. exact ex_two_calls. Qed.
Print Assumptions C02_example_two_calls.

Example C02_example_two_calls_calm :
  pg_all_calm ["a"; "p"] [] [w_call w_now ["p/c/b/t"]; w_call (w_now + 2000000) ["p/c/b/t"]] /\ pg_fam_wf w_fam3.
Proof. exact (conj ex_two_calls_calm w_fam3_wf). Qed.
Print Assumptions C02_example_two_calls_calm.

(* further non-vacuity instances (hypotheses of the implications above are satisfiable on non-trivial states) *)
Example C02_example_open_cycle_keeps_progress :
  let body := [("a", w_done "update"); ("b", w_retry "update")] in
  let r := pg_pipeline body ["a"; "b"] PRUpdate ["a"; "b"] LAsap w_now true (w_orc ["b"]) in
  r_invoked r = [("b", 1)] /\ r_done r = Some false /\ r_fho r = false /\ r_diffbase r = false /\
  pg_after body (r_patch r) "a" = Some (w_done "update") /\ pg_find "a" (r_patch r) = None /\
  r_delays r = [1000000] /\
  option_map s_retries (pg_after body (r_patch r) "b") = Some (Some 2).
Proof. exact ex_open_cycle_keeps_progress. Qed.
Print Assumptions C02_example_open_cycle_keeps_progress.

Example C02_example_sleeping_not_invoked :
  let body := [("b", mkPgRec (Some 990000000) None (Some (w_now + 125000)) (Some "update") (Some 1) (Some false) (Some false) None None)] in
  let r := pg_pipeline body ["b"] PRUpdate ["b"] LAll w_now true (w_orc []) in
  r_invoked r = [] /\ r_done r = Some false /\ r_delays r = [125000] /\ r_patch r = [].
Proof. exact ex_sleeping_not_invoked. Qed.
Print Assumptions C02_example_sleeping_not_invoked.

Example C02_example_supersession_hypotheses :
  pg_has_extras (pg_prepare1 [("a", w_done "update"); ("b", w_retry "update")] ["a"; "b"; "d"] PRDelete ["a"; "d"] w_now) = true /\
  pg_has_extras (pg_prepare [("a", w_done "update"); ("b", w_retry "update")] ["a"; "b"; "d"] PRDelete ["a"; "d"] w_now) = true /\
  pg_changed (pg_hs_from_storage w_now (w_retry "update")) = false.
Proof. exact ex_supersession_hypotheses_satisfiable. Qed.
Print Assumptions C02_example_supersession_hypotheses.
