(* C15 — exactly the handlers whose declared criteria hold are selected for invocation.
   Only statements here; proofs in Proofs/Match.v; the model (registries.match/prematch/_matches_*/
   _deduplicated/get_handlers, the decorator constants of on.py) and the docs-shaped relation
   [Matches] (docs/filters.rst sentence by sentence) in Model/Match.v.
   All quantification is unbounded: every declaration, every callback, every body/old/new. *)
From Coq Require Import ZArith List String Bool.
From KV Require Import Base.Json Base.Dicts Model.Match Proofs.Match.
Import ListNotations.

(* ---- match() is the documented conjunction of criteria ---------------------------------- *)
(* The unguarded statement is FALSE of the faithful model (known finding F15a): the docs' own example
   @kopf.on.create(field='spec.f', value=kopf.ABSENT) matches an object created WITH spec.f ... *)
Theorem C15_match_iff_spec_refuted :
  exists h c, wf_decl h /\ body_ok c /\ class_agree h c /\ essence_ok h c /\
              matches h c = Ok true /\ ~ Matches h c.
Proof. exact match_iff_spec_refuted. Qed.
Print Assumptions C15_match_iff_spec_refuted.

(* F15b (field value callbacks got a private marker instead of None for an absent field) was repaired in kopf by
   commit b981eb5; the former C15_match_iff_spec_refuted_callback is gone and the callback guard is dropped below.
   Regression: value=lambda v, **_: v is None on an object WITHOUT the field matches, as documented (and an absent
   field and a null one are indistinguishable to a callback; `v is not None` / bool(v) do not hold for an absent field;
   old=(v is None), new=(v == 0) on an added field 0 matches). *)
Example C15_callback_absent_gets_none :
  matches ex_event_isnone (ex_watching None) = Ok true /\ Matches ex_event_isnone (ex_watching None) /\
  matches ex_event_isnone (ex_watching (Some JNull)) = Ok true /\
  matches ex_event_isnone (ex_watching (Some (JNum 0))) = Ok false /\
  matches (decorate DEvent "e" 0 ex_sel [] [] None (Some ["spec"; "f"]%string) (CCb cb_not_none) CNone CNone)
          (ex_watching None) = Ok false /\
  matches (decorate DEvent "e" 0 ex_sel [] [] None (Some ["spec"; "f"]%string) (CCb cb_truthy) CNone CNone)
          (ex_watching None) = Ok false /\
  matches (decorate DUpdate "u" 0 ex_sel [] [] None (Some ["spec"; "f"]%string) CNone (CCb cb_is_none) (CCb (cb_eq (JNum 0))))
          (ex_upd None (Some (JNum 0)) 0) = Ok true.
Proof. exact callback_absent_regression. Qed.
Print Assumptions C15_callback_absent_gets_none.

(* The strongest true statement: for every declaration the decorators can produce, every well-formed
   body, every callback (arbitrary total functions), and whenever the OLD value does not satisfy
   the value criterion of a create/resume/delete handler unless the current one does:
   match() = True  <->  all declared criteria hold as documented.  (No exception is raised: Ok.) *)
Theorem C15_match_iff_spec_partial : forall h c,
  wf_decl h -> body_ok c -> class_agree h c -> essence_ok h c -> old_silent h c ->
  (matches h c = Ok true <-> Matches h c).
Proof. exact match_iff_spec_partial. Qed.
Print Assumptions C15_match_iff_spec_partial.

(* where the last guard is free: update handlers; event/daemon/timer/index; an unchanged field;
   creation unless the criterion is ABSENT or a callback *)
Theorem C15_old_silent_cases : forall h c,
  (h_needs_change h = true -> old_silent h c) /\
  (is_changing c = false -> old_silent h c) /\
  ((forall p, h_field h = Some p -> resolve_opt (c_old c) p = resolve_opt (c_new c) p) -> old_silent h c) /\
  (c_old c = None -> match h_value h with CAbsent | CCb _ => False | _ => True end -> old_silent h c).
Proof. exact old_silent_cases. Qed.
Print Assumptions C15_old_silent_cases.

(* on a well-formed body match()/prematch() never raise *)
Theorem C15_match_total : forall h c, body_ok c ->
  matches h c = Ok (matches_b h c) /\ prematches h c = Ok (prematches_b h c).
Proof. exact match_total_both. Qed.
Print Assumptions C15_match_total.

(* ---- update handlers (@on.update, @on.field) with a field -------------------------------- *)
(* value= holds on the old OR the new value; old=/new= each on its side; and the field differs
   (changed, added or removed; an unchanged field with a changed sibling does not count) *)
Theorem C15_update_field_semantics : forall h c p,
  body_ok c -> h_field h = Some p -> updating h c ->
  let old := resolve_opt (c_old c) p in
  let new := resolve_opt (c_new c) p in
  (matches h c = Ok true <->
     matches_resource h (c_resource c) = true /\ meta_b c (h_labels h) "labels" = true /\
     meta_b c (h_annotations h) "annotations" = true /\ WhenHolds h c /\
     (Holds c (value_crit (h_value h)) old \/ Holds c (value_crit (h_value h)) new) /\
     affected old new /\ SideHolds c (h_old h) old /\ SideHolds c (h_new h) new).
Proof. exact update_field_semantics. Qed.
Print Assumptions C15_update_field_semantics.

Example C15_update_removed_added_unchanged :
  (* removed field: value=1 holds through the old side; old=1,new=ABSENT; new=PRESENT does not *)
  (matches (ex_update (CVal (JNum 1)) CNone CNone) (ex_upd (Some (JNum 1)) None 0) = Ok true /\
   matches (ex_update CNone (CVal (JNum 1)) CAbsent) (ex_upd (Some (JNum 1)) None 0) = Ok true /\
   matches (ex_update CNone CNone CPresent) (ex_upd (Some (JNum 1)) None 0) = Ok false) /\
  (* added field *)
  (matches (ex_update (CVal (JNum 1)) CNone CNone) (ex_upd None (Some (JNum 1)) 0) = Ok true /\
   matches (ex_update CNone CAbsent CPresent) (ex_upd None (Some (JNum 1)) 0) = Ok true /\
   matches (ex_update CNone CPresent CNone) (ex_upd None (Some (JNum 1)) 0) = Ok false) /\
  (* unchanged field, changed sibling: not matched, but still in scope (prematch) *)
  (matches (ex_update (CVal (JNum 1)) CNone CNone) (ex_upd (Some (JNum 1)) (Some (JNum 1)) 5) = Ok false /\
   matches (ex_update CNone CNone CNone) (ex_upd (Some (JNum 1)) (Some (JNum 1)) 5) = Ok false /\
   prematches (ex_update (CVal (JNum 1)) CNone CNone) (ex_upd (Some (JNum 1)) (Some (JNum 1)) 5) = Ok true).
Proof. exact (conj ex_removed_field (conj ex_added_field ex_unchanged_field_changed_sibling)). Qed.
Print Assumptions C15_update_removed_added_unchanged.

(* ---- all other handlers: "the current ---and only--- state" ------------------------------- *)
(* event / daemon / timer / index: holds *)
Theorem C15_non_update_current_only : forall h c p,
  body_ok c -> is_changing c = false -> h_field h = Some p ->
  (matches h c = Ok true <->
     matches_resource h (c_resource c) = true /\ meta_b c (h_labels h) "labels" = true /\
     meta_b c (h_annotations h) "annotations" = true /\ WhenHolds h c /\
     Holds c (value_crit (h_value h)) (resolve (c_body c) p)).
Proof. exact non_update_current_only_static. Qed.
Print Assumptions C15_non_update_current_only.

(* create / resume / delete: false (F15a): @on.delete(field='spec.f', value=1) matches an object whose spec.f is 2 *)
Theorem C15_non_update_current_only_refuted :
  exists h c p, wf_decl h /\ body_ok c /\ essence_ok h c /\ h_field h = Some p /\ ~ updating h c /\
                matches h c = Ok true /\ ~ Holds c (value_crit (h_value h)) (resolve (c_body c) p).
Proof. exact non_update_current_only_refuted. Qed.
Print Assumptions C15_non_update_current_only_refuted.

(* ... what does hold for them: the criterion on the new OR the old state *)
Theorem C15_non_update_current_only_partial : forall h c p,
  wf_decl h -> body_ok c -> h_is_changing h = true -> is_changing c = true -> h_needs_change h = false ->
  h_field h = Some p ->
  (matches h c = Ok true <->
     matches_resource h (c_resource c) = true /\ meta_b c (h_labels h) "labels" = true /\
     meta_b c (h_annotations h) "annotations" = true /\ WhenHolds h c /\
     (Holds c (value_crit (h_value h)) (resolve_opt (c_new c) p) \/
      Holds c (value_crit (h_value h)) (resolve_opt (c_old c) p))).
Proof. exact non_update_current_only_partial. Qed.
Print Assumptions C15_non_update_current_only_partial.

(* ---- the selected list -------------------------------------------------------------------- *)
(* registry.get_handlers(cause, excluded), when it returns: the registration-ordered filter of the declared
   handlers by (not excluded, cause-kind gate reason/initial/deleted, match), de-duplicated *)
Theorem C15_selected_set : forall excl hs c l,
  get_handlers excl hs c = Ok l ->
  l = deduplicated (filter (selected_b excl c) hs) /\
  (forall h, In h (filter (selected_b excl c) hs) <->
             In h hs /\ mem_str (h_id h) excl = false /\ cause_gate h c = Ok true /\ matches h c = Ok true).
Proof. exact selected_set. Qed.
Print Assumptions C15_selected_set.

(* _deduplicated: one entry per (function object, id), the first one, nothing else removed;
   the same function under different ids (different fields) keeps every entry *)
Theorem C15_dedup : forall l,
  NoDup (map hkey_of (deduplicated l)) /\
  (forall h, In h (deduplicated l) -> In h l) /\
  (forall k, In k (map hkey_of l) <-> In k (map hkey_of (deduplicated l))) /\
  (NoDup (map hkey_of l) -> deduplicated l = l) /\
  (forall pre x post, l = pre ++ x :: post -> ~ In (hkey_of x) (map hkey_of pre) -> In x (deduplicated l)).
Proof. exact dedup_spec. Qed.
Print Assumptions C15_dedup.

(* ... for ANY position of the repetitions (not only neighbours): the result is a subsequence of the input (registration
   order), its members are exactly the entries at the first position of their (function, id), and every registered pair occurs
   exactly once *)
Theorem C15_dedup_any_position : forall l,
  subseq (deduplicated l) l /\
  (forall h, In h (deduplicated l) <->
             exists pre post, l = pre ++ h :: post /\ ~ In (hkey_of h) (map hkey_of pre)) /\
  (forall h, In h l -> occurrences (hkey_of h) (deduplicated l) = 1%nat).
Proof. exact dedup_any_position. Qed.
Print Assumptions C15_dedup_any_position.

Example C15_dedup_nonadjacent :
  rids (get_handlers [] [ex_A DUpdate; ex_B DUpdate; ex_A (DResume false)] ex_downtime_update) = Ok ["a"; "b"]%string /\
  rids (get_handlers [] [ex_A DUpdate; ex_B DUpdate; ex_A (DResume false); ex_B (DResume false)] ex_downtime_update)
    = Ok ["a"; "b"]%string /\
  rids (get_handlers [] [ex_A DUpdate; ex_B DUpdate; ex_B DField; ex_A DUpdate; ex_A (DResume false)] ex_downtime_update)
    = Ok ["a"; "b"]%string /\
  rids (get_handlers [] [ex_A DUpdate; decorate DUpdate "a" 1 ex_sel [] [] None None CNone CNone CNone; ex_A (DResume false)]
                     ex_downtime_update) = Ok ["a"; "a"]%string.
Proof. exact ex_dedup_nonadjacent. Qed.
Print Assumptions C15_dedup_nonadjacent.

Example C15_dedup_example :
  rids (get_handlers [] ex_twice
         {| c_class := CChanging; c_resource := ex_resource; c_body := ex_body (Some (JNum 1)); c_old := None;
            c_new := Some (ex_spec (Some (JNum 1))); c_reason := RCreate; c_initial := true |})
  = Ok ["fn"; "fn/spec.f"; "fn/spec.g"]%string.
Proof. exact ex_dedup. Qed.
Print Assumptions C15_dedup_example.

(* ---- prematch vs match; stealth at the level of selection ----------------------------------- *)
Theorem C15_match_is_prematch_and_changes : forall h c,
  matches h c = Ok true <-> prematches h c = Ok true /\ matches_field_changes h c = true.
Proof. exact match_is_prematch_and_changes. Qed.
Print Assumptions C15_match_is_prematch_and_changes.

(* an object out of scope (ChangingRegistry.prematch False): no changing handler is selected for ANY cause and
   exclusion set, and no finaliser is required.  (That then nothing is written at all is the cycle model's theorem,
   C02/C06; on the implementation it is monitored through process_resource_event.) *)
Theorem C15_stealth : forall hs c,
  registry_prematch hs c = Ok false ->
  (forall excl l, get_handlers excl hs c = Ok l -> l = []) /\
  (forall excl, requires_finalizer true excl hs c = Ok false).
Proof. exact stealth_selection. Qed.
Print Assumptions C15_stealth.

(* event / daemon / timer / index handlers: none matches => none selected, no finaliser required *)
Theorem C15_stealth_static : forall hs c,
  c_class c <> CChanging ->
  (forall h, In h hs -> matches h c = Ok false) ->
  (forall excl, get_handlers excl hs c = Ok []) /\
  (forall excl, requires_finalizer false excl hs c = Ok false).
Proof. exact nothing_matches_nothing_selected. Qed.
Print Assumptions C15_stealth_static.

(* ---- non-vacuity ------------------------------------------------------------------------------ *)
(* the guards of C15_match_iff_spec_partial hold together (labels, annotation, when=, field, callback, new=),
   with the equivalence exercised on both sides *)
Example C15_guards_satisfiable : forall new,
  wf_decl ex_guarded /\ body_ok (ex_guarded_cause new) /\ class_agree ex_guarded (ex_guarded_cause new) /\
  essence_ok ex_guarded (ex_guarded_cause new) /\
  old_silent ex_guarded (ex_guarded_cause new).
Proof. exact ex_guards. Qed.
Print Assumptions C15_guards_satisfiable.

Example C15_guarded_both_sides :
  matches ex_guarded (ex_guarded_cause (Some (JNum 2))) = Ok true /\
  matches ex_guarded (ex_guarded_cause (Some (JNum 1))) = Ok false /\
  matches ex_guarded (ex_guarded_cause None) = Ok false.
Proof. exact ex_guarded_both. Qed.
Print Assumptions C15_guarded_both_sides.

(* the stealth premise is satisfiable with a non-empty registry, and the same registry does select once the label is there *)
Example C15_stealth_premise_satisfiable :
  registry_prematch ex_labelled (ex_changing RCreate None None) = Ok false /\
  registry_prematch ex_labelled (ex_guarded_cause None) = Ok false /\
  rids (get_handlers [] ex_labelled
     {| c_class := CChanging; c_resource := ex_resource;
        c_body := JObj [("metadata", JObj [("labels", JObj [("l1", JStr "v")])])]%string;
        c_old := None; c_new := Some (JObj []); c_reason := RCreate; c_initial := false |}) = Ok ["c"]%string.
Proof. exact ex_stealth_premise. Qed.
Print Assumptions C15_stealth_premise_satisfiable.

(* exceptions are visible and ordered as Python evaluates: labels=None raises only if the label filter is reached *)
Example C15_errors_visible :
  let bad := {| c_class := CWatching; c_resource := ex_resource;
                c_body := JObj [("metadata", JObj [("labels", JNull)])]%string;
                c_old := None; c_new := None; c_reason := RNoop; c_initial := false |} in
  matches (decorate DEvent "e" 0 ex_sel [("l1", CPresent)]%string [] None None CNone CNone CNone) bad = ErrType /\
  matches (decorate DEvent "e" 0 ex_sel [] [("a1", CPresent)]%string None None CNone CNone CNone) bad = Ok false /\
  matches (decorate DEvent "e" 0 {| s_group := None; s_version := None; s_name := SAny "other" |}
                    [("l1", CPresent)]%string [] None None CNone CNone CNone) bad = Ok false.
Proof. exact ex_errors. Qed.
Print Assumptions C15_errors_visible.
