(* C15 — exactly the handlers whose declared criteria hold are invoked; unmatched objects are left untouched.
   Only statements here; proofs in Proofs/Match.v and Proofs/MatchCycle.v.  Models: Model/Match.v (registries.match/
   prematch/_matches_*/_deduplicated/get_handlers of the four registries, the decorator constants of on.py, and the
   docs-shaped relations Holds/Matches written from docs/filters.rst sentence by sentence) and Model/MatchCycle.v (the
   decision skeleton of processing.process_resource_causes, and the documented cause kinds KindHolds).
   All quantification is unbounded: every registry, declaration, callback, body/old/new, oracle outcome.

   CLAUSE TABLE (statement of C15 in properties.jsonl)
   ---------------------------------------------------------------------------------------------------------------------
   clause                                          | status
   ---------------------------------------------------------------------------------------------------------------------
   "for every event the set of handlers invoked    | C15_cycle_invoked_iff_spec (what one processing cycle hands to the
    is exactly the set whose declared criteria     |   executor / daemon machinery: watching, changing, spawning), built on
    all hold"                                      |   C15_cycle_invoked_exactly + C15_selected_keys_iff_spec.  Guard old_silent
                                                   |   = exactly finding F15a (see field/value).  That the executor calls what it
                                                   |   is handed is C02's model; monitored here ("invoked", "invoked-twice").
   resource selector                               | full for exact selectors (name/kind/plural/singular/shortcut/category,
                                                   |   group, version): conjunct M_resource of Matches.  Selector(fn=...) and
                                                   |   EVERYTHING: not covered (sampled neither; discovery is C19's domain).
   cause kind                                      | C15_cause_kind (gate of ChangingRegistry.iter_handlers <-> documented kinds,
                                                   |   incl. resume mixed in / not on deletion unless deleted=True); full.
   label/annotation criteria                       | full: MetaHolds inside C15_match_iff_spec_partial (no guard concerns them),
    (value, present, absent, callback)             |   C15_match_total (no exception on well-formed bodies), C15_errors_visible.
   field/value: current value                      | event/daemon/timer/index: full, C15_non_update_current_only.
                                                   |   create/resume/delete: C15_non_update_current_only_refuted +
                                                   |   C15_match_iff_spec_refuted (finding F15a, open) and the strongest true
                                                   |   C15_non_update_current_only_partial / C15_match_iff_spec_partial.
   field/value for updates: old or new value       | full: C15_update_field_semantics.
   old/new transition + "the field actually        | full: C15_update_field_semantics (+ removed/added/unchanged-sibling Example).
    changed"                                       |
   when callback                                   | full: WhenHolds inside C15_match_iff_spec_partial.
   sub-handlers (@kopf.subhandler)                 | the row of the decorator table: C15_subhandler_inherits (only
                                                   |   field_needs_change is inherited, so "the field actually changed" applies
                                                   |   under @on.update/@on.field parents), C15_subhandler_wf (the criteria theorems
                                                   |   apply to these records); tied through the real decorator inside a running parent.
   value callbacks get None for an absent field    | full since kopf b981eb5 (F15b fixed): Example C15_callback_absent_gets_none,
                                                   |   no callback guard anywhere.
   one function registered twice under the same    | selection: full, C15_dedup, C15_dedup_any_position (any positions), NoDup in
    id is invoked once                             |   C15_selected_keys_iff_spec / C15_cycle_invoked_iff_spec.  Actual call count:
                                                   |   executor (C02); monitored end to end ("invoked-twice", "duplicate").
   objects matched by no handler are left          | C15_stealth_cycle: theorem about the model of process_resource_causes: nothing
    untouched: no annotations, no finaliser        |   handed to executor/daemons, process_changing_cause not run, no finaliser
                                                   |   added, patch.fns empty unless a stale own finaliser is present (then only
                                                   |   its removal).  C15_stealth / C15_stealth_static: the selection level.
                                                   |   "no annotations" as bytes: the only writers of merge-patch content in that
                                                   |   routine are invoked watching handlers and process_changing_cause (neither
                                                   |   runs); the content they would write is C02/C04/C16's model; monitored here:
                                                   |   "cycle-writes" on the real coroutine, "stealth" through process_resource_event.
   quantifier: bounded-exhaustive alphabet +       | theorems are unbounded; the alphabets only bound the D-ties (see manifest).
    random larger ones                             |
   --------------------------------------------------------------------------------------------------------------------- *)
From Coq Require Import ZArith List String Bool.
From KV Require Import Base.Json Base.Dicts Model.Match Proofs.Match Model.MatchCycle Proofs.MatchCycle.
Import ListNotations.

(* ---- match() is the documented conjunction of criteria ---------------------------------- *)
(* The unguarded statement is FALSE of the faithful model (known finding F15a): the docs' own example
   @kopf.on.create(field='spec.f', value=kopf.ABSENT) matches an object created WITH spec.f ... *)
Theorem C15_match_iff_spec_refuted :
  exists h c, wf_decl h /\ body_ok c /\ class_agree h c /\ essence_ok h c /\
              matches h c = Ok true /\ ~ Matches h c.
Proof. exact match_iff_spec_refuted. Qed.
Print Assumptions C15_match_iff_spec_refuted.

(* F15b (field value callbacks got a private marker instead of None for an absent field) was repaired in kopf by
   commit b981eb5; the former C15_match_iff_spec_refuted_callback is gone and the callback guard is dropped below.
   Regression: value=lambda v, **_: v is None on an object WITHOUT the field matches, as documented (and an absent
   field and a null one are indistinguishable to a callback; `v is not None` / bool(v) do not hold for an absent field;
   old=(v is None), new=(v == 0) on an added field 0 matches). *)
Example C15_callback_absent_gets_none :
  matches ex_event_isnone (ex_watching None) = Ok true /\ Matches ex_event_isnone (ex_watching None) /\
  matches ex_event_isnone (ex_watching (Some JNull)) = Ok true /\
  matches ex_event_isnone (ex_watching (Some (JNum 0))) = Ok false /\
  matches (decorate DEvent "e" 0 ex_sel [] [] None (Some ["spec"; "f"]%string) (CCb cb_not_none) CNone CNone)
          (ex_watching None) = Ok false /\
  matches (decorate DEvent "e" 0 ex_sel [] [] None (Some ["spec"; "f"]%string) (CCb cb_truthy) CNone CNone)
          (ex_watching None) = Ok false /\
  matches (decorate DUpdate "u" 0 ex_sel [] [] None (Some ["spec"; "f"]%string) CNone (CCb cb_is_none) (CCb (cb_eq (JNum 0))))
          (ex_upd None (Some (JNum 0)) 0) = Ok true.
Proof. exact callback_absent_regression. Qed.
Print Assumptions C15_callback_absent_gets_none.

(* The strongest true statement: for every declaration the decorators can produce, every well-formed
   body, every callback (arbitrary total functions), and whenever the OLD value does not satisfy
   the value criterion of a create/resume/delete handler unless the current one does:
   match() = True  <->  all declared criteria hold as documented.  (No exception is raised: Ok.) *)
Theorem C15_match_iff_spec_partial : forall h c,
  wf_decl h -> body_ok c -> class_agree h c -> essence_ok h c -> old_silent h c ->
  (matches h c = Ok true <-> Matches h c).
Proof. exact match_iff_spec_partial. Qed.
Print Assumptions C15_match_iff_spec_partial.

(* where the last guard is free: update handlers; event/daemon/timer/index; an unchanged field;
   creation unless the criterion is ABSENT or a callback *)
Theorem C15_old_silent_cases : forall h c,
  (h_needs_change h = true -> old_silent h c) /\
  (is_changing c = false -> old_silent h c) /\
  ((forall p, h_field h = Some p -> resolve_opt (c_old c) p = resolve_opt (c_new c) p) -> old_silent h c) /\
  (c_old c = None -> match h_value h with CAbsent | CCb _ => False | _ => True end -> old_silent h c).
Proof. exact old_silent_cases. Qed.
Print Assumptions C15_old_silent_cases.

(* on a well-formed body match()/prematch() never raise *)
Theorem C15_match_total : forall h c, body_ok c ->
  matches h c = Ok (matches_b h c) /\ prematches h c = Ok (prematches_b h c).
Proof. exact match_total_both. Qed.
Print Assumptions C15_match_total.

(* ---- update handlers (@on.update, @on.field) with a field -------------------------------- *)
(* value= holds on the old OR the new value; old=/new= each on its side; and the field differs
   (changed, added or removed; an unchanged field with a changed sibling does not count) *)
Theorem C15_update_field_semantics : forall h c p,
  body_ok c -> h_field h = Some p -> updating h c ->
  let old := resolve_opt (c_old c) p in
  let new := resolve_opt (c_new c) p in
  (matches h c = Ok true <->
     matches_resource h (c_resource c) = true /\ meta_b c (h_labels h) "labels" = true /\
     meta_b c (h_annotations h) "annotations" = true /\ WhenHolds h c /\
     (Holds c (value_crit (h_value h)) old \/ Holds c (value_crit (h_value h)) new) /\
     affected old new /\ SideHolds c (h_old h) old /\ SideHolds c (h_new h) new).
Proof. exact update_field_semantics. Qed.
Print Assumptions C15_update_field_semantics.

Example C15_update_removed_added_unchanged :
  (* removed field: value=1 holds through the old side; old=1,new=ABSENT; new=PRESENT does not *)
  (matches (ex_update (CVal (JNum 1)) CNone CNone) (ex_upd (Some (JNum 1)) None 0) = Ok true /\
   matches (ex_update CNone (CVal (JNum 1)) CAbsent) (ex_upd (Some (JNum 1)) None 0) = Ok true /\
   matches (ex_update CNone CNone CPresent) (ex_upd (Some (JNum 1)) None 0) = Ok false) /\
  (* added field *)
  (matches (ex_update (CVal (JNum 1)) CNone CNone) (ex_upd None (Some (JNum 1)) 0) = Ok true /\
   matches (ex_update CNone CAbsent CPresent) (ex_upd None (Some (JNum 1)) 0) = Ok true /\
   matches (ex_update CNone CPresent CNone) (ex_upd None (Some (JNum 1)) 0) = Ok false) /\
  (* unchanged field, changed sibling: not matched, but still in scope (prematch) *)
  (matches (ex_update (CVal (JNum 1)) CNone CNone) (ex_upd (Some (JNum 1)) (Some (JNum 1)) 5) = Ok false /\
   matches (ex_update CNone CNone CNone) (ex_upd (Some (JNum 1)) (Some (JNum 1)) 5) = Ok false /\
   prematches (ex_update (CVal (JNum 1)) CNone CNone) (ex_upd (Some (JNum 1)) (Some (JNum 1)) 5) = Ok true).
Proof. exact (conj ex_removed_field (conj ex_added_field ex_unchanged_field_changed_sibling)). Qed.
Print Assumptions C15_update_removed_added_unchanged.

(* ---- all other handlers: "the current ---and only--- state" ------------------------------- *)
(* event / daemon / timer / index: holds *)
Theorem C15_non_update_current_only : forall h c p,
  body_ok c -> is_changing c = false -> h_field h = Some p ->
  (matches h c = Ok true <->
     matches_resource h (c_resource c) = true /\ meta_b c (h_labels h) "labels" = true /\
     meta_b c (h_annotations h) "annotations" = true /\ WhenHolds h c /\
     Holds c (value_crit (h_value h)) (resolve (c_body c) p)).
Proof. exact non_update_current_only_static. Qed.
Print Assumptions C15_non_update_current_only.

(* create / resume / delete: false (F15a): @on.delete(field='spec.f', value=1) matches an object whose spec.f is 2 *)
Theorem C15_non_update_current_only_refuted :
  exists h c p, wf_decl h /\ body_ok c /\ essence_ok h c /\ h_field h = Some p /\ ~ updating h c /\
                matches h c = Ok true /\ ~ Holds c (value_crit (h_value h)) (resolve (c_body c) p).
Proof. exact non_update_current_only_refuted. Qed.
Print Assumptions C15_non_update_current_only_refuted.

(* ... what does hold for them: the criterion on the new OR the old state *)
Theorem C15_non_update_current_only_partial : forall h c p,
  wf_decl h -> body_ok c -> h_is_changing h = true -> is_changing c = true -> h_needs_change h = false ->
  h_field h = Some p ->
  (matches h c = Ok true <->
     matches_resource h (c_resource c) = true /\ meta_b c (h_labels h) "labels" = true /\
     meta_b c (h_annotations h) "annotations" = true /\ WhenHolds h c /\
     (Holds c (value_crit (h_value h)) (resolve_opt (c_new c) p) \/
      Holds c (value_crit (h_value h)) (resolve_opt (c_old c) p))).
Proof. exact non_update_current_only_partial. Qed.
Print Assumptions C15_non_update_current_only_partial.

(* ---- the selected list -------------------------------------------------------------------- *)
(* registry.get_handlers(cause, excluded), when it returns: the registration-ordered filter of the declared
   handlers by (not excluded, cause-kind gate reason/initial/deleted, match), de-duplicated *)
Theorem C15_selected_set : forall excl hs c l,
  get_handlers excl hs c = Ok l ->
  l = deduplicated (filter (selected_b excl c) hs) /\
  (forall h, In h (filter (selected_b excl c) hs) <->
             In h hs /\ mem_str (h_id h) excl = false /\ cause_gate h c = Ok true /\ matches h c = Ok true).
Proof. exact selected_set. Qed.
Print Assumptions C15_selected_set.

(* _deduplicated: one entry per (function object, id), the first one, nothing else removed;
   the same function under different ids (different fields) keeps every entry *)
Theorem C15_dedup : forall l,
  NoDup (map hkey_of (deduplicated l)) /\
  (forall h, In h (deduplicated l) -> In h l) /\
  (forall k, In k (map hkey_of l) <-> In k (map hkey_of (deduplicated l))) /\
  (NoDup (map hkey_of l) -> deduplicated l = l) /\
  (forall pre x post, l = pre ++ x :: post -> ~ In (hkey_of x) (map hkey_of pre) -> In x (deduplicated l)).
Proof. exact dedup_spec. Qed.
Print Assumptions C15_dedup.

(* ... for ANY position of the repetitions (not only neighbours): the result is a subsequence of the input (registration
   order), its members are exactly the entries at the first position of their (function, id), and every registered pair occurs
   exactly once *)
Theorem C15_dedup_any_position : forall l,
  subseq (deduplicated l) l /\
  (forall h, In h (deduplicated l) <->
             exists pre post, l = pre ++ h :: post /\ ~ In (hkey_of h) (map hkey_of pre)) /\
  (forall h, In h l -> occurrences (hkey_of h) (deduplicated l) = 1%nat).
Proof. exact dedup_any_position. Qed.
Print Assumptions C15_dedup_any_position.

Example C15_dedup_nonadjacent :
  rids (get_handlers [] [ex_A DUpdate; ex_B DUpdate; ex_A (DResume false)] ex_downtime_update) = Ok ["a"; "b"]%string /\
  rids (get_handlers [] [ex_A DUpdate; ex_B DUpdate; ex_A (DResume false); ex_B (DResume false)] ex_downtime_update)
    = Ok ["a"; "b"]%string /\
  rids (get_handlers [] [ex_A DUpdate; ex_B DUpdate; ex_B DField; ex_A DUpdate; ex_A (DResume false)] ex_downtime_update)
    = Ok ["a"; "b"]%string /\
  rids (get_handlers [] [ex_A DUpdate; decorate DUpdate "a" 1 ex_sel [] [] None None CNone CNone CNone; ex_A (DResume false)]
                     ex_downtime_update) = Ok ["a"; "a"]%string.
Proof. exact ex_dedup_nonadjacent. Qed.
Print Assumptions C15_dedup_nonadjacent.

Example C15_dedup_example :
  rids (get_handlers [] ex_twice
         {| c_class := CChanging; c_resource := ex_resource; c_body := ex_body (Some (JNum 1)); c_old := None;
            c_new := Some (ex_spec (Some (JNum 1))); c_reason := RCreate; c_initial := true |})
  = Ok ["fn"; "fn/spec.f"; "fn/spec.g"]%string.
Proof. exact ex_dedup. Qed.
Print Assumptions C15_dedup_example.

(* ---- prematch vs match; stealth at the level of selection ----------------------------------- *)
Theorem C15_match_is_prematch_and_changes : forall h c,
  matches h c = Ok true <-> prematches h c = Ok true /\ matches_field_changes h c = true.
Proof. exact match_is_prematch_and_changes. Qed.
Print Assumptions C15_match_is_prematch_and_changes.

(* an object out of scope (ChangingRegistry.prematch False): no changing handler is selected for ANY cause and
   exclusion set, and no finaliser is required.  (That then nothing is written at all is the cycle model's theorem,
   C02/C06; on the implementation it is monitored through process_resource_event.) *)
Theorem C15_stealth : forall hs c,
  registry_prematch hs c = Ok false ->
  (forall excl l, get_handlers excl hs c = Ok l -> l = []) /\
  (forall excl, requires_finalizer true excl hs c = Ok false).
Proof. exact stealth_selection. Qed.
Print Assumptions C15_stealth.

(* event / daemon / timer / index handlers: none matches => none selected, no finaliser required *)
Theorem C15_stealth_static : forall hs c,
  c_class c <> CChanging ->
  (forall h, In h hs -> matches h c = Ok false) ->
  (forall excl, get_handlers excl hs c = Ok []) /\
  (forall excl, requires_finalizer false excl hs c = Ok false).
Proof. exact nothing_matches_nothing_selected. Qed.
Print Assumptions C15_stealth_static.

(* ---- non-vacuity ------------------------------------------------------------------------------ *)
(* the guards of C15_match_iff_spec_partial hold together (labels, annotation, when=, field, callback, new=),
   with the equivalence exercised on both sides *)
Example C15_guards_satisfiable : forall new,
  wf_decl ex_guarded /\ body_ok (ex_guarded_cause new) /\ class_agree ex_guarded (ex_guarded_cause new) /\
  essence_ok ex_guarded (ex_guarded_cause new) /\
  old_silent ex_guarded (ex_guarded_cause new).
Proof. exact ex_guards. Qed.
Print Assumptions C15_guards_satisfiable.

Example C15_guarded_both_sides :
  matches ex_guarded (ex_guarded_cause (Some (JNum 2))) = Ok true /\
  matches ex_guarded (ex_guarded_cause (Some (JNum 1))) = Ok false /\
  matches ex_guarded (ex_guarded_cause None) = Ok false.
Proof. exact ex_guarded_both. Qed.
Print Assumptions C15_guarded_both_sides.

(* the stealth premise is satisfiable with a non-empty registry, and the same registry does select once the label is there *)
Example C15_stealth_premise_satisfiable :
  registry_prematch ex_labelled (ex_changing RCreate None None) = Ok false /\
  registry_prematch ex_labelled (ex_guarded_cause None) = Ok false /\
  rids (get_handlers [] ex_labelled
     {| c_class := CChanging; c_resource := ex_resource;
        c_body := JObj [("metadata", JObj [("labels", JObj [("l1", JStr "v")])])]%string;
        c_old := None; c_new := Some (JObj []); c_reason := RCreate; c_initial := false |}) = Ok ["c"]%string.
Proof. exact ex_stealth_premise. Qed.
Print Assumptions C15_stealth_premise_satisfiable.

(* exceptions are visible and ordered as Python evaluates: labels=None raises only if the label filter is reached *)
Example C15_errors_visible :
  let bad := {| c_class := CWatching; c_resource := ex_resource;
                c_body := JObj [("metadata", JObj [("labels", JNull)])]%string;
                c_old := None; c_new := None; c_reason := RNoop; c_initial := false |} in
  matches (decorate DEvent "e" 0 ex_sel [("l1", CPresent)]%string [] None None CNone CNone CNone) bad = ErrType /\
  matches (decorate DEvent "e" 0 ex_sel [] [("a1", CPresent)]%string None None CNone CNone CNone) bad = Ok false /\
  matches (decorate DEvent "e" 0 {| s_group := None; s_version := None; s_name := SAny "other" |}
                    [("l1", CPresent)]%string [] None None CNone CNone CNone) bad = Ok false.
Proof. exact ex_errors. Qed.
Print Assumptions C15_errors_visible.

(* ==== the cause kinds ========================================================================= *)
(* the gate of ChangingRegistry.iter_handlers (reason / initial / deleted) is the documented one; other registries have none *)
Theorem C15_cause_kind : forall h c, cause_gate h c = Ok true <-> KindHolds h c.
Proof. exact cause_kind_iff. Qed.
Print Assumptions C15_cause_kind.

Example C15_cause_kind_example :
  KindHolds ex_resume_decl ex_downtime_update /\
  ~ KindHolds (decorate DCreate "c" 0 ex_sel [] [] None None CNone CNone CNone) ex_downtime_update /\
  ~ KindHolds ex_resume_decl ex_deleting_listed /\
  KindHolds (decorate (DResume true) "r" 0 ex_sel [] [] None None CNone CNone CNone) ex_deleting_listed.
Proof. exact ex_kind. Qed.
Print Assumptions C15_cause_kind_example.

(* ==== the selected set in the documented terms ================================================== *)
(* for every registry and cause (guards: decorator-made declarations, well-formed body, typed registry, essence carries the
   handler fields, and old_silent = F15a): the selected (function, id) pairs are exactly the declared ones -- some
   registration not excluded, of the cause's kind, with all documented criteria holding -- each exactly once *)
Theorem C15_selected_keys_iff_spec : forall excl hs c l,
  get_handlers excl hs c = Ok l -> guards hs c ->
  NoDup (map hkey_of l) /\ (forall k, In k (map hkey_of l) <-> Declared excl hs c k).
Proof. exact selected_keys_iff_spec. Qed.
Print Assumptions C15_selected_keys_iff_spec.

(* ==== one processing cycle (process_resource_causes) =========================================== *)
(* what is handed over is what the registries select; the changing handlers only for an object in scope, in a cycle that
   queued no finaliser addition; nothing else is handed over *)
Theorem C15_cycle_invoked_exactly : forall g i o, cycle g i = Ok o ->
  cycle_watching g i = Ok (o_watching o) /\
  cycle_spawning g i = Ok (o_spawning o) /\
  (forall l, o_changing o = Some l ->
     cycle_scope g i = Ok true /\ o_matched o = true /\ ~ In FBlock (o_fns o) /\
     (if handler_reason (i_reason i)
      then get_handlers [] (g_changing g) (mk_cause CChanging i) = Ok l else l = [])) /\
  (o_matched o = true -> cycle_scope g i = Ok true).
Proof. exact cycle_invoked_exactly. Qed.
Print Assumptions C15_cycle_invoked_exactly.

Theorem C15_cycle_invoked_iff_spec : forall g i o,
  cycle g i = Ok o ->
  (has_handlers (g_watching g) (i_resource i) = true -> guards (g_watching g) (mk_cause CWatching i) ->
     NoDup (map hkey_of (o_watching o)) /\
     forall k, In k (map hkey_of (o_watching o)) <-> Declared [] (g_watching g) (mk_cause CWatching i) k) /\
  (forall l, o_changing o = Some l -> handler_reason (i_reason i) = true -> guards (g_changing g) (mk_cause CChanging i) ->
     NoDup (map hkey_of l) /\
     forall k, In k (map hkey_of l) <-> Declared [] (g_changing g) (mk_cause CChanging i) k) /\
  (forall l, o_spawning o = Some l -> guards (g_spawning g) (mk_cause CSpawning i) ->
     NoDup (map hkey_of l) /\
     forall k, In k (map hkey_of l) <-> Declared (i_forever_stopped i) (g_spawning g) (mk_cause CSpawning i) k).
Proof. exact cycle_invoked_iff_spec. Qed.
Print Assumptions C15_cycle_invoked_iff_spec.

(* STEALTH for the whole routine: an object matched by no watching handler, no spawning handler, and out of scope of the
   changing handlers (none for its kind, or ChangingRegistry.prematch False) -- for every event type, every oracle outcome,
   every carried patch: nothing is handed to the executor or the daemons, process_changing_cause does not run (so neither
   progress nor the last-handled configuration is written), no finaliser is added; patch.fns stays empty unless the object
   carries a stale own finaliser, and then it is only removed. *)
Theorem C15_stealth_cycle : forall g i o,
  cycle g i = Ok o ->
  no_watcher_matches g i -> no_spawner_matches g i -> cycle_scope g i = Ok false ->
  o_watching o = [] /\ (o_spawning o = None \/ o_spawning o = Some []) /\
  o_changing o = None /\ o_matched o = false /\
  ~ In FBlock (o_fns o) /\
  (deletion_blocked (i_finalizer i) (i_body i) = Ok false -> o_fns o = []) /\
  (deletion_blocked (i_finalizer i) (i_body i) = Ok true -> In FAllow (o_fns o)).
Proof. exact stealth_cycle. Qed.
Print Assumptions C15_stealth_cycle.

Theorem C15_cycle_scope_false : forall g i,
  cycle_scope g i = Ok false <->
  (has_handlers (g_changing g) (i_resource i) = false \/
   (has_handlers (g_changing g) (i_resource i) = true /\ registry_prematch (g_changing g) (mk_cause CChanging i) = Ok false)).
Proof. exact cycle_scope_false. Qed.
Print Assumptions C15_cycle_scope_false.

(* non-vacuity: a registry with an event handler, a daemon, create/delete/update handlers, all filtered by a label.
   Unlabelled object: the premises of C15_stealth_cycle hold and nothing happens; a stale own finaliser is removed. *)
Example C15_stealth_cycle_example :
  cycle_show (cycle ex_registry (ex_in [] [] false RCreate None)) = Ok ([], Some [], [], None, false) /\
  cycle_show (cycle ex_registry (ex_in [] [JStr "kopf/fin"] false RCreate None)) = Ok ([], Some [], [FAllow], None, false) /\
  cycle_show (cycle ex_registry (ex_in [] [JStr "other"; JStr "kopf/fin"] true RDelete None)) = Ok ([], None, [FAllow; FAllow], None, false) /\
  no_watcher_matches ex_registry (ex_in [] [] false RCreate None) /\
  no_spawner_matches ex_registry (ex_in [] [] false RCreate None) /\
  cycle_scope ex_registry (ex_in [] [] false RCreate None) = Ok false.
Proof. exact ex_stealth_cycle. Qed.
Print Assumptions C15_stealth_cycle_example.

(* ... and the same registry does react once the label is there: finaliser first, then create / update / delete handlers *)
Example C15_matched_cycle_example :
  cycle_show (cycle ex_registry (ex_in [("l1", JStr "v")] [] false RCreate None))
    = Ok ([10%nat], Some ["dm"], [FBlock], None, false) /\
  cycle_show (cycle ex_registry (ex_in [("l1", JStr "v")] [JStr "kopf/fin"] false RCreate None))
    = Ok ([10%nat], Some ["dm"], [], Some [0%nat], true) /\
  cycle_show (cycle ex_registry (ex_in [("l1", JStr "v")] [JStr "kopf/fin"] false RUpdate (Some (JObj [("spec", JObj [("f", JNum 1)])]))))
    = Ok ([10%nat], Some ["dm"], [], Some [2%nat], true) /\
  cycle_show (cycle ex_registry (ex_in [("l1", JStr "v")] [JStr "kopf/fin"] true RDelete (Some (JObj [("spec", JObj [("f", JNum 2)])]))))
    = Ok ([10%nat], None, [FAllow], Some [1%nat], true).
Proof. exact ex_matched_cycle. Qed.
Print Assumptions C15_matched_cycle_example.

(* the guards of C15_selected_keys_iff_spec / C15_cycle_invoked_iff_spec hold for that registry on an update *)
Example C15_registry_guards_satisfiable :
  guards (g_changing ex_registry) (mk_cause CChanging (ex_in [("l1", JStr "v")] [JStr "kopf/fin"] false RUpdate
                                                         (Some (JObj [("spec", JObj [("f", JNum 1)])])))).
Proof. exact ex_guards_registry. Qed.
Print Assumptions C15_registry_guards_satisfiable.

(* ==== sub-handlers ============================================================================== *)
(* the handler record kopf.subhandler builds inside a running parent: what is inherited (field_needs_change, id prefix), what is
   fixed, what comes from the arguments; hence it is an update handler exactly under a parent that is one, and is selected for
   every cause kind *)
Theorem C15_subhandler_inherits : forall parent id fn labels annotations when field value old new,
  let s := sub_decorate parent id fn labels annotations when field value old new in
  h_needs_change s = h_needs_change parent /\ h_id s = (h_id parent ++ "/" ++ id)%string /\
  h_class s = HChanging /\ h_selector s = None /\ h_reason s = None /\ h_initial s = false /\
  h_deleted s = false /\ h_requires_finalizer s = false /\
  h_fn s = fn /\ h_labels s = labels /\ h_annotations s = annotations /\ h_when s = when /\
  h_field s = field /\ h_value s = value /\ h_old s = old /\ h_new s = new /\
  (forall c, updating s c <-> (is_changing c = true /\ h_needs_change parent = true)) /\
  (forall c, cause_gate s c = Ok true).
Proof. exact subhandler_inherits. Qed.
Print Assumptions C15_subhandler_inherits.

(* whenever the real decorator accepts the arguments under a top-level parent, the record is well-formed: every criteria theorem
   above (C15_match_iff_spec_partial, C15_update_field_semantics, C15_non_update_current_only_partial, ...) applies to it *)
Theorem C15_subhandler_wf : forall k pid pfn sel pl pa pw pf pv po pn id fn labels annotations when field value old new,
  let parent := decorate k pid pfn sel pl pa pw pf pv po pn in
  sub_allowed parent old new = true ->
  Forall (fun kv => crit_specified (snd kv)) labels -> Forall (fun kv => crit_specified (snd kv)) annotations ->
  wf_decl (sub_decorate parent id fn labels annotations when field value old new).
Proof. exact subhandler_wf. Qed.
Print Assumptions C15_subhandler_wf.

Example C15_subhandler_example :
  (* field= under @on.update: changed -> yes; unchanged (sibling changed) -> no, also with a matching value= *)
  matches (ex_sub DUpdate CNone CNone CNone) (ex_upd (Some (JNum 1)) (Some (JNum 2)) 0) = Ok true /\
  matches (ex_sub DUpdate CNone CNone CNone) (ex_upd (Some (JNum 1)) (Some (JNum 1)) 5) = Ok false /\
  matches (ex_sub DUpdate (CVal (JNum 1)) CNone CNone) (ex_upd (Some (JNum 1)) (Some (JNum 1)) 5) = Ok false /\
  matches (ex_sub DField CNone CNone (CVal (JNum 2))) (ex_upd (Some (JNum 1)) (Some (JNum 2)) 0) = Ok true /\
  matches (ex_sub DCreate CNone CNone CNone) (ex_changing RCreate None (Some (JNum 1))) = Ok true /\
  h_id (ex_sub DUpdate CNone CNone CNone) = "p/s"%string /\
  sub_allowed (decorate DCreate "p" 0 ex_sel [] [] None None CNone CNone CNone) CNone CPresent = false /\
  sub_allowed (decorate DEvent "p" 0 ex_sel [] [] None None CNone CNone CNone) CNone CNone = false.
Proof. exact ex_subhandler. Qed.
Print Assumptions C15_subhandler_example.
