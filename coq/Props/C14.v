(* C14 — resume handlers run once per object per operator process.  Function level; only statements here.
   Models: Model/Resume.v (the per-object memory flags, cause detection, handler selection; execution abstracted as
   "every awakened selected handler runs") and Model/ResumeCycle.v (the same flags composed with the CONCRETE progress
   records and the C02 pipeline of Model/Progress.v: every lifecycle, real purge/store).  Proofs: Proofs/Resume.v,
   Proofs/ResumeCycle.v (the latter uses the theorems of Proofs/Progress.v, C02).  The history level (whole operator
   against an API server) is the coordinator's: cycle_monitors.mon_c14.

   Reading guide.  [K] is the type of memory keys (the uid) with a correct equality [keqb] (rs_lawful).  A history is a list of
   labels: [LEv i] / [CEv i] = one watch/listing event of one object processed by the reactor (its type, the object's
   view, the oracles), [LRestart] / [CRestart] = a new operator process (fresh memories; the records on the objects stay).
   [obs_at regs pre b] / [cobs_at ...] is what the reactor does with event [b] delivered after the history [pre] since the
   very first start; [rs_trace] / [rc_trace] is the list of all of them (C14_trace_is_obs_at, C14_cycle_trace_is_obs_at).
   [rs_quiet k l]: no restart and no DELETED event of k in l.  All histories are quantified universally: re-listings
   (every object again with type None, at any time), reconnects, edits (the views are arbitrary per event), outcomes and
   retries (oracles), events of other objects in between, restarts / crashes at any point (a label boundary; a patch lost
   in a crash is covered: rc_world does not relate the records across a restart).

   CLAUSE TABLE (statement and quantifier of C14 in properties.jsonl)
   ------------------------------------------------------------------------------------------------------------------
   1  "when an operator starts, every object that already exists, was handled before and carries no unfinished progress
      from an earlier process gets its resume handlers executed"
      1a selected at first sight .............. full: C14_runs_for_preexisting (first event of the process, from the listing,
                                                handled before, reaches the handling: every matching resume registration is
                                                selected — cause resume / update / delete — and, abstract execution, invoked
                                                when awake), C14_runs_for_preexisting_deferred (the listing event itself did
                                                not reach the handling), C14_cycle_selects_resume_while_initial (composed model)
      1b the obligation stays until done ...... full: C14_resume_pending_until_closed (until some event of the object closes a
                                                cycle, every event of it is initial — whatever is re-listed / edited / retried),
                                                C14_cycle_closes_only_when_resumed (fully_handled_once is set only by a handling
                                                step in which EVERY selected handler, so every selected resume handler, has
                                                finished; with no handler selected it is set at once: that is the code)
      1c due handlers do run .................. full for all_at_once / one_by_one / asap: C14_cycle_due_resume_is_invoked
                                                (= C02_due_is_invoked on the step: all due / the first due / a due one with the
                                                fewest attempts); records "from an earlier process" only delay (sleeping) or
                                                exclude (finished) a handler: C14_cycle_invoked_are_selected
      1d "gets ... executed" as an eventuality  not a function-level statement (needs the closed loop: events keep arriving,
                                                patches are applied): monitored — function level resume-missed-at-first-cycle,
                                                history level mon_c14 resume-missed; C03's liveness theorems are the coordinator's
      1e the listing reaches the processor .... outside both models: they decide about noticed_by_listing / initial at the
                                                level of PROCESSED events (an LEv / CEv is an event the processor got); that
                                                every event the watch stream yields is processed, in order, is C01's lossless
                                                clause.  Monitored end to end: the real queueing.watcher + worker +
                                                process_resource_event on listing batches followed at once by watch events of
                                                the same objects, with and without worker_limit, judged at quiescence —
                                                resume-missed-end-to-end / resume-twice-end-to-end (c14_model.run_stream_history);
                                                likewise that a listing is delivered with type None (watching.continuous_watch /
                                                infinite_watch) is outside the models (C19's watch continuity): the same monitor on
                                                streams produced by the REAL infinite_watch over a fake LIST + WATCH with the first
                                                LIST failing k times, 410 -> re-listing, disconnects (the histories named api:N)
   2  "each resume handler runs to completion at most once per object per operator process: re-listings, reconnects and
      later changes of the object do not repeat it"
      2a the flags ............................ full: C14_initial_monotone, C14_closed_cycle_ends_resuming,
                                                C14_not_for_created_later, C14_never_mixed_into_creation
      2b the count ............................ _partial + _refuted:
                                                C14_cycle_at_most_once (composed model; for every history, lifecycle, outcome:
                                                <= 1 success per process, object, resume registration) under world hypotheses
                                                (uid never reused; events show the records as kopf's own patch left them;
                                                handlers' own writes keep finished records finished; a deletion is never undone)
                                                and the guard rc_no_purge_while_open = no supersession purge between the success
                                                and the closing of the cycle, except the purge of a deletion the registration
                                                did not opt in for.  The C02 hypothesis of the first round is discharged here
                                                against C02_finished_never_selected / C02_finished_stays_finished /
                                                C02_attempt_is_recorded / C02_close_iff_done.
                                                C14_cycle_at_most_once_unguarded_refuted: without the guard, false of the faithful
                                                model on the history of finding F1401 (= F0201 seen from C14), computed by the
                                                model itself: C14_example_flap_purges.
                                                C14_at_most_once / C14_at_most_once_unconditional_refuted: the same over the
                                                abstract model with the C02 guarantee as an explicit hypothesis (kept: names stable)
   3  "resume handlers are not run for objects being deleted unless they opted in"
                                                full: C14_not_on_deleting_unless_opted_in, C14_cycle_not_on_deleting (selection),
                                                C14_invoked_only_selected, C14_cycle_invoked_are_selected (only selected run)
   Q  quantifier: reconnects / re-listings (Listed events of any objects at any time), edits before / during / after the
      cycle (arbitrary views), failures and retries (arbitrary outcome oracles, sleeping records, three lifecycles + any
      position-picking one via C02), restarts and crash points (LRestart / CRestart anywhere) — all universally quantified
      in every theorem above.
   Not covered by proof: the gate (whether process_changing_cause is reached: throttling, prematch, finalizer juggling,
   consistency wait — an oracle here; C05 / C03); the world hypotheses themselves (patches applied, no stale echo: C03);
   two different functions registered under one handler id (the pipeline model is per id; monitors skip such ids);
   sub-handlers of resume handlers beyond "their writes keep finished records finished" (C02). *)
From Coq Require Import ZArith List String Bool Arith.
From KV Require Import Base.Json Model.Resume Proofs.Resume Model.Progress Model.ResumeCycle Proofs.ResumeCycle.
Import ListNotations.
Open Scope nat_scope.
Open Scope list_scope.

(* the trace of a history consists of the observations [obs_at] of its prefixes, stamped with the incarnation number *)
Theorem C14_trace_is_obs_at : forall K (keqb : K -> K -> bool) regs pre b,
  rs_trace keqb regs (pre ++ [LEv b]) =
  rs_trace keqb regs pre ++ [{| en_epoch := epoch_after 0 pre; en_in := b; en_obs := obs_at keqb regs pre b |}].
Proof. exact (@trace_snoc). Qed.
Print Assumptions C14_trace_is_obs_at.

(* Within a process, `initial` of an object can only go from true to false: whatever is re-listed, edited or retried in
   between (l is arbitrary), once an event of the object was not initial, no later one is. *)
Theorem C14_initial_monotone : forall K (keqb : K -> K -> bool), rs_lawful keqb ->
  forall regs pre a l b,
    in_key a = in_key b -> rs_quiet keqb (in_key b) (LEv a :: l) ->
    ob_initial0 (obs_at keqb regs pre a) = false ->
    ob_initial0 (obs_at keqb regs (pre ++ LEv a :: l) b) = false.
Proof. exact (@initial_monotone). Qed.
Print Assumptions C14_initial_monotone.

(* Once a handling cycle of the object has closed in this process (done or skip: fully_handled_once), no later event of
   it is initial and no resume handler is selected for it any more — re-listings included. *)
Theorem C14_closed_cycle_ends_resuming : forall K (keqb : K -> K -> bool), rs_lawful keqb ->
  forall regs pre a l b h,
    in_key a = in_key b -> rs_quiet keqb (in_key b) (LEv a :: l) ->
    ob_handled_after (obs_at keqb regs pre a) = true ->
    NoDup (map hd_ix regs) -> In h regs -> rs_is_resume_handler h = true ->
    ob_initial0 (obs_at keqb regs (pre ++ LEv a :: l) b) = false /\
    ob_initial (obs_at keqb regs (pre ++ LEv a :: l) b) = false /\
    ~ In (hd_ix h) (ob_selected (obs_at keqb regs (pre ++ LEv a :: l) b)).
Proof. exact (@closed_cycle_ends_resuming). Qed.
Print Assumptions C14_closed_cycle_ends_resuming.

(* Per process (incarnation e) and object k, every resume registration has at most one successful invocation, for ALL
   histories in which (uid_final) DELETED is the last event of the object within a process, and
   (C02: rs_c02_finished_persisted) after the handler's success its progress record is seen as finished by every later
   event of the object until a cycle of the object has closed.  Inside the cycle the finished record keeps the handler
   from being invoked (C02_finished_never_selected); after it, C14_initial_monotone does. *)
Theorem C14_at_most_once : forall K (keqb : K -> K -> bool), rs_lawful keqb ->
  forall regs k h ls,
    NoDup (map hd_ix regs) -> In h regs -> rs_is_resume_handler h = true ->
    rs_uid_final keqb k ls ->
    rs_c02_finished_persisted keqb regs k (hd_ix h) (hd_id h) [] 0 ls ->
    forall e, rs_successes keqb e k (hd_ix h) (rs_trace keqb regs ls) <= 1.
Proof. exact (@at_most_once). Qed.
Print Assumptions C14_at_most_once.

(* ... and without the C02 hypothesis the statement is false of the faithful model: when the finished record is not on
   the object in the next event of a still open cycle (a sibling is retrying), the handler runs to completion again. *)
Theorem C14_at_most_once_unconditional_refuted :
  exists regs ls k h,
    NoDup (map hd_ix regs) /\ In h regs /\ rs_is_resume_handler h = true /\
    rs_uid_final String.eqb k ls /\
    rs_successes String.eqb 0 k (hd_ix h) (rs_trace String.eqb regs ls) = 2.
Proof. exact at_most_once_unconditional_refuted. Qed.
Print Assumptions C14_at_most_once_unconditional_refuted.

(* The first event of an object in a process, if it comes from the listing, the object was handled before, and the event
   reaches the handling: every matching resume handler (opted in, if the object is being deleted) is selected — as the
   cause `resume` when nothing changed, else mixed into `update` / `delete` — and is invoked unless its record sleeps. *)
Theorem C14_runs_for_preexisting : forall K (keqb : K -> K -> bool) regs pre b h,
    rs_find keqb (in_key b) (run keqb regs [] pre) = None ->
    in_evt b = EListed -> in_gate b = true -> vw_old_none (in_view b) = false ->
    (vw_deleting (in_view b) = true -> vw_blocked (in_view b) = true /\ rs_ob (hd_deleted h) = true) ->
    In h regs -> hd_reason h = None -> rs_is_resume_handler h = true -> rs_mem_nat (hd_ix h) (in_match b) = true ->
    selects_resume regs b h (obs_at keqb regs pre b).
Proof. exact (@runs_for_preexisting). Qed.
Print Assumptions C14_runs_for_preexisting.

(* ... and when the listing event itself does not reach the handling (finalizer being added, throttling, consistency
   wait), the first later event that does — of any type — gets them. *)
Theorem C14_runs_for_preexisting_deferred : forall K (keqb : K -> K -> bool), rs_lawful keqb ->
  forall regs pre a l b h,
    rs_find keqb (in_key a) (run keqb regs [] pre) = None -> in_evt a = EListed -> in_gate a = false ->
    in_key a = in_key b -> unreached keqb (in_key b) l ->
    in_evt b <> EDeleted -> in_gate b = true -> vw_old_none (in_view b) = false ->
    (vw_deleting (in_view b) = true -> vw_blocked (in_view b) = true /\ rs_ob (hd_deleted h) = true) ->
    In h regs -> hd_reason h = None -> rs_is_resume_handler h = true -> rs_mem_nat (hd_ix h) (in_match b) = true ->
    selects_resume regs b h (obs_at keqb regs (pre ++ LEv a :: l) b).
Proof. exact (@runs_for_preexisting_deferred). Qed.
Print Assumptions C14_runs_for_preexisting_deferred.

(* An object first seen in a process by a watch event (ADDED/MODIFIED: created after the start) is never initial in that
   process and never gets a resume handler, whatever is re-listed later. *)
Theorem C14_not_for_created_later : forall K (keqb : K -> K -> bool), rs_lawful keqb ->
  forall regs pre a l b h,
    rs_find keqb (in_key a) (run keqb regs [] pre) = None ->
    in_evt a <> EListed ->
    in_key a = in_key b -> rs_quiet keqb (in_key b) (LEv a :: l) ->
    NoDup (map hd_ix regs) -> In h regs -> rs_is_resume_handler h = true ->
    (ob_initial0 (obs_at keqb regs pre a) = false /\ ~ In (hd_ix h) (ob_selected (obs_at keqb regs pre a))) /\
    (ob_initial0 (obs_at keqb regs (pre ++ LEv a :: l) b) = false /\
     ob_initial (obs_at keqb regs (pre ++ LEv a :: l) b) = false /\
     ~ In (hd_ix h) (ob_selected (obs_at keqb regs (pre ++ LEv a :: l) b))).
Proof. exact (@not_for_created_later). Qed.
Print Assumptions C14_not_for_created_later.

(* A resume handler selected for an object being deleted has opted in (deleted=True): any memories, any event. *)
Theorem C14_not_on_deleting_unless_opted_in : forall K (keqb : K -> K -> bool) regs ms i h,
    NoDup (map hd_ix regs) -> In h regs -> rs_is_resume_handler h = true ->
    vw_deleting (in_view i) = true ->
    In (hd_ix h) (ob_selected (snd (rs_step keqb regs ms i))) -> rs_ob (hd_deleted h) = true.
Proof. exact (@not_on_deleting_unless_opted_in). Qed.
Print Assumptions C14_not_on_deleting_unless_opted_in.

(* Creation never mixes with resuming: a creation cause is never initial and selects no resume handler. *)
Theorem C14_never_mixed_into_creation : forall K (keqb : K -> K -> bool) regs ms i h,
    NoDup (map hd_ix regs) -> In h regs -> rs_is_resume_handler h = true ->
    ob_reason (snd (rs_step keqb regs ms i)) = RsCreate ->
    ob_initial (snd (rs_step keqb regs ms i)) = false /\ ~ In (hd_ix h) (ob_selected (snd (rs_step keqb regs ms i))).
Proof. exact (@never_mixed_into_creation). Qed.
Print Assumptions C14_never_mixed_into_creation.

(* only selected handlers are invoked (abstract model) *)
Theorem C14_invoked_only_selected : forall K (keqb : K -> K -> bool) regs ms i ix oc,
  In (ix, oc) (ob_invoked (snd (rs_step keqb regs ms i))) -> In ix (ob_selected (snd (rs_step keqb regs ms i))).
Proof. exact (@invoked_only_selected). Qed.
Print Assumptions C14_invoked_only_selected.

(* ================= the composed model: flags + concrete progress records + the C02 pipeline ================= *)

Theorem C14_cycle_trace_is_obs_at : forall K (keqb : K -> K -> bool) name regs pre b,
  rc_trace keqb name regs (pre ++ [CEv b]) =
  rc_trace keqb name regs pre ++ [{| ce_epoch := cepoch_after 0 pre; ce_in := b; ce_obs := cobs_at keqb name regs pre b |}].
Proof. exact (@ctrace_snoc). Qed.
Print Assumptions C14_cycle_trace_is_obs_at.

(* 1b. An object first seen in a process by the listing stays initial at every event — re-listings, edits, retries, events
   of other objects in between — until some event of it has set fully_handled_once (l is arbitrary). *)
Theorem C14_resume_pending_until_closed : forall K (keqb : K -> K -> bool), rs_lawful keqb ->
  forall name regs pre a l b,
    rs_find keqb (ci_key a) (crun keqb name regs [] pre) = None ->
    ci_evt a = EListed ->
    ci_key a = ci_key b -> rc_quiet keqb (ci_key b) (CEv a :: l) ->
    co_handled_after (cobs_at keqb name regs pre a) = false ->
    (forall l1 c l2, l = l1 ++ CEv c :: l2 -> ci_key c = ci_key b ->
                     co_handled_after (cobs_at keqb name regs (pre ++ CEv a :: l1) c) = false) ->
    co_initial0 (cobs_at keqb name regs (pre ++ CEv a :: l) b) = true.
Proof. exact (@pending_until_closed). Qed.
Print Assumptions C14_resume_pending_until_closed.

(* 1a (composed). While initial, every event that reaches the handling of a handled-before object selects every matching
   resume registration (up to _deduplicated), opted in if the object is being deleted: any memories, any event type. *)
Theorem C14_cycle_selects_resume_while_initial : forall K (keqb : K -> K -> bool) name regs ms b h,
  co_initial0 (snd (rc_step keqb name regs ms b)) = true ->
  ci_evt b <> EDeleted -> ci_gate b = true -> ci_old_none b = false ->
  (ci_deleting b = true -> ci_blocked b = true /\ rs_ob (hd_deleted h) = true) ->
  In h regs -> hd_reason h = None -> rs_is_resume_handler h = true -> rs_mem_nat (hd_ix h) (ci_match b) = true ->
  cselects_resume regs b h (snd (rc_step keqb name regs ms b)).
Proof. exact (@initial_selects). Qed.
Print Assumptions C14_cycle_selects_resume_while_initial.

(* 1b. fully_handled_once is set only by a step that reaches the handling with a handler cause and in which every selected
   handler — every selected resume handler — has finished (success or permanent failure) after the step. *)
Theorem C14_cycle_closes_only_when_resumed : forall K (keqb : K -> K -> bool) name regs ms i,
  rs_handled (crecalled keqb ms i) = false ->
  co_handled_after (snd (rc_step keqb name regs ms i)) = true ->
  ci_gate i = true /\ rs_is_handler_reason (co_reason (snd (rc_step keqb name regs ms i))) = true /\
  forall h', In h' (co_sel (snd (rc_step keqb name regs ms i))) ->
    exists hs, pg_find (name (hd_id h')) (st_items (r_final (co_result (snd (rc_step keqb name regs ms i))))) = Some hs /\
               pg_finished hs = true.
Proof. exact (@closes_only_when_finished). Qed.
Print Assumptions C14_cycle_closes_only_when_resumed.

(* 1c. In a handling step the handlers that run are the due ones among the selected (not recorded finished, recorded delay
   elapsed), as the lifecycle picks them. *)
Theorem C14_cycle_due_resume_is_invoked : forall K (keqb : K -> K -> bool) name regs ms i,
  let o := snd (rc_step keqb name regs ms i) in
  ci_gate i = true -> rs_is_handler_reason (co_reason o) = true ->
  let invoked := map fst (r_invoked (co_result o)) in
  let due := pg_due (ci_body i) (rc_ids name (co_sel o)) (ci_now i) in
  (ci_lc i = LAll -> invoked = due) /\
  (ci_lc i = LOne -> invoked = firstn 1 due) /\
  (ci_lc i = LAsap -> (due = [] /\ invoked = []) \/
                      exists s, invoked = [s] /\ In s due /\
                                forall s', In s' due -> (pg_rec_retries (pg_find s (ci_body i)) <= pg_rec_retries (pg_find s' (ci_body i)))%Z).
Proof. exact (@cycle_due_is_invoked). Qed.
Print Assumptions C14_cycle_due_resume_is_invoked.

(* 3 / 1c. Whatever is invoked is a selected handler whose record is neither finished nor sleeping; the retry number is the
   recorded one. *)
Theorem C14_cycle_invoked_are_selected : forall K (keqb : K -> K -> bool) name regs ms i s n,
  In (s, n) (r_invoked (co_result (snd (rc_step keqb name regs ms i)))) ->
  (exists h', In h' (co_sel (snd (rc_step keqb name regs ms i))) /\ name (hd_id h') = s) /\
  pg_rec_finished (pg_find s (ci_body i)) = false /\
  pg_rec_sleeping (ci_now i) (pg_find s (ci_body i)) = false /\
  n = pg_rec_retries (pg_find s (ci_body i)).
Proof. exact (@invoked_are_selected). Qed.
Print Assumptions C14_cycle_invoked_are_selected.

Theorem C14_cycle_not_on_deleting : forall K (keqb : K -> K -> bool) name regs ms i h,
  rs_is_resume_handler h = true -> ci_deleting i = true ->
  In h (co_sel (snd (rc_step keqb name regs ms i))) -> rs_ob (hd_deleted h) = true.
Proof. exact (@cycle_not_on_deleting). Qed.
Print Assumptions C14_cycle_not_on_deleting.

(* 2b. At most one successful invocation per process (e), object (k) and resume registration (h), for ALL histories of
   events / re-listings / edits / outcomes / lifecycles / restarts such that
     rc_uid_final            DELETED is the last event of the object within a process,
     rc_world                every event of k shows the progress records as the previous event of k in the process and
                             kopf's own patch left them,
     rc_orcs_ok              what an invocation itself writes (sub-handlers) over a finished record still says finished,
     rc_deleting_permanent   once an event of k shows the deletion timestamp, every later one of the process does,
     rc_no_purge_while_open  the guard: between h's success and the closing of the cycle no step of k runs the supersession
                             purge, unless k is being deleted and h has not opted in. *)
Theorem C14_cycle_at_most_once : forall K (keqb : K -> K -> bool), rs_lawful keqb ->
  forall name regs k h ls,
    NoDup (map hd_ix regs) -> In h regs -> rs_is_resume_handler h = true ->
    rc_uid_final keqb k ls ->
    rc_world keqb name regs k [] None ls ->
    rc_orcs_ok keqb k ls ->
    rc_deleting_permanent keqb k false ls ->
    rc_no_purge_while_open keqb name regs k (hd_ix h) (rs_ob (hd_deleted h)) [] 0 ls ->
    forall e, rc_successes keqb name e k (hd_ix h) (rc_trace keqb name regs ls) <= 1.
Proof. exact (@cycle_at_most_once). Qed.
Print Assumptions C14_cycle_at_most_once.

(* ... and without the guard the statement is false of the faithful model, on the history of finding F1401: a filtered
   resume handler succeeds while its sibling retries; the label is switched off (an update: the purge removes its finished
   record) and on again; every world hypothesis holds; it succeeds twice in process 0. *)
Theorem C14_cycle_at_most_once_unguarded_refuted :
  exists regs ls k h,
    NoDup (map hd_ix regs) /\ In h regs /\ rs_is_resume_handler h = true /\
    rc_uid_final String.eqb k ls /\
    rc_world String.eqb xname regs k [] None ls /\
    rc_orcs_ok String.eqb k ls /\
    rc_deleting_permanent String.eqb k false ls /\
    rc_successes String.eqb xname 0 k (hd_ix h) (rc_trace String.eqb xname regs ls) = 2.
Proof. exact cycle_at_most_once_unguarded_refuted. Qed.
Print Assumptions C14_cycle_at_most_once_unguarded_refuted.

(* ---------- non-vacuity ---------- *)
(* uid strings are lawful keys *)
Example C14_string_keys_lawful : rs_lawful String.eqb.
Proof. exact string_eqb_spec. Qed.

(* A history with a 410 re-listing in the middle of a retrying resume handler, another one after the cycle closed, an
   edit and a restart: what the model does (incarnation, cause, cause.initial, selected, invoked, fully_handled_once) ... *)
Example C14_example_410_trace : map ex_summary (rs_trace String.eqb ex_regs1 ex_410) = ex_410_expected.
Proof. exact ex_410_trace. Qed.

(* ... the hypotheses of C14_at_most_once hold of it ... *)
Example C14_example_410_hypotheses :
  NoDup (map hd_ix ex_regs1) /\ rs_uid_final String.eqb "u"%string ex_410 /\
  rs_c02_finished_persisted String.eqb ex_regs1 "u"%string 0 0 [] 0 ex_410.
Proof. exact ex_410_hypotheses. Qed.

(* ... and the bound is attained: exactly one success in each of the two processes. *)
Example C14_example_410_counts :
  rs_successes String.eqb 0 "u"%string 0 (rs_trace String.eqb ex_regs1 ex_410) = 1 /\
  rs_successes String.eqb 1 "u"%string 0 (rs_trace String.eqb ex_regs1 ex_410) = 1.
Proof. exact ex_410_counts. Qed.

(* the deleting clause is not vacuous: the opted-in handler is selected, the other is not *)
Example C14_example_deleting_opted_in :
  let o := snd (rs_step String.eqb ex_regs_del [] ex_deleting_in) in
  ob_reason o = RsDelete /\ ob_initial o = true /\ ob_selected o = [0; 2].
Proof. exact ex_deleting_selected. Qed.

(* the step of the F1401 history that the guard excludes does run the supersession purge *)
Example C14_example_flap_purges : rc_purges xname xregs xf2 (snd (xstep xregs xf_ms1 xf2)) = true.
Proof. exact xflap_purges. Qed.

(* composed model, lifecycle asap: a 410 re-listing inside a retrying resume handler, the retry, a re-listing after the
   cycle closed, an edit, a restart — (incarnation, cause, cause.initial, selected, invoked (id, retry), fully_handled_once) *)
Example C14_example_cycle_410_trace : map ysummary (rc_trace String.eqb xname yregs y410) = y410_expected.
Proof. exact y410_trace. Qed.

(* every hypothesis of C14_cycle_at_most_once holds of it, and the bound is attained in both processes *)
Example C14_example_cycle_410_hypotheses :
  NoDup (map hd_ix yregs) /\
  rc_uid_final String.eqb "u"%string y410 /\
  rc_world String.eqb xname yregs "u"%string [] None y410 /\
  rc_orcs_ok String.eqb "u"%string y410 /\
  rc_deleting_permanent String.eqb "u"%string false y410 /\
  rc_no_purge_while_open String.eqb xname yregs "u"%string 0 false [] 0 y410.
Proof. exact y410_hypotheses. Qed.

Example C14_example_cycle_410_counts :
  rc_successes String.eqb xname 0 "u"%string 0 (rc_trace String.eqb xname yregs y410) = 1 /\
  rc_successes String.eqb xname 1 "u"%string 0 (rc_trace String.eqb xname yregs y410) = 1.
Proof. exact y410_counts. Qed.

(* the hypotheses of C14_resume_pending_until_closed hold of its prefix, and the re-listed event is initial *)
Example C14_example_cycle_410_pending :
  rs_find String.eqb "u"%string (crun String.eqb xname yregs [] []) = None /\
  co_handled_after (cobs_at String.eqb xname yregs [] y1) = false /\
  co_handled_after (cobs_at String.eqb xname yregs [CEv y1] y2) = false /\
  co_initial0 (cobs_at String.eqb xname yregs [CEv y1; CEv y2] y3) = true.
Proof. exact y410_pending. Qed.

(* the deletion clause of the guard is not vacuous: the supersession purge of a deletion runs and removes the finished
   record of a resume handler that did not opt in; every hypothesis still holds; one success *)
Example C14_example_deletion_supersedes :
  rc_purges xname zregs z2 (snd (xstep zregs z_ms1 z2)) = true /\
  pg_find "h0"%string (xnext zregs z_ms1 z2) = None /\
  NoDup (map hd_ix zregs) /\
  rc_uid_final String.eqb "u"%string zdel /\
  rc_world String.eqb xname zregs "u"%string [] None zdel /\
  rc_orcs_ok String.eqb "u"%string zdel /\
  rc_deleting_permanent String.eqb "u"%string false zdel /\
  rc_no_purge_while_open String.eqb xname zregs "u"%string 0 false [] 0 zdel /\
  rc_successes String.eqb xname 0 "u"%string 0 (rc_trace String.eqb xname zregs zdel) = 1.
Proof. exact zdel_hypotheses. Qed.
