(* C14 — resume handlers run once per object per operator process (function level: the per-object memory flags,
   cause detection, handler selection).  Only statements here; proofs in Proofs/Resume.v, model in Model/Resume.v.

   Reading guide.  [K] is the type of memory keys (the uid) with a correct equality [keqb] (rs_lawful).  A history is a list of
   labels: [LEv i] = one watch/listing event of one object processed by the reactor (its type, the object's abstract view,
   the oracles), [LRestart] = a new operator process (fresh memories).  [obs_at regs pre b] is what the reactor does with
   event [b] delivered after the history [pre] since the very first start; [rs_trace] is the list of all of them
   (C14_trace_is_obs_at).  [rs_quiet k l]: no restart and no DELETED event of k in l.  All histories are quantified
   universally: re-listings (every object again with type None, at any time), reconnects, edits (the views are arbitrary
   per event), outcomes and retries (oracles), events of other objects in between, restarts. *)
From Coq Require Import ZArith List String Bool Arith.
From KV Require Import Base.Json Model.Resume Proofs.Resume.
Import ListNotations.
Open Scope list_scope.

(* the trace of a history consists of the observations [obs_at] of its prefixes, stamped with the incarnation number *)
Theorem C14_trace_is_obs_at : forall K (keqb : K -> K -> bool) regs pre b,
  rs_trace keqb regs (pre ++ [LEv b]) =
  rs_trace keqb regs pre ++ [{| en_epoch := epoch_after 0 pre; en_in := b; en_obs := obs_at keqb regs pre b |}].
Proof. exact (@trace_snoc). Qed.
Print Assumptions C14_trace_is_obs_at.

(* Within a process, `initial` of an object can only go from true to false: whatever is re-listed, edited or retried in
   between (l is arbitrary), once an event of the object was not initial, no later one is. *)
Theorem C14_initial_monotone : forall K (keqb : K -> K -> bool), rs_lawful keqb ->
  forall regs pre a l b,
    in_key a = in_key b -> rs_quiet keqb (in_key b) (LEv a :: l) ->
    ob_initial0 (obs_at keqb regs pre a) = false ->
    ob_initial0 (obs_at keqb regs (pre ++ LEv a :: l) b) = false.
Proof. exact (@initial_monotone). Qed.
Print Assumptions C14_initial_monotone.

(* Once a handling cycle of the object has closed in this process (done or skip: fully_handled_once), no later event of
   it is initial and no resume handler is selected for it any more — re-listings included. *)
Theorem C14_closed_cycle_ends_resuming : forall K (keqb : K -> K -> bool), rs_lawful keqb ->
  forall regs pre a l b h,
    in_key a = in_key b -> rs_quiet keqb (in_key b) (LEv a :: l) ->
    ob_handled_after (obs_at keqb regs pre a) = true ->
    NoDup (map hd_ix regs) -> In h regs -> rs_is_resume_handler h = true ->
    ob_initial0 (obs_at keqb regs (pre ++ LEv a :: l) b) = false /\
    ob_initial (obs_at keqb regs (pre ++ LEv a :: l) b) = false /\
    ~ In (hd_ix h) (ob_selected (obs_at keqb regs (pre ++ LEv a :: l) b)).
Proof. exact (@closed_cycle_ends_resuming). Qed.
Print Assumptions C14_closed_cycle_ends_resuming.

(* Per process (incarnation e) and object k, every resume registration has at most one successful invocation, for ALL
   histories in which (uid_final) DELETED is the last event of the object within a process, and
   (C02: rs_c02_finished_persisted) after the handler's success its progress record is seen as finished by every later
   event of the object until a cycle of the object has closed.  Inside the cycle the finished record keeps the handler
   from being invoked (C02_finished_never_selected); after it, C14_initial_monotone does. *)
Theorem C14_at_most_once : forall K (keqb : K -> K -> bool), rs_lawful keqb ->
  forall regs k h ls,
    NoDup (map hd_ix regs) -> In h regs -> rs_is_resume_handler h = true ->
    rs_uid_final keqb k ls ->
    rs_c02_finished_persisted keqb regs k (hd_ix h) (hd_id h) [] 0 ls ->
    forall e, rs_successes keqb e k (hd_ix h) (rs_trace keqb regs ls) <= 1.
Proof. exact (@at_most_once). Qed.
Print Assumptions C14_at_most_once.

(* ... and without the C02 hypothesis the statement is false of the faithful model: when the finished record is not on
   the object in the next event of a still open cycle (a sibling is retrying), the handler runs to completion again. *)
Theorem C14_at_most_once_unconditional_refuted :
  exists regs ls k h,
    NoDup (map hd_ix regs) /\ In h regs /\ rs_is_resume_handler h = true /\
    rs_uid_final String.eqb k ls /\
    rs_successes String.eqb 0 k (hd_ix h) (rs_trace String.eqb regs ls) = 2.
Proof. exact at_most_once_unconditional_refuted. Qed.
Print Assumptions C14_at_most_once_unconditional_refuted.

(* The first event of an object in a process, if it comes from the listing, the object was handled before, and the event
   reaches the handling: every matching resume handler (opted in, if the object is being deleted) is selected — as the
   cause `resume` when nothing changed, else mixed into `update` / `delete` — and is invoked unless its record sleeps. *)
Theorem C14_runs_for_preexisting : forall K (keqb : K -> K -> bool) regs pre b h,
    rs_find keqb (in_key b) (run keqb regs [] pre) = None ->
    in_evt b = EListed -> in_gate b = true -> vw_old_none (in_view b) = false ->
    (vw_deleting (in_view b) = true -> vw_blocked (in_view b) = true /\ rs_ob (hd_deleted h) = true) ->
    In h regs -> hd_reason h = None -> rs_is_resume_handler h = true -> rs_mem_nat (hd_ix h) (in_match b) = true ->
    selects_resume regs b h (obs_at keqb regs pre b).
Proof. exact (@runs_for_preexisting). Qed.
Print Assumptions C14_runs_for_preexisting.

(* ... and when the listing event itself does not reach the handling (finalizer being added, throttling, consistency
   wait), the first later event that does — of any type — gets them. *)
Theorem C14_runs_for_preexisting_deferred : forall K (keqb : K -> K -> bool), rs_lawful keqb ->
  forall regs pre a l b h,
    rs_find keqb (in_key a) (run keqb regs [] pre) = None -> in_evt a = EListed -> in_gate a = false ->
    in_key a = in_key b -> unreached keqb (in_key b) l ->
    in_evt b <> EDeleted -> in_gate b = true -> vw_old_none (in_view b) = false ->
    (vw_deleting (in_view b) = true -> vw_blocked (in_view b) = true /\ rs_ob (hd_deleted h) = true) ->
    In h regs -> hd_reason h = None -> rs_is_resume_handler h = true -> rs_mem_nat (hd_ix h) (in_match b) = true ->
    selects_resume regs b h (obs_at keqb regs (pre ++ LEv a :: l) b).
Proof. exact (@runs_for_preexisting_deferred). Qed.
Print Assumptions C14_runs_for_preexisting_deferred.

(* An object first seen in a process by a watch event (ADDED/MODIFIED: created after the start) is never initial in that
   process and never gets a resume handler, whatever is re-listed later. *)
Theorem C14_not_for_created_later : forall K (keqb : K -> K -> bool), rs_lawful keqb ->
  forall regs pre a l b h,
    rs_find keqb (in_key a) (run keqb regs [] pre) = None ->
    in_evt a <> EListed ->
    in_key a = in_key b -> rs_quiet keqb (in_key b) (LEv a :: l) ->
    NoDup (map hd_ix regs) -> In h regs -> rs_is_resume_handler h = true ->
    (ob_initial0 (obs_at keqb regs pre a) = false /\ ~ In (hd_ix h) (ob_selected (obs_at keqb regs pre a))) /\
    (ob_initial0 (obs_at keqb regs (pre ++ LEv a :: l) b) = false /\
     ob_initial (obs_at keqb regs (pre ++ LEv a :: l) b) = false /\
     ~ In (hd_ix h) (ob_selected (obs_at keqb regs (pre ++ LEv a :: l) b))).
Proof. exact (@not_for_created_later). Qed.
Print Assumptions C14_not_for_created_later.

(* A resume handler selected for an object being deleted has opted in (deleted=True): any memories, any event. *)
Theorem C14_not_on_deleting_unless_opted_in : forall K (keqb : K -> K -> bool) regs ms i h,
    NoDup (map hd_ix regs) -> In h regs -> rs_is_resume_handler h = true ->
    vw_deleting (in_view i) = true ->
    In (hd_ix h) (ob_selected (snd (rs_step keqb regs ms i))) -> rs_ob (hd_deleted h) = true.
Proof. exact (@not_on_deleting_unless_opted_in). Qed.
Print Assumptions C14_not_on_deleting_unless_opted_in.

(* Creation never mixes with resuming: a creation cause is never initial and selects no resume handler. *)
Theorem C14_never_mixed_into_creation : forall K (keqb : K -> K -> bool) regs ms i h,
    NoDup (map hd_ix regs) -> In h regs -> rs_is_resume_handler h = true ->
    ob_reason (snd (rs_step keqb regs ms i)) = RsCreate ->
    ob_initial (snd (rs_step keqb regs ms i)) = false /\ ~ In (hd_ix h) (ob_selected (snd (rs_step keqb regs ms i))).
Proof. exact (@never_mixed_into_creation). Qed.
Print Assumptions C14_never_mixed_into_creation.

(* ---------- non-vacuity ---------- *)
(* uid strings are lawful keys *)
Example C14_string_keys_lawful : rs_lawful String.eqb.
Proof. exact string_eqb_spec. Qed.

(* A history with a 410 re-listing in the middle of a retrying resume handler, another one after the cycle closed, an
   edit and a restart: what the model does (incarnation, cause, cause.initial, selected, invoked, fully_handled_once) ... *)
Example C14_example_410_trace : map ex_summary (rs_trace String.eqb ex_regs1 ex_410) = ex_410_expected.
Proof. exact ex_410_trace. Qed.

(* ... the hypotheses of C14_at_most_once hold of it ... *)
Example C14_example_410_hypotheses :
  NoDup (map hd_ix ex_regs1) /\ rs_uid_final String.eqb "u"%string ex_410 /\
  rs_c02_finished_persisted String.eqb ex_regs1 "u"%string 0 0 [] 0 ex_410.
Proof. exact ex_410_hypotheses. Qed.

(* ... and the bound is attained: exactly one success in each of the two processes. *)
Example C14_example_410_counts :
  rs_successes String.eqb 0 "u"%string 0 (rs_trace String.eqb ex_regs1 ex_410) = 1 /\
  rs_successes String.eqb 1 "u"%string 0 (rs_trace String.eqb ex_regs1 ex_410) = 1.
Proof. exact ex_410_counts. Qed.

(* the deleting clause is not vacuous: the opted-in handler is selected, the other is not *)
Example C14_example_deleting_opted_in :
  let o := snd (rs_step String.eqb ex_regs_del [] ex_deleting_in) in
  ob_reason o = RsDelete /\ ob_initial o = true /\ ob_selected o = [0; 2].
Proof. exact ex_deleting_selected. Qed.
