(* C07 — change handlers never run on a view older than the operator's own last write.
   Statements only; proofs in Proofs/Consistency.v.  The worker-side locals and the gate are Model/Consistency.v;
   the await granularity of queueing.worker (version match, clearing, processor call, re-arming: no suspension
   in between) is the S-tie of Proofs/Queue.v.

   CLAUSE AUDIT (statement + quantifier of properties.jsonl C07)
   ---------------------------------------------------------------------------------------------------------
   clause                                            | stated by
   --------------------------------------------------+------------------------------------------------------
   after the framework patches an object, no change  | FULL, in the property's own words: C07_barrier_views
    handler runs on a view older than that patch     |  (version of the view >= version of the last own patch, or
    until the patched version has come back, or the  |  the timeout has elapsed since the processor returned it),
    timeout has elapsed since the patch              |  for every sequence of processed events delivered in version
                                                     |  order; the underlying statement without the ordering
                                                     |  assumption (echo dequeued at or before this event, or
                                                     |  timeout): C07_barrier, C07_barrier_any_start, C07_gate
   regardless of how many foreign events in between  | FULL: quantification over all lists of processed events;
    / every echo delay / every API latency           |  C07_foreign_keeps, C07_echo_clears; times are arbitrary Z
   raw-event handlers, indexing, daemons and timers  | C07_next_event_not_delayed (a new event ends the wait at
    are not delayed by this barrier                  |  once), C07_gate_bounded (never past the deadline),
                                                     |  C07_low_level_not_delayed (this event's low-level part
                                                     |  precedes the gate: structural, by the order of the code;
                                                     |  D-tie compares the call time of the watching stub) +
                                                     |  C01_pressure (events waiting => pressure set) +
                                                     |  closed-loop monitors raw-delayed / index-delayed
   WHICH version is "that patch" when a cycle sends  | FULL: C07_apply_reports_last_write (apply() reports the version
    several requests (main patch, touch-dummy)       |  of the LAST response whenever anything was sent, None only
                                                     |  when nothing was), C07_apply_touch_reported; D_apply tie on
                                                     |  the real application.apply(); in T_cycle the real apply()
                                                     |  result feeds the real worker and p_patched is the last write
                                                     |  observed at the fake API (C07_cycle_reports_its_last_write)
   a carried patch is applied first, no handlers     | FULL: C07_skip_when_pending_patch
   the worker outlives the deadline                  | FULL: C07_worker_outlives_deadline
   finaliser never released while inconsistent       | C07_release_never_inconsistent_partial / _refuted (objects
    (code comment; not part of the property text)    |  without a changing cause; no finding: outside the text)
   patches by daemons/timers/handlers' own API calls | not covered (outside the stated scope: not tracked by worker)
   consistency_timeout = 0                           | barrier disabled by configuration (model: T = 0 records no
                                                     |  outstanding patch; theorems hold vacuously)
   ---------------------------------------------------------------------------------------------------------
   Model <-> code: D-tie (exhaustive product of gate inputs on the real process_resource_causes), T-tie (every
   consistency_time / wait_for timeout of the real worker), S-tie (worker skeleton), closed-loop monitor. *)
From Coq Require Import ZArith String Bool List.
From KV Require Import Gen.Awaits Model.QueueSk Model.Consistency Proofs.Queue Proofs.Consistency.
Import ListNotations.
Open Scope Z_scope.

(* For EVERY sequence of processed events of an object (any versions, any timing of foreign events, any
   echo delay, any pressure wake-ups, any handler results): whenever change-detecting handlers are invoked
   at time t, either no own patch is outstanding (its version was dequeued at or before this event) or the
   consistency timeout has elapsed since the processor returned that patch. *)
Theorem C07_barrier : forall T l,
  Forall (fun x => allowed T (snd x) (fst x)) (exec T w0 None l).
Proof. exact barrier_from_start. Qed.
Print Assumptions C07_barrier.

Theorem C07_barrier_any_start : forall T l w o, Rel T w o ->
  Forall (fun x => allowed T (snd x) (fst x)) (exec T w o l).
Proof. exact barrier. Qed.
Print Assumptions C07_barrier_any_start.

Theorem C07_gate : forall T w o p, Rel T w o -> runs_handlers (gin_of w p) = true ->
  allowed T o (o_until (gate (gin_of w p))).
Proof. exact gate_barrier. Qed.
Print Assumptions C07_gate.

Theorem C07_skip_when_pending_patch : forall g, g_required g = true ->
  (g_pie g = false -> o_go (gate g) = false) /\ (g_pne g = false -> o_slept (gate g) = false).
Proof. exact skip_when_pending_patch. Qed.
Print Assumptions C07_skip_when_pending_patch.

Theorem C07_low_level_not_delayed : forall g,
  c_low_at (cycle g) = g_now g /\
  (forall ct press, c_low_at (cycle (mkG (g_required g) (g_gone g) ct (g_pie g) (g_pne g) (g_now g) press)) = c_low_at (cycle g)) /\
  (g_required g = false -> gate g = mkO false (g_now g) true).
Proof. exact low_level_not_delayed. Qed.
Print Assumptions C07_low_level_not_delayed.

(* "never release the finaliser in an inconsistent state": true when a changing cause is present ... *)
Theorem C07_release_never_inconsistent_partial : forall T w o p del ong blk nod, Rel T w o ->
  p_required p = true -> p_gone p = false ->
  releases (gin_of w p) del ong blk nod = true -> allowed T o (o_until (gate (gin_of w p))).
Proof. exact release_partial. Qed.
Print Assumptions C07_release_never_inconsistent_partial.

(* ... and false of the faithful model without one (no change handler matches this object, e.g. an operator
   with daemons/timers only): the gate is not consulted, the finaliser goes while the own patch is outstanding *)
Theorem C07_release_never_inconsistent_refuted : exists T w o p, Rel T w o /\
  releases (gin_of w p) false true true true = true /\ ~ allowed T o (o_until (gate (gin_of w p))).
Proof. exact release_refuted. Qed.
Print Assumptions C07_release_never_inconsistent_refuted.

Theorem C07_echo_clears : forall w r, expected w = Some r -> on_event w (Some r) = w0.
Proof. exact echo_clears. Qed.
Print Assumptions C07_echo_clears.

Theorem C07_foreign_keeps : forall w v, (forall r, expected w = Some r -> v <> Some r) -> on_event w v = w.
Proof. exact foreign_keeps. Qed.
Print Assumptions C07_foreign_keeps.

Theorem C07_worker_outlives_deadline : forall idle now w d, deadline w = Some d ->
  d <= now + wait_timeout idle now w /\ idle <= wait_timeout idle now w.
Proof. exact worker_outlives_deadline. Qed.
Print Assumptions C07_worker_outlives_deadline.

(* S-tie: between the version match and the processor call, and between its return and the re-arming, the
   worker has no suspension point (markers version_match .. set_ctime of the extracted skeleton) *)
Theorem C07_skeleton_worker : awaits_worker = expected_awaits_worker.
Proof. exact awaits_worker_ok. Qed.
Print Assumptions C07_skeleton_worker.

Theorem C07_example_echo : exec 24 w0 None ex_steps = [(80, None); (96, None)].
Proof. exact ex_echo. Qed.
Print Assumptions C07_example_echo.

Theorem C07_example_timeout : exec 24 w0 None ex_steps_late = [(80, None); (104, Some ("7"%string, 80))].
Proof. exact ex_timeout. Qed.
Print Assumptions C07_example_timeout.

(* --- the property in its own words.  For EVERY order-embedding `ver` of resourceVersions, every timeout T,
       every sequence of processed events delivered in version order: at each invocation of change-detecting
       handlers, the view is at least as new as the operator's last own patch of the object, or the timeout
       has elapsed since the processor returned that patch. --- *)
Theorem C07_barrier_views : forall (ver : rv -> Z) T l cur, delivered_in_order ver cur l ->
  Forall (view_ok ver T) (exec_views T w0 None l).
Proof. exact barrier_views. Qed.
Print Assumptions C07_barrier_views.

Theorem C07_barrier_views_example :
  delivered_in_order ver10 0 ex_steps /\ delivered_in_order ver10 0 ex_steps_late /\
  exec_views 24 w0 None ex_steps = [(80, Some "5"%string, None); (96, Some "7"%string, Some ("7"%string, 80))] /\
  exec_views 24 w0 None ex_steps_late = [(80, Some "5"%string, None); (104, Some "6"%string, Some ("7"%string, 80))].
Proof. exact ex_views_all. Qed.
Print Assumptions C07_barrier_views_example.

(* --- the wait is bounded by the deadline and ended at once by the next event --- *)
Theorem C07_gate_bounded : forall g,
  g_now g <= o_until (gate g) /\
  o_until (gate g) <= Z.max (g_now g) (match g_ctime g with Some t => t | None => g_now g end).
Proof. exact gate_bounded. Qed.
Print Assumptions C07_gate_bounded.

Theorem C07_next_event_not_delayed : forall g tp, g_press g = Some tp ->
  o_until (gate g) <= Z.max (g_now g) tp.
Proof. exact next_event_not_delayed. Qed.
Print Assumptions C07_next_event_not_delayed.

Theorem C07_interrupt_example : let g := mkG true false (Some 124) true true 100 (Some 110) in
  o_slept (gate g) = true /\ o_until (gate g) = 110 /\ o_go (gate g) = false.
Proof. exact ex_interrupt. Qed.
Print Assumptions C07_interrupt_example.

(* --- what the processor reports as "the operator's last write": for every call of application.apply() (any patch,
       any delays, sleep interrupted or not, any responses) it is the version in the LAST response of the requests the
       call sent (main patch and/or touch-dummy patch), and None exactly when it sent nothing.  This is the hypothesis
       `p_patched` of the barrier theorems, discharged for cycles whose result comes from apply(). --- *)
Theorem C07_apply_reports_last_write : forall a, apply_rv a = last (apply_responses a) None.
Proof. exact apply_reports_last_write. Qed.
Print Assumptions C07_apply_reports_last_write.

Theorem C07_apply_touch_reported : forall a, a_touches a = true -> apply_rv a = a_resp2 a.
Proof. exact apply_touch_reported. Qed.
Print Assumptions C07_apply_touch_reported.

Theorem C07_cycle_reports_its_last_write : forall p a, cycle_writes p a ->
  p_patched p = last (apply_responses a) None.
Proof. exact cycle_reports_its_last_write. Qed.
Print Assumptions C07_cycle_reports_its_last_write.

Theorem C07_apply_touch_example :
  let a := mkA false (Some 4) false None (Some "9"%string) in
  a_sleeps a = Some 4 /\ a_touches a = true /\ apply_responses a = [Some "9"%string] /\ apply_rv a = Some "9"%string.
Proof. exact ex_apply_touch. Qed.
Print Assumptions C07_apply_touch_example.

(* --- how the wait can end: by stream pressure (then not consistent: no handlers) or exactly at consistency_time;
       re-check delays of daemons/timers being stopped (or any other delay) cannot end it --- *)
Theorem C07_wait_ends_by_pressure_or_deadline : forall g ct, g_ctime g = Some ct -> o_slept (gate g) = true ->
  g_now g < ct ->
  (exists tp, g_press g = Some tp /\ tp < ct /\ o_until (gate g) = Z.max (g_now g) tp /\
              (g_required g = true -> o_go (gate g) = false))
  \/ (o_until (gate g) = ct /\ (forall tp, g_press g = Some tp -> ct <= tp)).
Proof. exact wait_ends_by_pressure_or_deadline. Qed.
Print Assumptions C07_wait_ends_by_pressure_or_deadline.

Theorem C07_wait_ignores_other_delays : forall d1 d2 c go m b o ct pie low now press,
  match gate_case_sp d1 c go m b o ct pie low now press, gate_case_sp d2 c go m b o ct pie low now press with
  | (s1, u1, r1, m1, _), (s2, u2, r2, m2, _) => s1 = s2 /\ u1 = u2 /\ r1 = r2 /\ m1 = m2
  end.
Proof. exact wait_ignores_other_delays. Qed.
Print Assumptions C07_wait_ignores_other_delays.

Theorem C07_wait_deadline_example : let g := mkG true false (Some 124) true true 100 None in
  o_slept (gate g) = true /\ o_until (gate g) = 124 /\ o_go (gate g) = true.
Proof. exact ex_wait_deadline. Qed.
Print Assumptions C07_wait_deadline_example.
