(* C07 — change handlers never run on a view older than the operator's own last write.
   Statements only; proofs in Proofs/Consistency.v.  The worker-side locals and the gate are Model/Consistency.v;
   the await granularity of queueing.worker (version match, clearing, processor call, re-arming: no suspension
   in between) is the S-tie of Proofs/Queue.v. *)
From Coq Require Import ZArith String Bool List.
From KV Require Import Gen.Awaits Model.QueueSk Model.Consistency Proofs.Queue Proofs.Consistency.
Import ListNotations.
Open Scope Z_scope.

(* For EVERY sequence of processed events of an object (any versions, any timing of foreign events, any
   echo delay, any pressure wake-ups, any handler results): whenever change-detecting handlers are invoked
   at time t, either no own patch is outstanding (its version was dequeued at or before this event) or the
   consistency timeout has elapsed since the processor returned that patch. *)
Theorem C07_barrier : forall T l,
  Forall (fun x => allowed T (snd x) (fst x)) (exec T w0 None l).
Proof. exact barrier_from_start. Qed.
Print Assumptions C07_barrier.

Theorem C07_barrier_any_start : forall T l w o, Rel T w o ->
  Forall (fun x => allowed T (snd x) (fst x)) (exec T w o l).
Proof. exact barrier. Qed.
Print Assumptions C07_barrier_any_start.

Theorem C07_gate : forall T w o p, Rel T w o -> runs_handlers (gin_of w p) = true ->
  allowed T o (o_until (gate (gin_of w p))).
Proof. exact gate_barrier. Qed.
Print Assumptions C07_gate.

Theorem C07_skip_when_pending_patch : forall g, g_required g = true ->
  (g_pie g = false -> o_go (gate g) = false) /\ (g_pne g = false -> o_slept (gate g) = false).
Proof. exact skip_when_pending_patch. Qed.
Print Assumptions C07_skip_when_pending_patch.

Theorem C07_low_level_not_delayed : forall g,
  c_low_at (cycle g) = g_now g /\
  (forall ct press, c_low_at (cycle (mkG (g_required g) (g_gone g) ct (g_pie g) (g_pne g) (g_now g) press)) = c_low_at (cycle g)) /\
  (g_required g = false -> gate g = mkO false (g_now g) true).
Proof. exact low_level_not_delayed. Qed.
Print Assumptions C07_low_level_not_delayed.

(* "never release the finaliser in an inconsistent state": true when a changing cause is present ... *)
Theorem C07_release_never_inconsistent_partial : forall T w o p del ong blk nod, Rel T w o ->
  p_required p = true -> p_gone p = false ->
  releases (gin_of w p) del ong blk nod = true -> allowed T o (o_until (gate (gin_of w p))).
Proof. exact release_partial. Qed.
Print Assumptions C07_release_never_inconsistent_partial.

(* ... and false of the faithful model without one (no change handler matches this object, e.g. an operator
   with daemons/timers only): the gate is not consulted, the finaliser goes while the own patch is outstanding *)
Theorem C07_release_never_inconsistent_refuted : exists T w o p, Rel T w o /\
  releases (gin_of w p) false true true true = true /\ ~ allowed T o (o_until (gate (gin_of w p))).
Proof. exact release_refuted. Qed.
Print Assumptions C07_release_never_inconsistent_refuted.

Theorem C07_echo_clears : forall w r, expected w = Some r -> on_event w (Some r) = w0.
Proof. exact echo_clears. Qed.
Print Assumptions C07_echo_clears.

Theorem C07_foreign_keeps : forall w v, (forall r, expected w = Some r -> v <> Some r) -> on_event w v = w.
Proof. exact foreign_keeps. Qed.
Print Assumptions C07_foreign_keeps.

Theorem C07_worker_outlives_deadline : forall idle now w d, deadline w = Some d ->
  d <= now + wait_timeout idle now w /\ idle <= wait_timeout idle now w.
Proof. exact worker_outlives_deadline. Qed.
Print Assumptions C07_worker_outlives_deadline.

(* S-tie: between the version match and the processor call, and between its return and the re-arming, the
   worker has no suspension point (markers version_match .. set_ctime of the extracted skeleton) *)
Theorem C07_skeleton_worker : awaits_worker = expected_awaits_worker.
Proof. exact awaits_worker_ok. Qed.
Print Assumptions C07_skeleton_worker.

Theorem C07_example_echo : exec 24 w0 None ex_steps = [(80, None); (96, None)].
Proof. exact ex_echo. Qed.
Print Assumptions C07_example_echo.

Theorem C07_example_timeout : exec 24 w0 None ex_steps_late = [(80, None); (104, Some ("7"%string, 80))].
Proof. exact ex_timeout. Qed.
Print Assumptions C07_example_timeout.
