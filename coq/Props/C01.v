(* C01 — per-object event processing is serial, ordered and lossless.
   Only statements here; proofs in Proofs/QueueInv.v (LTS invariant, variant) and Proofs/Queue.v (S-tie).
   Every theorem quantifies over ALL label lists accepted by `run` (= every interleaving of arrivals,
   processing durations, idle timeouts, limit saturation, cancellation), all worker limits, all uids.

   CLAUSE AUDIT (statement + quantifier of properties.jsonl C01)
   ---------------------------------------------------------------------------------------------------------
   clause                                          | stated by
   ------------------------------------------------+--------------------------------------------------------
   events of one object processed one at a time    | FULL: C01_serial, C01_begin_after_end, C01_alternation
   in the order the API delivered them             | FULL: C01_fifo_lossless, C01_processed_prefix (trace level)
   while the watch is alive none is dropped        | FULL (safety + liveness): C01_fifo_lossless (nothing leaves
                                                   |  processed ++ in-flight ++ backlog), C01_no_deadlock (an
                                                   |  unprocessed event always has an enabled internal step),
                                                   |  C01_progress_decreases + C01_eventually_processed (EVERY
                                                   |  schedule of internal steps is finite, bounded by work_left,
                                                   |  and ends with everything processed), C01_quiescent_complete.
                                                   |  Outside the quantifier: a processor exception drops the
                                                   |  backlog: C01_fifo_lossless_refuted / _partial (no finding:
                                                   |  "unrecoverable error" path, the watcher is then stopped)
   ... or processed twice                          | FULL: C01_not_twice
   however arrivals interleave with slow           | FULL: quantification over all label lists (LEnd at any
    processing, idle retirement, limit, shutdown   |  time, LTimeout at any time, any limit, LCancel at any pc)
   an event arriving at the very instant an idle   | FULL: C01_retire_race, C01_retire_only_when_empty (not
    worker retires is still processed              |  lost, worker stays) + C01_eventually_processed (processed)
   different objects never wait for each other     | FULL: C01_limit, C01_no_cross_blocking, C01_start_enabled,
    beyond the configured worker limit             |  C01_no_deadlock (hypothesis worker_limit <> 0: with 0 nothing
                                                   |  ever starts — degenerate configuration, not alarmed).
                                                   |  Composition with the index gate: C17 / finding F11.
   shutdown (watcher cancellation)                 | C01_drain_partial (guard: not cancelled INSIDE
                                                   |  scheduler.spawn() before the job is queued) +
                                                   |  C01_drain_refuted (that case; a model over-approximation:
                                                   |  the T-tie counts 0 suspensions there, see evidence
                                                   |  histogram "insert->spawn"); after exit_timeout / close():
                                                   |  loss is allowed by the property (watch not alive)
   pressure flag (used by C07)                     | FULL: C01_pressure
   BOOKMARK / LISTED items never reach a queue     | monitored only (explorer action B; monitor order/invented)
   after scheduler.close()                         | not covered (frozen in the model; C20 owns termination)
   atomicity assumptions (no await between X, Y)   | S-tie: C01_skeleton_* (regenerated from the source each run)
   ---------------------------------------------------------------------------------------------------------
   Model <-> code: T-tie (label traces + per-iteration snapshots + quiescence markers of the real coroutines
   replayed by Model/Queue.v:accepts_with), see harness/kv/props/c01.py. *)
From Coq Require Import List Arith Bool.
From KV Require Import Gen.Awaits Model.Queue Model.QueueSk Proofs.Queue.
Import ListNotations.

(* --- S-tie: the suspension points / marker statements of the CURRENT source are what the model assumes --- *)
Theorem C01_skeleton_worker : awaits_worker = expected_awaits_worker.
Proof. exact awaits_worker_ok. Qed.
Print Assumptions C01_skeleton_worker.

Theorem C01_skeleton_watcher : awaits_watcher = expected_awaits_watcher.
Proof. exact awaits_watcher_ok. Qed.
Print Assumptions C01_skeleton_watcher.

Theorem C01_skeleton_scheduler :
  awaits_Scheduler_spawn = expected_awaits_Scheduler_spawn /\
  awaits_Scheduler_task_spawner = expected_awaits_Scheduler_task_spawner /\
  awaits_Scheduler_task_cleaner = expected_awaits_Scheduler_task_cleaner /\
  awaits_Scheduler_close = expected_awaits_Scheduler_close /\
  awaits_wait_for_depletion = expected_awaits_wait_for_depletion.
Proof.
  exact (conj awaits_Scheduler_spawn_ok (conj awaits_Scheduler_task_spawner_ok
        (conj awaits_Scheduler_task_cleaner_ok (conj awaits_Scheduler_close_ok awaits_wait_for_depletion_ok)))).
Qed.
Print Assumptions C01_skeleton_scheduler.

(* --- a stream entry exists iff exactly one worker serves it (pending, waiting or processing) or the
       watcher is in the middle of spawning it; no entry, no worker --- *)
Theorem C01_stream_iff_worker : forall lim tr s u, run (init lim) tr = Some s ->
  (stream (obj s u) = None ->
     unsp s u = 0 /\ npend (obj s u) = 0 /\ nwait (obj s u) = 0 /\ procs (obj s u) = []) /\
  (stream (obj s u) <> None ->
     unsp s u + npend (obj s u) + nwait (obj s u) + List.length (procs (obj s u)) = 1).
Proof. exact stream_iff_worker. Qed.
Print Assumptions C01_stream_iff_worker.

(* --- ordered and lossless, on the observable trace: what was processed, then what is in flight, then
       the backlog is exactly what the watcher queued, in order (no processor failure for that object) --- *)
Theorem C01_fifo_lossless : forall lim tr s u, run (init lim) tr = Some s -> failed_in u tr = false ->
  ends_of u tr ++ procs (obj s u) ++ evs (backlog (obj s u)) = arrivals_of u tr.
Proof. exact fifo_lossless. Qed.
Print Assumptions C01_fifo_lossless.

Theorem C01_processed_prefix : forall lim tr s u, run (init lim) tr = Some s -> failed_in u tr = false ->
  exists rest, arrivals_of u tr = ends_of u tr ++ rest.
Proof. exact processed_prefix. Qed.
Print Assumptions C01_processed_prefix.

Theorem C01_not_twice : forall lim tr s u, run (init lim) tr = Some s -> failed_in u tr = false ->
  NoDup (arrivals_of u tr) -> NoDup (ends_of u tr).
Proof. exact processed_nodup. Qed.
Print Assumptions C01_not_twice.

(* the unconditional statement is false of the faithful model: a processor exception drops the backlog *)
Theorem C01_fifo_lossless_refuted :
  exists lim tr s u, run (init lim) tr = Some s /\
    processed (obj s u) ++ procs (obj s u) ++ evs (backlog (obj s u)) <> arrived (obj s u).
Proof. exact lossless_unconditional_refuted. Qed.
Print Assumptions C01_fifo_lossless_refuted.

Theorem C01_fifo_lossless_partial : forall lim tr s u, run (init lim) tr = Some s -> intact (obj s u) = true ->
  processed (obj s u) ++ procs (obj s u) ++ evs (backlog (obj s u)) = arrived (obj s u).
Proof. exact fifo_lossless_state. Qed.
Print Assumptions C01_fifo_lossless_partial.

(* --- serial: at most one event of an object in flight; a processor call begins only when none is in
       flight; begins = ends ++ in-flight (begin/end alternate, same order) --- *)
Theorem C01_serial : forall lim tr s u, run (init lim) tr = Some s -> List.length (procs (obj s u)) <= 1.
Proof. exact serial. Qed.
Print Assumptions C01_serial.

Theorem C01_begin_after_end : forall lim tr s u e p s', run (init lim) tr = Some s ->
  step s (LGet u e p) = Some s' -> procs (obj s u) = [] /\ procs (obj s' u) = [e].
Proof. exact begin_after_end. Qed.
Print Assumptions C01_begin_after_end.

Theorem C01_alternation : forall lim tr s u, run (init lim) tr = Some s -> failed_in u tr = false ->
  begins_of u tr = ends_of u tr ++ procs (obj s u) /\ List.length (procs (obj s u)) <= 1.
Proof. exact alternation. Qed.
Print Assumptions C01_alternation.

(* --- the retirement race: a timeout observed with a non-empty backlog retires nobody and loses nothing --- *)
Theorem C01_retire_race : forall lim tr s u s', run (init lim) tr = Some s ->
  step s (LTimeout u) = Some s' -> evs (backlog (obj s u)) <> [] ->
  stream (obj s' u) <> None /\ nwait (obj s' u) > 0 /\
  (intact (obj s' u) = true ->
   processed (obj s' u) ++ procs (obj s' u) ++ evs (backlog (obj s' u)) = arrived (obj s' u)).
Proof. exact retire_race_reachable. Qed.
Print Assumptions C01_retire_race.

Theorem C01_retire_only_when_empty : forall s u s', step s (LTimeout u) = Some s' ->
  (backlog (obj s u) <> [] -> s' = s) /\ (stream (obj s' u) = None -> backlog (obj s u) = []).
Proof. exact retire_race. Qed.
Print Assumptions C01_retire_only_when_empty.

(* --- when nothing more can happen for an object (no pending worker, no event to take, none in flight),
       everything that arrived for it was processed --- *)
Theorem C01_quiescent_complete : forall lim tr s u, run (init lim) tr = Some s ->
  intact (obj s u) = true -> ph s <> PClosed ->
  (forall e p, step s (LGet u e p) = None) -> (forall e, step s (LEnd u e) = None) ->
  npend (obj s u) = 0 -> unsp s u = 0 ->
  processed (obj s u) = arrived (obj s u).
Proof. exact quiescent_complete. Qed.
Print Assumptions C01_quiescent_complete.

(* --- the worker limit, and nothing but the limit, couples different objects --- *)
Theorem C01_limit : forall lim tr s L, run (init lim) tr = Some s -> limit s = Some L -> running s <= L.
Proof. exact limit_respected. Qed.
Print Assumptions C01_limit.

Theorem C01_no_cross_blocking : forall s1 s2 u, obj s1 u = obj s2 u -> workers_live s1 = workers_live s2 ->
  (forall e p, step s1 (LGet u e p) = None <-> step s2 (LGet u e p) = None) /\
  (forall e, step s1 (LEnd u e) = None <-> step s2 (LEnd u e) = None).
Proof. exact no_cross_blocking. Qed.
Print Assumptions C01_no_cross_blocking.

Theorem C01_start_enabled : forall s u,
  step s (LStart u) <> None <-> (ph s <> PClosed /\ under_limit s = true /\ exists rest, pending s = u :: rest).
Proof. exact start_enabled. Qed.
Print Assumptions C01_start_enabled.

(* --- shutdown: if the depletion wait ended without hitting exit_timeout, everything queued was processed,
       wherever the watcher was cancelled except inside scheduler.spawn() before the job was queued --- *)
Theorem C01_drain_partial : forall lim tr s u, run (init lim) tr = Some s ->
  (ph s = PDepleted \/ ph s = PClosed) -> timedout s = false -> in_spawn (cancel_pc s) = false ->
  intact (obj s u) = true -> processed (obj s u) = arrived (obj s u).
Proof. exact drain. Qed.
Print Assumptions C01_drain_partial.

(* non-vacuity: cancelled while holding an event of another object *)
Theorem C01_drain_example :
  exists s, run (init None) tr_cancel_insert = Some s /\ ph s = PDepleted /\ timedout s = false /\
    cancel_pc s = WInsert 1 1 /\ in_spawn (cancel_pc s) = false /\ intact (obj s 0) = true /\
    processed (obj s 0) = [0] /\ arrived (obj s 0) = [0].
Proof. exact drain_example. Qed.
Print Assumptions C01_drain_example.

(* without that hypothesis the model (which lets a cancellation land inside scheduler.spawn()
   before the job is queued — an over-approximation of the lock wait there) has an orphan stream *)
Theorem C01_drain_refuted :
  exists lim tr s u, run (init lim) tr = Some s /\ ph s = PDepleted /\ timedout s = false /\
    intact (obj s u) = true /\ processed (obj s u) <> arrived (obj s u).
Proof. exact drain_unconditional_refuted. Qed.
Print Assumptions C01_drain_refuted.

(* --- liveness.  Deadlock freedom: while an event of an intact object is unprocessed, some internal step
       (spawn, start, take, finish, exit, idle retirement) is enabled --- *)
Theorem C01_no_deadlock : forall lim tr s u, run (init lim) tr = Some s ->
  ph s <> PClosed -> (ph s = PAlive \/ in_spawn (cancel_pc s) = false) -> limit_positive s = true ->
  intact (obj s u) = true -> processed (obj s u) <> arrived (obj s u) ->
  exists l s', progress_label s l = true /\ step s l = Some s'.
Proof. exact no_deadlock. Qed.
Print Assumptions C01_no_deadlock.

Theorem C01_no_deadlock_example :
  exists s, run (init (Some 1)) (firstn 9 tr_example) = Some s /\ ph s = PAlive /\ limit_positive s = true /\
    intact (obj s 1) = true /\ processed (obj s 1) <> arrived (obj s 1) /\
    progress_label s (LTimeout 0) = true /\ step s (LTimeout 0) <> None /\ step s (LStart 1) = None.
Proof. exact no_deadlock_example. Qed.
Print Assumptions C01_no_deadlock_example.

(* every internal step strictly decreases the variant work_left (so there is no infinite internal activity) *)
Theorem C01_progress_decreases : forall lim tr s l s', run (init lim) tr = Some s ->
  progress_label s l = true -> step s l = Some s' -> work_left s' < work_left s.
Proof. exact progress_decreases_reach. Qed.
Print Assumptions C01_progress_decreases.

(* for EVERY scheduler: at most work_left s internal steps, and when none is possible any more every intact
   object has all its arrived events processed *)
Theorem C01_eventually_processed : forall lim tr0 s tr s', run (init lim) tr0 = Some s ->
  ph s <> PClosed -> (ph s = PAlive \/ in_spawn (cancel_pc s) = false) -> limit_positive s = true ->
  progress_run s tr = Some s' ->
  List.length tr <= work_left s /\
  ((forall l, progress_label s' l = true -> step s' l = None) ->
   forall u, intact (obj s' u) = true -> processed (obj s' u) = arrived (obj s' u)).
Proof. exact eventually_processed. Qed.
Print Assumptions C01_eventually_processed.

Theorem C01_eventually_processed_example :
  exists s s', run (init (Some 1)) (firstn 10 tr_example) = Some s /\ progress_run s tr_rest = Some s' /\
    ph s = PAlive /\ limit_positive s = true /\ work_left s = 11 /\ work_left s' = 0 /\
    processed (obj s' 0) = [0; 2] /\ arrived (obj s' 0) = [0; 2] /\ processed (obj s' 1) = [1] /\
    quiet s' [0; 1] true = true.
Proof. exact eventually_processed_example. Qed.
Print Assumptions C01_eventually_processed_example.

Theorem C01_quiescent_example :
  exists s, run (init (Some 1)) (firstn 15 tr_example) = Some s /\ ph s = PAlive /\ intact (obj s 0) = true /\
    (forall e p, step s (LGet 0 e p) = None) /\ (forall e, step s (LEnd 0 e) = None) /\
    npend (obj s 0) = 0 /\ unsp s 0 = 0 /\ arrived (obj s 0) = [0; 2].
Proof. exact quiescent_example. Qed.
Print Assumptions C01_quiescent_example.

(* --- a processor is told (stream_pressure) whenever events of its object are waiting --- *)
Theorem C01_pressure : forall lim tr s u, run (init lim) tr = Some s ->
  evs (backlog (obj s u)) <> [] -> exists b, stream (obj s u) = Some (b, true).
Proof. exact pressure_sound. Qed.
Print Assumptions C01_pressure.

(* --- non-vacuity: two objects, limit 1, an arrival racing the idle timeout, graceful shutdown --- *)
Theorem C01_example_accepted :
  exists s, run (init (Some 1)) tr_example = Some s /\ ph s = PClosed /\ timedout s = false /\ cancel_pc s = WIdle /\
    processed (obj s 0) = [0; 2] /\ processed (obj s 1) = [1] /\ failed_in 0 tr_example = false.
Proof. exact example_accepted. Qed.
Print Assumptions C01_example_accepted.

Theorem C01_example_race_state :
  exists s, run (init (Some 1)) (firstn 10 tr_example) = Some s /\
    evs (backlog (obj s 0)) = [2] /\ step s (LTimeout 0) = Some s /\
    (forall e p, step s (LGet 1 e p) = None) /\ step s (LStart 1) = None.
Proof. exact example_race_state. Qed.
Print Assumptions C01_example_race_state.
