(* C03 — level-triggered convergence across changes, restarts and downtime.
   Statements only; proofs in Proofs/CycleWorld.v, Proofs/CycleCalm.v, Proofs/Retrigger.v.  The closed-loop model
   (Model/CycleWorld.v) is tied to the real operator by replaying recorded histories through its acceptor
   (harness/kv/cw_tie.py); the model of application.apply (Model/PatchObj.v) by the D:apply_retrigger differential.

   Clause table (statement of C03 -> what states it):
   | clause                                                              | stated by                                                        | status |
   | changes made while the operator is down / between crash and restart | C03_downtime_accumulates + C03_calm_after_start                  | full (one accumulated view, any number of edits) |
   | changes made while the operator runs, object at rest                | C03_calm_after_edit                                              | full |
   | changes made while a cycle is still open                            | C03_absorbed_change_refuted (F13), C03_reverted_change_refuted (F15) | refuted: two views queued is outside [calm] |
   | once changes stop and handlers stop failing, handling terminates    | C03_converges (+ _bounded, _from_precalm, C03_rank_decreases, C03_calm_is_invariant, C03_forced_step_is_execution) | full on the model, from every calm state, after any finite prefix of outcomes |
   | ... after a write conflict on the finalizer patch                   | C03_carried_patch_stall_refuted (F14)                            | refuted |
   | every selected handler has completed against the final state        | C03_converges (served), C03_served_exactly_once                   | full for the handlers pending when failures stop; handlers finished earlier in an open cycle: F13 |
   | last-handled state equals that state, no progress records remain    | C03_converges; C03_closing_sound, C03_not_closed_before_done      | full |
   | the framework itself stops writing                                  | C03_stops_writing, C03_rest_is_stable, C03_fixpoint_sound_partial | full (a settled view yields no patch; at rest no operator step is enabled) |
   | a deletion as the outstanding change: every selected deletion handler completes before the object is let go | Props/C06.v (release decision: C06_release_only_if, C06_not_released_early_partial, C06_released_eventually); here: monitor deletion-handler-incomplete on the real operator over the deletion scenario family (several deletion handlers, zero-delay retries, restarts mid-deletion) | monitored here, proved under C06 |
   | a cycle that leaves something outstanding re-triggers itself        | C03_unfinished_cycle_retriggers, C03_quiet_only_when_done, C03_progress | full (function level: also the zero-delay touch) |
   | for every interleaving / delivery timing (quantifier)               | label lists of the LTS are universally quantified in the safety theorems; liveness is for the forced schedule of the calm phase (one FIFO worker: the schedule is forced) | deletion, resume handlers, filters, latency > 0: monitored on the real operator only |
   Hypotheses are met by the real operator: C03_calm_checkable + the calm-state count in the evidence. *)
From Coq Require Import Arith List Bool.
From KV Require Import Model.CycleWorld Proofs.CycleWorld.
From KV Require Model.PatchObj Proofs.Retrigger.
From KV Require Import Proofs.CycleCalm.
Import ListNotations.

(* Changes made while the operator is down are handled as ONE accumulated change: after
   Kill, any number of edits, Start — exactly one event is queued, it shows the last-handled
   state from before the kill as `old` and the final essence as `new`. *)
Theorem C03_downtime_accumulates : forall hc hu lc T w es nf,
  exists w', run hc hu lc T w (Kill :: map Edit es ++ [Start nf]) = Some w'
             /\ m_queue (w_mem w') = [w_srv w']
             /\ o_ess (w_srv w') = last_or (o_ess (w_srv w)) es
             /\ o_last (w_srv w') = o_last (w_srv w)
             /\ o_recs (w_srv w') = o_recs (w_srv w).
Proof. exact downtime_accumulates. Qed.
Print Assumptions C03_downtime_accumulates.

(* Progress: a consistent worker looking at a view with an outstanding change (and the
   finalizer as required, nothing carried) never does "nothing": it patches or returns a delay. *)
Theorem C03_progress : forall hc hu lc now nf v oracle,
  cause_of v <> Noop -> has_handlers hc hu = true -> nf = o_fin v ->
  quiet (process hc hu lc now nf [] true v oracle) = false.
Proof. exact process_progress. Qed.
Print Assumptions C03_progress.

(* Fixpoint soundness (the part that holds): if a cycle yields no patch, no transformation and
   no delay, then the recorded last-handled state equals the essence of the view. *)
Theorem C03_fixpoint_sound_partial : forall hc hu lc now nf v oracle,
  has_handlers hc hu = true -> nf = o_fin v ->
  quiet (process hc hu lc now nf [] true v oracle) = true ->
  o_last v = Some (o_ess v).
Proof. exact fixpoint_sound_partial. Qed.
Print Assumptions C03_fixpoint_sound_partial.

(* ... and then the framework itself stops writing. *)
Theorem C03_stops_writing : forall hc hu lc now v oracle,
  o_last v = Some (o_ess v) -> o_dummy v = false ->
  process hc hu lc now (o_fin v) [] true v oracle = mkDec [] [] false None [] [] false false.
Proof. exact settled_view_is_quiet. Qed.
Print Assumptions C03_stops_writing.

(* The cycle is closed (last-handled written) only with the essence of the processed view, only
   when every selected handler has finished, and then all owned records are purged in the same patch. *)
Theorem C03_closing_sound : forall hc hu lc now v oracle e,
  d_last (changing hc hu lc now v oracle) = Some e ->
  e = o_ess v /\ all_done hc hu lc now v oracle = true
  /\ (selected hc hu v <> [] -> d_purge (changing hc hu lc now v oracle) = true).
Proof. exact (fun hc hu lc => closing_sound hc hu lc 0). Qed.
Print Assumptions C03_closing_sound.

Theorem C03_not_closed_before_done : forall hc hu lc now v oracle,
  all_done hc hu lc now v oracle = false ->
  d_last (changing hc hu lc now v oracle) = None /\ d_purge (changing hc hu lc now v oracle) = false.
Proof. exact not_closed_before_done. Qed.
Print Assumptions C03_not_closed_before_done.

(* Termination variant: once handlers stop failing, every cycle that can invoke anything finishes
   at least one more selected handler (for every lifecycle). *)
Theorem C03_terminates_partial : forall hc hu lc now v oracle,
  (forall h, oracle h = OK) -> todo hc hu now v <> [] ->
  unfinished (state_after hc hu lc now v oracle) (selected hc hu v) < unfinished (hstate now v) (selected hc hu v).
Proof. exact cycle_finishes_one. Qed.
Print Assumptions C03_terminates_partial.

(* The full statement — "once changes stop and handlers stop failing, every selected handler has
   completed against the final essential state, no progress records remain" — is FALSE of the
   faithful model.  Three witnesses, each a history recorded from the unchanged operator: *)
Theorem C03_absorbed_change_refuted :
  exists w, run [] [0; 1] Asap 40 (init 1 false) f13_trace = Some w
            /\ quiescent w = true /\ settled [] [0; 1] (w_srv w) = true /\ o_ess (w_srv w) = 3
            /\ filter (fun x => Nat.eqb (fst (fst (fst x))) 0) (w_log w) = [(0, 0, 2, OK)].
Proof. exact absorbed_change_witness. Qed.
Print Assumptions C03_absorbed_change_refuted.

Theorem C03_carried_patch_stall_refuted :
  exists w, run [] [0] Asap 40 (init 1 true) f14_trace = Some w
            /\ quiescent w = true /\ m_carried (w_mem w) = [] /\ settled [] [0] (w_srv w) = false
            /\ rget 0 (o_recs (w_srv w)) = Some (HOpen 1 30) /\ o_last (w_srv w) = Some 1 /\ o_ess (w_srv w) = 2.
Proof. exact carried_patch_stall_witness. Qed.
Print Assumptions C03_carried_patch_stall_refuted.

Theorem C03_reverted_change_refuted :
  exists w, run [] [0] Asap 40 (init 1 false) f15_trace = Some w
            /\ quiescent w = true /\ o_last (w_srv w) = Some (o_ess (w_srv w))
            /\ rget 0 (o_recs (w_srv w)) = Some (HOpen 1 30) /\ settled [] [0] (w_srv w) = false.
Proof. exact reverted_change_witness. Qed.
Print Assumptions C03_reverted_change_refuted.

(* Function level (application.apply as modelled in Model/PatchObj.v, tied by D:apply_retrigger): a cycle that
   reports a delay - some selected handler is unfinished - never ends silently.  Either it patched something
   (the echo of the patch re-triggers the object), or it slept the delay out and patched the touch-dummy
   (also for a ZERO delay with nothing to patch), or a new event interrupted the sleep (it is processed next).
   For every patch, every delay list, every server behaviour that lets apply return. *)
Theorem C03_unfinished_cycle_retriggers :
  forall S serve diff has_sub patch0 clear fns orig delays woken touch_patch (s0 : S) r,
  PatchObj.po_apply S serve diff has_sub patch0 clear fns orig delays woken touch_patch s0 = PatchObj.ApOk r ->
  PatchObj.po_min delays <> None ->
  PatchObj.po_patch_truthy patch0 fns = true
  \/ PatchObj.ap_touched r = true
  \/ (woken = true /\ PatchObj.ap_slept r <> None).
Proof. exact Retrigger.apply_retriggers. Qed.
Print Assumptions C03_unfinished_cycle_retriggers.

(* ... and it reports "nothing left to do" only when there is neither a patch nor a delay. *)
Theorem C03_quiet_only_when_done :
  forall S serve diff has_sub patch0 clear fns orig delays woken touch_patch (s0 : S) r,
  PatchObj.po_apply S serve diff has_sub patch0 clear fns orig delays woken touch_patch s0 = PatchObj.ApOk r ->
  PatchObj.ap_applied r = true -> PatchObj.po_min delays = None /\ PatchObj.po_patch_truthy patch0 fns = false.
Proof. exact Retrigger.apply_quiet_only_when_done. Qed.
Print Assumptions C03_quiet_only_when_done.

(* ------------------------------------------------------------------------------------------------------------
   LIVENESS on the closed-loop model, unbounded: once the environment is calm (no further edits, kills, restarts,
   re-lists, daemon exits) and handlers stop failing, handling terminates, for every handler set with unique ids,
   every lifecycle, every consistency timeout, every retry delay, every number of failures before.

   [calm] is the class of states the operator is in between external disturbances when nothing went wrong in the
   way F13/F14/F15 describe: it is up, carries no refused transformation, the finalizer is as required, at most the
   current state is queued (its own echo), progress records exist only for the handlers of the outstanding cause.
   It is entered by an edit of an object at rest and by a (re)start on any object without foreign-cause records
   (so: after any crash, any downtime with any number of edits - C03_downtime_accumulates), and is preserved by the
   operator's own steps WHATEVER the handlers do.  The three refutations above are exactly the ways out of it. *)

(* the forced step of the calm phase (process the queued event; else sleep to the timer and touch) is an execution
   of the transition system, for every outcome of the handlers *)
Theorem C03_forced_step_is_execution : forall hc hu lc T,
  has_handlers hc hu = true ->
  forall orc w, calm hc hu w -> run hc hu lc T w (calm_labels hc hu lc orc w) = Some (calm_step hc hu lc T orc w).
Proof. exact calm_step_run. Qed.
Print Assumptions C03_forced_step_is_execution.

Theorem C03_calm_is_invariant : forall hc hu lc T,
  NoDup (hc ++ hu) -> has_handlers hc hu = true ->
  forall orc w, calm hc hu w -> calm hc hu (calm_step hc hu lc T orc w).
Proof. exact calm_step_calm. Qed.
Print Assumptions C03_calm_is_invariant.

Theorem C03_calm_after_edit : forall hc hu lc T w e w',
  calm hc hu w -> quiescent w = true -> step hc hu lc T w (Edit e) = Some w' -> calm hc hu w'.
Proof. exact calm_after_edit. Qed.
Print Assumptions C03_calm_after_edit.

Theorem C03_calm_after_start : forall hc hu lc T w w',
  (forall h, In h (owned hc hu) -> rget h (o_recs (w_srv w)) <> None -> In h (selected hc hu (w_srv w))) ->
  step hc hu lc T w (Start (o_fin (w_srv w))) = Some w' -> calm hc hu w'.
Proof. exact calm_after_start. Qed.
Print Assumptions C03_calm_after_start.

(* every forced step under succeeding handlers decreases a rank; at rank 0 the object is at rest and settled *)
Theorem C03_rank_decreases : forall hc hu lc T,
  NoDup (hc ++ hu) -> has_handlers hc hu = true ->
  forall w, calm hc hu w -> 0 < rank hc hu w -> rank hc hu (calm_step hc hu lc T ok w) < rank hc hu w.
Proof. exact rank_decreases. Qed.
Print Assumptions C03_rank_decreases.

(* THE STATEMENT: after ANY finite sequence of handler outcomes (temporary errors with any delays, permanent
   errors, successes), once handlers succeed, a bounded number of the operator's own steps - an execution of the
   transition system - brings the object to rest: nothing queued, no sleep pending, on the final essence, recorded
   as handled, no progress records; and every handler that was still pending has been invoked, with success, on
   that final essence. *)
Theorem C03_converges : forall hc hu lc T,
  NoDup (hc ++ hu) -> has_handlers hc hu = true ->
  forall w failing, calm hc hu w ->
  exists n ls w',
    w' = drive hc hu lc T (failing ++ repeat ok n) w
    /\ run hc hu lc T w ls = Some w'
    /\ quiescent w' = true
    /\ o_ess (w_srv w') = o_ess (w_srv w)
    /\ o_last (w_srv w') = Some (o_ess (w_srv w))
    /\ no_own_records hc hu (w_srv w') = true
    /\ (forall h, pending_handler hc hu (drive hc hu lc T failing w) h -> served (drive hc hu lc T failing w) w' h).
Proof. exact calm_convergence. Qed.
Print Assumptions C03_converges.

(* ... and exactly once: on the way to rest no handler succeeds twice (the log gains exactly one successful invocation
   of every handler that was pending). *)
Theorem C03_served_exactly_once : forall hc hu lc T,
  NoDup (hc ++ hu) -> has_handlers hc hu = true ->
  forall w h, calm hc hu w -> pending_handler hc hu w h ->
  forall n, let w' := drive hc hu lc T (repeat ok n) w in
    settled hc hu (w_srv w') = true ->
    exists extra, w_log w' = w_log w ++ extra /\ okcount h extra = 1.
Proof. exact calm_serves_exactly_once. Qed.
Print Assumptions C03_served_exactly_once.

(* ... and there it stays: at rest no step of the operator is enabled (no event to process, no sleep to end); only the
   environment can move the system again. *)
Theorem C03_rest_is_stable : forall hc hu lc T w, quiescent w = true ->
  (forall o waited lost, step hc hu lc T w (Proc o waited lost) = None) /\ step hc hu lc T w Fire = None
  /\ calm_step hc hu lc T ok w = w.
Proof. exact rest_is_stable. Qed.
Print Assumptions C03_rest_is_stable.

(* ... within [rank] steps *)
Theorem C03_converges_bounded : forall hc hu lc T,
  NoDup (hc ++ hu) -> has_handlers hc hu = true ->
  forall w, calm hc hu w ->
  exists n, n <= rank hc hu w
    /\ quiescent (drive hc hu lc T (repeat ok n) w) = true
    /\ settled hc hu (w_srv (drive hc hu lc T (repeat ok n) w)) = true.
Proof. exact calm_converges. Qed.
Print Assumptions C03_converges_bounded.

(* One step before calm: the finalizer is not yet as the spawning handlers require it (a new process with daemons meets
   an object without it; the last daemon has gone and it is still there).  The first cycle only adds / removes the
   finalizer, and from its echo on the object is calm: the same convergence, one step later. *)
Theorem C03_converges_from_precalm : forall hc hu lc T,
  NoDup (hc ++ hu) -> has_handlers hc hu = true ->
  forall w first failing, precalm hc hu w ->
  exists n, let w' := drive hc hu lc T (first :: failing ++ repeat ok n) w in
    quiescent w' = true /\ settled hc hu (w_srv w') = true /\ o_ess (w_srv w') = o_ess (w_srv w).
Proof. exact precalm_settles. Qed.
Print Assumptions C03_converges_from_precalm.

(* [calmb] decides the hypothesis; the harness evaluates it on every state of every recorded history of the real
   operator and reports how many are calm (evidence: calm_states_in_recorded_histories) *)
Theorem C03_calm_checkable : forall hc hu w, calmb hc hu w = true -> calm hc hu w.
Proof. exact calmb_sound. Qed.
Print Assumptions C03_calm_checkable.

(* non-vacuity: a new object with two creation handlers (one-by-one), the first failing twice with a retry delay of
   5 ticks before it succeeds: the start state is calm, and the forced steps bring it to rest, with three
   invocations of handler 0 (retries 0, 1, 2) and one of handler 1, all on essence 7 *)
Example C03_converges_example :
  let w0 := mkWorld (mkObj 1 7 None [] false false) (mkMem true [mkObj 1 7 None [] false false] [] None None true) false 0 [] in
  let fail0 := fun h : hid => if Nat.eqb h 0 then Temp 5 else OK in
  let w' := drive [0; 1] [] OneByOne 40 ([fail0; fail0; fail0; fail0; fail0; fail0] ++ repeat ok 6) w0 in
  quiescent w' = true /\ settled [0; 1] [] (w_srv w') = true
  /\ map (fun x => (fst (fst (fst x)), snd (fst (fst x)), snd x)) (w_log w')
     = [(0, 0, Temp 5); (1, 0, OK); (0, 1, Temp 5); (0, 2, OK)].
Proof. vm_compute. repeat split; reflexivity. Qed.
