(* C20 — operator lifecycle: startup first, fail-fast, cleanup last, bounded exit.
   Only statements here; proofs in Proofs/Lifecycle.v and Proofs/LifecycleLive.v; the model is Model/Lifecycle.v.
   Every theorem quantifies over ALL label traces accepted by the model (all schedules, all fault positions,
   all stop triggers at all moments, any number of watchers / workers / daemons / startup handlers and rounds).

   CLAUSE AUDIT (statement + quantifier of properties.jsonl C20)
   ---------------------------------------------------------------------------------------------------------------
   clause                                             | covered by
   ---------------------------------------------------+-----------------------------------------------------------
   1 no API activity before all startup handlers      | FULL  C20_no_api_before_startup, C20_no_child_before_startup
     have succeeded                                   |       (+ rounds: C20_startup_handler_failure_no_api)
   2 a failed startup aborts the operator without any | FULL  C20_failed_startup_no_api (no Api anywhere, flags down),
     API call                                         |       C20_failed_startup_aborts (on its way out in every
                                                      |       continuation; left to itself it returns), Examples
   3 ready flag only after startup                    | FULL  C20_ready_after_startup
   4 ANY essential task fails (incl. watch stream /   | REFUTED+PARTIAL  C20_any_failure_stops_all_refuted (F10: a
     worker) => the whole operator shuts down, does   |       failed Ensemble task leaves a quiescent, unreturned
     not linger half-alive                            |       state) / for ROOT tasks and every stop trigger FULL:
                                                      |       C20_shutdown_progress, C20_no_lingering,
                                                      |       C20_shutdown_completes (+ C20_root_failure_stops_all)
   5 ... or a stop is requested (flag, cancellation)  | FULL  C20_stop_flag_any_moment, C20_signal_any_moment,
     at every moment incl. during startup             |       C20_root_done_during_startup, then clause 4's theorems
                                                      |       (Cancel puts run_tasks into MCStopRoots: shutdown begun)
   6 daemons are stopped                              | REFUTED+PARTIAL  C20_daemons_stopped_before_cleanup_refuted
                                                      |       (F2001) / C20_everything_stopped_before_cleanup (every
                                                      |       daemon the sweep asked is done or abandoned) +
                                                      |       C20_daemons_stopped_before_cleanup_partial
   7 the peering record is withdrawn                  | FULL under the guard the orchestrator ended by cancellation
                                                      |       (its only normal end): C20_everything_stopped_before_cleanup
                                                      |       (+ step-level C20_peering_withdrawn_partial); success of
                                                      |       the final PATCH itself: monitored only (peering-not-withdrawn)
   8 cleanup handlers run after everything else has   | FULL for roots + core: C20_cleanup_last; watchers, keep-alives,
     stopped                                          |       workers under the same guard and asked daemons:
                                                      |       C20_everything_stopped_before_cleanup; unasked daemons: F2001
   9 the run call returns ...                         | FULL  C20_shutdown_completes / C20_maximal_internal_run_returns
                                                      |       (relative to: cancelled user code terminates, no further
                                                      |       environment events)
   10 ... re-raising the failure                      | FULL (safety)  C20_returns_and_reraises; which of several failed
                                                      |       roots is raised is set-iteration order in kopf: any of them
   11 within the bounded grace periods                | PARTIAL  C20_bounded_exit (each grace period at most once),
                                                      |       C20_internal_runs_bounded (at most mu s internal steps);
                                                      |       the bound in virtual SECONDS: monitored only (slow-exit, slow-exit-during-startup)
   quantifier every set of running daemons and       | all theorems: arbitrary Spawn labels; user code = oracle labels
     in-flight handlers, every startup/cleanup outcome|
   ---------------------------------------------------------------------------------------------------------------
   Not covered: sync handlers in threads, ultimate_termination's SIGKILL, liveness endpoint / _command (not configured).
   Model refutation that is NOT a recorded finding: the guard of clauses 7/8 — if the orchestrator itself dies by an
   exception its Ensemble is left to the hung-tasks phase, i.e. after cleanup; no failure source for that exists in
   the code (adjust_tasks only awaits toggles and task creation), so it is stated as a guard, not reported. *)
From Coq Require Import List Bool Arith.
From KV Require Import Model.Lifecycle Proofs.Lifecycle Proofs.LifecycleLive.
Import ListNotations.

(* No API request by any task before the startup activity succeeded and the flag was set ... *)
Theorem C20_no_api_before_startup : forall pre t post s,
  run init (pre ++ Api t :: post) = Some s -> exists p1 p2, pre = p1 ++ Flag :: p2 /\ In StartupOk p1.
Proof. exact no_api_before_startup. Qed.
Print Assumptions C20_no_api_before_startup.

(* ... nor is any watcher / keep-alive / worker / daemon created before that. *)
Theorem C20_no_child_before_startup : forall pre t b post s,
  run init (pre ++ Spawn t b :: post) = Some s -> exists p1 p2, pre = p1 ++ Flag :: p2 /\ In StartupOk p1.
Proof. exact no_child_before_startup. Qed.
Print Assumptions C20_no_child_before_startup.

(* A failed startup: the flags are never raised and there is no API request anywhere in the run. *)
Theorem C20_failed_startup_no_api : forall tr s, run init tr = Some s -> In StartupFail tr ->
  started s = false /\ ready s = false /\ forall t, ~ In (Api t) tr.
Proof. exact failed_startup_no_api. Qed.
Print Assumptions C20_failed_startup_no_api.

(* run_activity works in rounds (retries).  ANY final failure of ANY startup handler in ANY round: StartupOk and Flag
   can no longer happen, the flags stay down, and there is no API request anywhere in the run — whatever the other
   handlers do in later rounds (outcomes of all rounds are merged: `outcomes |= current_outcomes`). *)
Theorem C20_startup_handler_failure_no_api : forall tr s h, run init tr = Some s -> In (StartupHandler h HPerm) tr ->
  started s = false /\ ready s = false /\ (forall t, ~ In (Api t) tr) /\
  (forall pre post, tr = pre ++ StartupHandler h HPerm :: post -> ~ In StartupOk post /\ ~ In Flag post).
Proof. exact startup_handler_failure_no_api. Qed.
Print Assumptions C20_startup_handler_failure_no_api.

Example C20_mixed_rounds_startup_failure : returned_with tr_mixed_rounds (RErr EStartup) = true.
Proof. exact mixed_rounds_accepted. Qed.
Print Assumptions C20_mixed_rounds_startup_failure.

(* ... and such a run exists and returns the startup failure (non-vacuity + "Return carries the failure"). *)
Example C20_failed_startup_returns_failure : returned_with tr_failed_startup (RErr EStartup) = true.
Proof. exact failed_startup_accepted. Qed.
Print Assumptions C20_failed_startup_returns_failure.

(* The ready flag is raised only by Flag, which follows StartupOk. *)
Theorem C20_ready_after_startup : forall tr s, run init tr = Some s -> ready s = true ->
  started s = true /\ exists pre post, tr = pre ++ Flag :: post /\ In StartupOk pre.
Proof. exact ready_after_startup. Qed.
Print Assumptions C20_ready_after_startup.

(* The property's full statement "when ANY essential task fails the whole operator shuts down" is false of the
   faithful model: after a watcher failed, no internal step is enabled, nothing has returned, every root runs. (F10) *)
Theorem C20_any_failure_stops_all_refuted :
  exists tr t s, run init tr = Some s /\ In (Fail t) tr /\
    quiescent s = true /\ returned s = false /\ all_roots_running s = true /\ stopflag s = false.
Proof. exact any_failure_stops_all_refuted. Qed.
Print Assumptions C20_any_failure_stops_all_refuted.

Example C20_failed_worker_lingers_too : lingers tr_f10_worker = true.
Proof. exact f10_worker_lingers. Qed.
Print Assumptions C20_failed_worker_lingers_too.

(* Partial: for ROOT tasks.  Once a root task is done run_tasks' reaction (cancel all pending roots) is enabled, and a
   return other than by double cancellation happens only when every root task is done. *)
Theorem C20_root_failure_stops_all : forall tr s, run init tr = Some s ->
  (forall x, mn s = MWait -> is_done (ph s (TRoot x)) = true -> act s <> AFlag ->
     exists s', step s MainStop = Some s' /\ mn s' = MStopRoots) /\
  (forall r, mn s = MReturned r -> r <> RCancelled -> forall x, is_done (ph s (TRoot x)) = true).
Proof. exact root_failure_stops_all. Qed.
Print Assumptions C20_root_failure_stops_all.

Example C20_root_failure_run : returned_with tr_root_failure (RErr (EOf (TRoot RResObs))) = true.
Proof. exact root_failure_accepted. Qed.
Print Assumptions C20_root_failure_run.

(* What kopf.operator() raises: an error one of the root (or hung) tasks ended with; nothing if none did. *)
Theorem C20_returns_and_reraises : forall s r s', step s (Return r) = Some s' ->
  match r with
  | ROk => forall t e, In t (root_tasks ++ hung s) -> ph s t <> PDone (OErr e)
  | RErr e => exists t, In t (root_tasks ++ hung s) /\ ph s t = PDone (OErr e)
  | RCancelled => mn s = MCStopHung
  end.
Proof. exact returns_and_reraises. Qed.
Print Assumptions C20_returns_and_reraises.

(* Cleanup starts only when every other root task and the core task are done; they stay done, make no API request and
   create no task afterwards. *)
Theorem C20_cleanup_last : forall pre post s, run init (pre ++ CleanupBegin :: post) = Some s ->
  exists s0, run init pre = Some s0 /\
    all_done (ph s0) other_roots = true /\ is_done (ph s0 TAuth) = true /\
    (forall t, In t (TAuth :: other_roots) -> ph s t = ph s0 t) /\
    (forall t, In t (TAuth :: other_roots) -> ~ In (Api t) post /\ forall c, ~ In (Spawn c t) post).
Proof. exact cleanup_last. Qed.
Print Assumptions C20_cleanup_last.

(* "daemons are stopped before cleanup" is false of the faithful model: a daemon spawned after the killer's only
   sweep is running, never asked, when CleanupBegin happens (F2001) ... *)
Theorem C20_daemons_stopped_before_cleanup_refuted : daemon_alive_unasked_at_cleanup tr_f2001 0 = true.
Proof. exact daemons_stopped_before_cleanup_refuted. Qed.
Print Assumptions C20_daemons_stopped_before_cleanup_refuted.

(* ... partial: the daemon killer (a root task, hence done before cleanup by C20_cleanup_last) ends, however its body
   ended, only after its sweep and with every daemon it asked done or abandoned.  (Before the fix c948bdc the sweep itself
   could die of "dictionary changed size during iteration" — former finding F2002, label SweepFail, now gone.) *)
Theorem C20_daemons_stopped_before_cleanup_partial : forall s o s', step s (Finish (TRoot RKiller) o) = Some s' ->
  ph s (TRoot RKiller) = PEnding o ->
  swept s = true /\ forall d, In d (asked s) -> is_done (ph s (TDaemon d)) = true \/ In d (abandoned s).
Proof. exact killer_finish_partial. Qed.
Print Assumptions C20_daemons_stopped_before_cleanup_partial.

(* Peering: a keep-alive ends only after its final touch; a cancelled orchestrator (a root, done before cleanup) ends
   only after every watcher and keep-alive it created. *)
Theorem C20_peering_withdrawn_partial : forall s k o s', step s (Finish (TKeepalive k) o) = Some s' ->
  ph s (TKeepalive k) = PEnding o -> In k (withdrawn s).
Proof. exact keepalive_finish_partial. Qed.
Print Assumptions C20_peering_withdrawn_partial.

Theorem C20_streams_stopped_partial : forall s s', step s (Finish (TRoot ROrch) OCancelled) = Some s' ->
  ph s (TRoot ROrch) = PEnding OCancelled ->
  forall t, In t (spawned s) -> is_ensemble t = true -> is_done (ph s t) = true.
Proof. exact orch_finish_partial. Qed.
Print Assumptions C20_streams_stopped_partial.

(* Bounded exit (relative to cancellable handlers): every grace period — the 5 s for hung tasks, exit_timeout per
   watcher, backoff and timeout per daemon — is spent at most once in any run. *)
Theorem C20_bounded_exit : forall tr s g, run init tr = Some s -> count_grace g tr <= 1.
Proof. exact grace_once. Qed.
Print Assumptions C20_bounded_exit.

(* The FLAG-type stop trigger (stop_flag / OS signal = label StopFlag) at every moment, explicitly incl. during startup.
   The stop-flag checker is not guarded by started_flag: it runs from time 0 ... *)
Theorem C20_stop_flag_checker_unguarded :
  ph init (TRoot RStopper) = PRun /\ ph init TWaiter = PRun /\ guarded RStopper = false.
Proof. exact stopper_runs_from_start. Qed.
Print Assumptions C20_stop_flag_checker_unguarded.

(* ... and in every reachable state where run_tasks still waits — whatever the startup handlers are doing — the trigger
   is followed through: checker finishes, run_tasks cancels all roots; if that was during startup, in EVERY continuation
   the flags stay down and there is no StartupOk, no Flag, no API request and no cleanup (what the code does: the startup
   is abandoned, "Startup activity is only partially executed", cleanup is not run).  Together with C20_bounded_exit
   (each grace period at most once) this is the bounded exit for the flag trigger inside the startup phase.
   aborted_for_good s3 := act s3 = AStopCore (Some OCancelled) /\ started s3 = false /\ forall post s4, run s3 post = Some s4 ->
     started s4 = false /\ ready s4 = false /\ ~In StartupOk post /\ ~In Flag post /\ ~In CleanupBegin post /\ forall t, ~In (Api t) post *)
Theorem C20_stop_flag_any_moment : forall tr s, run init tr = Some s ->
  mn s = MWait -> stopflag s = false -> ph s (TRoot RStopper) = PRun -> ph s TWaiter = PRun -> act s <> AFlag ->
  exists s3, run s stop_reaction = Some s3 /\ mn s3 = MStopRoots /\
    (act s = AStartup \/ act s = AStartupBad -> ph s (TRoot RAct) = PRun -> aborted_for_good s3).
Proof. exact stop_flag_any_moment. Qed.
Print Assumptions C20_stop_flag_any_moment.

(* the same for an OS signal (SIGINT/SIGTERM through signal_flag) *)
Theorem C20_signal_any_moment : forall tr s, run init tr = Some s ->
  mn s = MWait -> ph s (TRoot RStopper) = PRun -> act s <> AFlag ->
  exists s3, run s signal_reaction = Some s3 /\ mn s3 = MStopRoots /\
    (act s = AStartup \/ act s = AStartupBad -> ph s (TRoot RAct) = PRun -> aborted_for_good s3).
Proof. exact signal_any_moment. Qed.
Print Assumptions C20_signal_any_moment.

(* and for ANY root task that finishes (e.g. fails) while the startup activity runs *)
Theorem C20_root_done_during_startup : forall tr s x, run init tr = Some s ->
  mn s = MWait -> is_done (ph s (TRoot x)) = true -> act s = AStartup \/ act s = AStartupBad -> ph s (TRoot RAct) = PRun ->
  exists s3, step s MainStop = Some s3 /\ mn s3 = MStopRoots /\ aborted_for_good s3.
Proof. exact mainstop_during_startup. Qed.
Print Assumptions C20_root_done_during_startup.

Example C20_stop_flag_mid_startup_hypotheses :
  match run init tr_mid_startup with
  | Some s => match mn s, stopflag s, ph s (TRoot RStopper), ph s TWaiter, act s, ph s (TRoot RAct) with
              | MWait, false, PRun, PRun, AStartup, PRun => true | _, _, _, _, _, _ => false end
  | None => false
  end = true.
Proof. exact mid_startup_hyps. Qed.
Print Assumptions C20_stop_flag_mid_startup_hypotheses.

(* ------------------------------------------------------------------ the shutdown completes (clauses 4, 5, 9, 11)
   internal step = a member of internal_candidates s: what the operator does by itself (run_tasks' reactions, the
   completion of cancelled / finishing tasks, the killer's sweep, the orchestrator stopping its Ensemble, the final
   touch, the grace timeouts, the startup/cleanup task's own moves) — tied to the real operator by D:internal_notion.
   shutdown_begun s = run_tasks is past its FIRST_COMPLETED wait, or some root task is done. *)

(* progress: once the shutdown has begun the operator can always make a step by itself until run_tasks has returned *)
Theorem C20_shutdown_progress : forall tr s, run init tr = Some s -> shutdown_begun s = true -> returned s = false ->
  exists l s', In l (internal_candidates s) /\ step s l = Some s'.
Proof. exact progress. Qed.
Print Assumptions C20_shutdown_progress.

(* never half-alive after a ROOT failure or a stop trigger (contrast: C20_any_failure_stops_all_refuted) *)
Theorem C20_no_lingering : forall tr s, run init tr = Some s -> shutdown_begun s = true -> quiescent s = true -> returned s = true.
Proof. exact no_lingering. Qed.
Print Assumptions C20_no_lingering.

(* the variant: only the creation of a task can increase it; every internal step strictly decreases it *)
Theorem C20_measure_never_increases : forall s l s', (forall t b, l <> Spawn t b) -> step s l = Some s' -> mu s' <= mu s.
Proof. exact mu_noninc. Qed.
Print Assumptions C20_measure_never_increases.

Theorem C20_measure_decreases : forall s l s', In l (internal_candidates s) -> step s l = Some s' -> mu s' < mu s.
Proof. exact mu_decreases. Qed.
Print Assumptions C20_measure_decreases.

(* left to itself the operator reaches the return of run_tasks within mu s steps, from EVERY reachable state in which the
   shutdown has begun *)
Theorem C20_shutdown_completes : forall n tr s, run init tr = Some s -> shutdown_begun s = true -> mu s <= n ->
  returned (drive n s) = true.
Proof. exact shutdown_completes. Qed.
Print Assumptions C20_shutdown_completes.

(* ... in whatever order the internal steps are taken: at most mu s of them, and when nothing is left, it has returned *)
Theorem C20_internal_runs_bounded : forall s tr s', iruns s tr s' -> length tr + mu s' <= mu s.
Proof. exact internal_runs_bounded. Qed.
Print Assumptions C20_internal_runs_bounded.

Theorem C20_maximal_internal_run_returns : forall tr0 s tr s', run init tr0 = Some s -> shutdown_begun s = true ->
  iruns s tr s' -> quiescent s' = true -> returned s' = true /\ length tr <= mu s.
Proof. exact maximal_internal_run_returns. Qed.
Print Assumptions C20_maximal_internal_run_returns.

Example C20_shutdown_begun_nonvacuous :
  match run init tr_root_failed with
  | Some s => shutdown_begun s && negb (returned s) && negb (quiescent s) && (0 <? mu s) && returned (drive (mu s) s)
  | None => false
  end = true.
Proof. exact ex_shutdown_begun. Qed.
Print Assumptions C20_shutdown_begun_nonvacuous.

(* a failed startup aborts the operator (clause 2): in every continuation it is on its way out, left to itself it
   returns, and there is no API request anywhere in the run *)
Theorem C20_failed_startup_aborts : forall tr s, run init tr = Some s -> In StartupFail tr ->
  stopping s /\ returned (drive (mu s) s) = true /\ forall t, ~ In (Api t) tr.
Proof. exact failed_startup_aborts. Qed.
Print Assumptions C20_failed_startup_aborts.

Example C20_failed_startup_aborts_nonvacuous :
  match run init [StartupHandler 0 HPerm; StartupHandler 1 HTemp; StartupHandler 1 HOk; StartupFail] with
  | Some s => negb (shutdown_begun s) && negb (returned s) && returned (drive (mu s) s)
  | None => false
  end = true.
Proof. exact ex_failed_startup_stopping. Qed.
Print Assumptions C20_failed_startup_aborts_nonvacuous.

(* ------------------------------------------------------------------ what has stopped when cleanup begins (clauses 6-8) *)
Theorem C20_everything_stopped_before_cleanup : forall pre post s, run init (pre ++ CleanupBegin :: post) = Some s ->
  exists s0, run init pre = Some s0 /\
    all_done (ph s0) other_roots = true /\ is_done (ph s0 TAuth) = true /\
    (ph s0 (TRoot ROrch) = PDone OCancelled ->
       (forall t, In t (spawned s0) -> is_ensemble t = true \/ is_worker t = true -> is_done (ph s0 t) = true) /\
       (forall k, In (TKeepalive k) (spawned s0) -> mem_nat k (withdrawn s0) = true)) /\
    (swept s0 = true -> forall d, In d (asked s0) -> is_done (ph s0 (TDaemon d)) = true \/ mem_nat d (abandoned s0) = true) /\
    (forall t, is_done (ph s0 t) = true -> ph s t = ph s0 t /\ ~ In (Api t) post /\ forall c, ~ In (Spawn c t) post).
Proof. exact everything_stopped_before_cleanup. Qed.
Print Assumptions C20_everything_stopped_before_cleanup.

Example C20_cleanup_point_nonvacuous :
  nth_error tr_happy 32 = Some CleanupBegin /\
  match run init tr_happy_pre with
  | Some s0 =>
      match ph s0 (TRoot ROrch) with PDone OCancelled => true | _ => false end && swept s0 &&
      mem_task (TWatcher 0) (spawned s0) && mem_task (TWorker 0 0) (spawned s0) && mem_task (TDaemon 0) (spawned s0) &&
      mem_nat 0 (asked s0) && is_done (ph s0 (TDaemon 0))
  | None => false
  end = true.
Proof. exact ex_cleanup_point. Qed.
Print Assumptions C20_cleanup_point_nonvacuous.

(* Outside the single-trigger quantifier: stop flag, then cancellation while the roots are being stopped:
   run_tasks returns at once, with root tasks still alive. *)
Example C20_double_trigger_returns_early :
  match run init tr_double with
  | Some s => returned s && negb (all_done (ph s) root_tasks)
  | None => false
  end = true.
Proof. exact double_trigger_returns_early. Qed.
Print Assumptions C20_double_trigger_returns_early.

(* Non-vacuity: a complete graceful run with a watcher, a worker and a daemon is accepted and returns normally. *)
Example C20_happy_run : returned_with tr_happy ROk = true.
Proof. exact happy_accepted. Qed.
Print Assumptions C20_happy_run.
