(* C20 — operator lifecycle.  Only statements here; proofs in Proofs/Lifecycle.v. *)
From Coq Require Import List Bool Arith.
From KV Require Import Model.Lifecycle Proofs.Lifecycle.
Import ListNotations.

Theorem C20_init_not_started : started init = false.
Proof. exact init_not_started. Qed.
Print Assumptions C20_init_not_started.
