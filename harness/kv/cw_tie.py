"""T-tie of Model/CycleWorld.v: histories of the real closed loop are turned into label lists
(with state checks) and replayed by the Gallina acceptor `replay` (DESIGN.md §6-T).

Scenario family (the model's scope): one or two objects, creation and update handlers without
filters, optionally one daemon that exits on its own (it makes the finalizer required until it
exits), external essential and non-essential edits, kills, graceful restarts, downtimes, 410
re-listings, disconnects; API latency 0 (a worker cycle is then atomic w.r.t. the environment).
Time unit of the model: 1 tick = 1/8 virtual second.
"""
from __future__ import annotations

import json
import random
from typing import Any

from kv import coqio as cq
from kv import cycle_sim as cs
from kv import fakeapi, framework as fw

TICK = 0.125
CYCLES: list[dict] = []        # filled by the wrappers while a scenario runs
_installed = {'done': False}


def ticks(seconds: float) -> int:
    t = seconds / TICK
    if abs(t - round(t)) > 1e-6:
        raise ValueError(f'non-dyadic time {seconds}')
    return int(round(t))


def install() -> None:
    """Wrap processing.process_resource_event / process_resource_causes (module attributes, harness process only)."""
    if _installed['done']:
        return
    import asyncio
    from kopf._core.reactor import processing
    orig_event = processing.process_resource_event
    orig_causes = processing.process_resource_causes
    if not callable(orig_event) or not callable(orig_causes):
        raise RuntimeError('observation point missing: processing.process_resource_event/causes')

    async def event_wrapper(*args: Any, **kwargs: Any) -> Any:
        api = cs.sim.World.current.api if cs.sim.World.current is not None else None
        raw = kwargs['raw_event']
        rec = {'uid': raw['object'].get('metadata', {}).get('uid'), 'rv': raw['object'].get('metadata', {}).get('resourceVersion'),
               'type': raw['type'], 'start_order': api.next_order() if api else 0, 't0': asyncio.get_running_loop().time(),
               'ctime': kwargs.get('consistency_time'), 'inc': cs.sim.INCARNATION.get(), 'waited': False, 'end_order': None}
        CYCLES.append(rec)
        token = _cur.set(rec)
        try:
            return await orig_event(*args, **kwargs)
        finally:
            _cur.reset(token)
            rec['end_order'] = api.next_order() if api else 0
            rec['t1'] = asyncio.get_running_loop().time()

    async def causes_wrapper(*args: Any, **kwargs: Any) -> Any:
        rec = _cur.get(None)
        t0 = asyncio.get_running_loop().time()
        try:
            return await orig_causes(*args, **kwargs)
        finally:
            t1 = asyncio.get_running_loop().time()
            ct = kwargs.get('consistency_time')
            if rec is not None and ct is not None and t0 < ct - 1e-9 and t1 >= ct - 1e-9:
                rec['waited'] = True

    import contextvars
    global _cur
    _cur = contextvars.ContextVar('kv_cw_cycle', default=None)
    processing.process_resource_event = event_wrapper      # type: ignore[assignment]
    processing.process_resource_causes = causes_wrapper    # type: ignore[assignment]
    _installed['done'] = True


CURRENT: dict[str, Any] = {}


# --------------------------------------------------------------------------------------------
def gen_scenario(r: random.Random, n_actions: int = 12) -> dict:
    nc, nu = r.choice([(1, 1), (2, 1), (1, 2), (0, 2), (2, 0), (1, 0), (2, 2)])
    hs = []
    for i in range(nc):
        hs.append({'kind': 'create', 'id': f'c{i}', 'script': cs.gen_script(r), 'kwargs': {'backoff': r.choice([1, 2])}})
    for i in range(nu):
        hs.append({'kind': 'update', 'id': f'u{i}', 'script': cs.gen_script(r), 'kwargs': {'backoff': r.choice([1, 2])}})
    if r.random() < 0.35:
        hs.append({'kind': 'daemon', 'id': 'dm0', 'temper': 'exits', 'duration': r.choice([1, 2, 4]), 'kwargs': {}})
    cfg = {'storage': r.choice(['default', 'annotations', 'smart-p']), 'status_subresource': False,
           'lifecycle': r.choice([None, 'one_by_one', 'all_at_once', 'asap']), 'consistency_timeout': r.choice([5, 2]), 'latency': 0}
    w = {a: 0.0 for a in cs.ENV_ACTIONS}
    w.update({'run': 3.0, 'edit_spec': 3.0, 'edit_label': 1.0, 'edit_status': 1.0, 'edit_ann': 0.7, 'stop_restart': 0.8,
              'kill_restart': 1.0, 'downtime_edits': 0.8, 'disconnect': 0.5, 'gone410': 0.7, 'kill_mid_patch': 0.6, 'create': 0.0})
    acts = cs.gen_actions(r, n_actions, w)
    for a in acts:
        a['obj'] = 'obj1' if 'obj' in a else a.get('obj')
    acts = [a for a in acts if a['a'] != 'create']
    acts.insert(0, {'a': 'create', 'obj': 'obj1', 'spec': {'a': 1}})
    return {'cfg': cfg, 'handlers': hs, 'actions': acts}


def hmap(sc: dict) -> tuple[list[str], list[str]]:
    return ([h['id'] for h in sc['handlers'] if h['kind'] == 'create'], [h['id'] for h in sc['handlers'] if h['kind'] == 'update'])


def c_outcome(sc: dict, hid_name: str, outcome: str) -> str:
    if outcome == 'ok':
        return 'OK'
    if outcome == 'perm':
        return 'Perm'
    if outcome.startswith('temp'):
        return f'(Temp {ticks(float(outcome.split(":")[1]))})'
    if outcome == 'err':
        spec = next(h for h in sc['handlers'] if h['id'] == hid_name)
        return f'(Temp {ticks(float(spec.get("kwargs", {}).get("backoff", 60)))})'
    raise ValueError(outcome)


class Extract:
    """Labels + checks for one object of a finished run."""

    def __init__(self, run: cs.Run, name: str) -> None:
        self.run, self.name = run, name
        self.sc = run.scenario
        self.cfg = self.sc['cfg']
        self.w = run.world
        assert self.w is not None
        self.api = self.w.api
        self.hc, self.hu = hmap(self.sc)
        self.ids = self.hc + self.hu
        self.ess_ids: dict[str, int] = {}
        self.has_daemon = any(h['kind'] == 'daemon' for h in self.sc['handlers'])
        self.unsupported: str | None = None

    def ess_id(self, body: dict) -> int:
        key = json.dumps(cs.essence_of(body, self.cfg), sort_keys=True)
        return self.ess_ids.setdefault(key, len(self.ess_ids) + 1)

    def last_id(self, body: dict) -> str:
        lh = cs.last_handled(body, self.cfg)
        if lh is None:
            return 'None'
        key = json.dumps(lh, sort_keys=True)
        if key not in self.ess_ids:
            self.ess_ids[key] = len(self.ess_ids) + 1
        return f'(Some {self.ess_ids[key]})'

    def rec_term(self, rec: dict) -> str:
        if rec.get('success'):
            return '(HDone true)'
        if rec.get('failure'):
            return '(HDone false)'
        d = rec.get('delayed')
        dl = 0
        if d:
            import datetime
            from kv import clock
            dt = datetime.datetime.fromisoformat(d)
            dl = ticks((dt - clock.EPOCH).total_seconds())
        return f'(HOpen {int(rec.get("retries") or 0)} {dl})'

    def snap_term(self, body: dict) -> str:
        recs = cs.progress_records(body, self.cfg)
        items = [f'({self.ids.index(k)}, {self.rec_term(v)})' for k, v in recs.items() if k in self.ids]
        fin = cs.FINALIZER in body['metadata'].get('finalizers', [])
        return f'(mkSnap {self.ess_id(body)} {self.last_id(body)} {cq.clist(items)} {cq.cbool(fin)})'

    def build(self) -> tuple[str, list[str], dict]:
        """-> (init term, list of item terms, debug info)"""
        api = self.api
        evs = [e for e in api.events if e['name'] == self.name]
        if not evs:
            raise ValueError('object never existed')
        uid = evs[0]['object']['metadata']['uid']
        timeline: list[tuple[int, str, Any]] = []       # (order, kind, payload)
        # server events by external actors
        for e in evs:
            if e['object']['metadata']['uid'] != uid:
                self.unsupported = 'recreated object'
                break
            if not e['actor'].startswith('op:'):
                if e['type'] == 'ADDED':
                    continue
                timeline.append((e['order'], 'edit', e))
        # operator life: starts = its LIST of the kind; kills / exits
        for inc in self.run.incs:
            lists = [l for l in api.lists if l['actor'] == f'op:{inc.name}']
            for i, l in enumerate(lists):
                timeline.append((l['order'], 'start' if i == 0 else 'relist', inc))
            end_order = getattr(inc, 'end_order', None)
            if end_order is not None:
                timeline.append((end_order, 'kill', inc))
        for cyc in CYCLES:
            if cyc['uid'] == uid:
                timeline.append((cyc['start_order'], 'proc', cyc))
        # touches after an uninterrupted sleep = Fire; daemon exits
        for q in api.requests:
            if q.method == 'PATCH' and q.actor.startswith('op:') and q.status == 200 and q.uid == uid and self._is_touch(q):
                cyc = next((c for c in CYCLES if c['uid'] == uid and c['start_order'] < q.order and (c['end_order'] is None or q.order < c['end_order'])), None)
                if cyc is not None and q.t > self._last_activity(cyc, q) + 1e-9:
                    timeline.append((q.order, 'fire', q))
        for c in self.w.calls:
            if c['kind'] == 'daemon' and c['uid'] == uid and c.get('outcome') == 'exited' and c['ended'] is not None:
                timeline.append((c.get('end_order', 10 ** 9), 'daemon_exit', c))
        timeline.sort(key=lambda x: x[0])

        items: list[str] = []
        now = 0
        t_of = self._time_of
        first = evs[0]
        init = f'(init {self.ess_id(first["object"])} false)'
        up = False
        for order, kind, payload in timeline:
            t = ticks(t_of(kind, payload))
            if t > now:
                items.append(f'L (Tick {t - now})')
                now = t
            if kind == 'edit':
                items.append(f'L (Edit {self.ess_id(payload["object"])})')
            elif kind == 'start':
                if up:
                    items.append('L Kill')
                items.append(f'L (Start {cq.cbool(self.has_daemon)})')
                up = True
            elif kind == 'relist':
                items.append('L Relist')
            elif kind == 'kill':
                if up:
                    items.append('L Kill')
                    up = False
            elif kind == 'proc':
                cyc = payload
                calls = [c for c in self.w.calls if c['uid'] == uid and c['kind'] in ('create', 'update')
                         and cyc['start_order'] < c['order'] and (cyc['end_order'] is None or c['order'] < cyc['end_order'])]
                orc = cq.clist(f'({self.ids.index(c["handler"])}, {c_outcome(self.sc, c["handler"], c["outcome"])})' for c in calls)
                items.append(f'L (Proc {orc} {cq.cbool(bool(cyc["waited"]))} {self._lost(cyc, uid)})')
                if cyc['waited'] and cyc['ctime'] is not None:
                    now = max(now, ticks(cyc['ctime']))
                # state check at the end of the cycle's synchronous part: the server object after the last request
                body = self._server_after(cyc, uid)
                if body is not None:
                    items.append(f'Check {self.snap_term(body)}')
            elif kind == 'fire':
                items.append('L Fire')
                if payload.after is not None:
                    items.append(f'Check {self.snap_term(payload.after)}')
            elif kind == 'daemon_exit':
                items.append('L DaemonExit')
        return init, items, {'uid': uid, 'timeline': [(o, k) for o, k, _ in timeline]}

    def _lost(self, cyc: dict, uid: str) -> int:
        """Which of the cycle's writes never reached the server because the process died (0: none)."""
        reqs = [q for q in self.api.requests if q.method == 'PATCH' and q.actor == f'op:{cyc["inc"]}'
                and cyc['start_order'] < q.order and (cyc['end_order'] is None or q.order < cyc['end_order'])
                and q.path.rstrip('/').split('/')[-1] == self.name]
        for q in reqs:
            is_json = q.headers.get('Content-Type') == 'application/json-patch+json'
            if q.status is None and 'fault' not in q.note:          # never reached the server
                return 2 if is_json else 3 if self._is_touch(q) else 1
            if 'process died' in q.note:                            # applied, but nothing after it was sent
                return 3 if is_json else 0 if self._is_touch(q) else 2
        return 0

    def _is_touch(self, q: fakeapi.Request) -> bool:
        p = q.payload
        if not isinstance(p, dict):
            return False
        anns = (p.get('metadata') or {}).get('annotations') or {}
        st = p.get('status') or {}
        keys = [k for k in anns if k.endswith('/touch-dummy')]
        return bool(keys) and all(anns[k] is not None for k in keys) and len(anns) == len(keys) and not st \
            and set(p) <= {'metadata'}

    def _last_activity(self, cyc: dict, q: fakeapi.Request) -> float:
        ts = [cyc['t0']]
        ts += [x.t for x in self.api.requests if cyc['start_order'] < x.order < q.order and x.actor == q.actor]
        ts += [c['t'] for c in self.w.calls if cyc['start_order'] < c['order'] < q.order]
        if cyc['waited'] and cyc['ctime'] is not None:
            ts.append(cyc['ctime'])
        return max(ts)

    def _time_of(self, kind: str, payload: Any) -> float:
        if kind == 'edit':
            return payload['t']
        if kind in ('start', 'relist'):
            inc = payload
            l = [x for x in self.api.lists if x['actor'] == f'op:{inc.name}']
            return l[0]['t'] if kind == 'start' else l[-1]['t']
        if kind == 'kill':
            return payload.end_time
        if kind == 'proc':
            return payload['t0']
        if kind == 'fire':
            return payload.t
        if kind == 'daemon_exit':
            return payload['ended']
        raise ValueError(kind)

    def _server_after(self, cyc: dict, uid: str) -> dict | None:
        """The server object right after the synchronous part of the cycle (before any sleep)."""
        reqs = [q for q in self.api.requests if q.method == 'PATCH' and q.uid == uid and q.status == 200
                and cyc['start_order'] < q.order and (cyc['end_order'] is None or q.order < cyc['end_order'])
                and abs(q.t - (max(cyc['t0'], cyc['ctime']) if cyc['waited'] and cyc['ctime'] else cyc['t0'])) < 1e-9]
        if reqs:
            return reqs[-1].after
        # nothing written: the object as it was at the cycle start
        prior = [e for e in self.api.events if e['object']['metadata']['uid'] == uid and e['order'] < cyc['start_order']]
        return prior[-1]['object'] if prior else None


HEADER = '''From Coq Require Import List Arith Bool.
From KV Require Import Base.Harness Model.CycleWorld.
Import ListNotations.
'''


def lc_term(cfg: dict) -> str:
    return {None: 'Asap', 'asap': 'Asap', 'one_by_one': 'OneByOne', 'all_at_once': 'AllAtOnce'}[cfg.get('lifecycle')]


def case_for(run: cs.Run, name: str) -> tuple[fw.Case | None, str | None]:
    ex = Extract(run, name)
    try:
        init, items, dbg = ex.build()
    except ValueError as e:
        return None, str(e)
    if ex.unsupported:
        return None, ex.unsupported
    nc, nu = len(ex.hc), len(ex.hu)
    hc = cq.clist(str(i) for i in range(nc))
    hu = cq.clist(str(i) for i in range(nc, nc + nu))
    T = ticks(float(run.scenario['cfg'].get('consistency_timeout', 5)))
    its = cq.clist(items)
    call = f'replay {hc} {hu} {lc_term(run.scenario["cfg"])} {T} 0 {init} {its}'
    term = f'match fst ({call}) with None => true | Some _ => false end'
    case = fw.Case(term, {'scenario': run.scenario, 'object': name, 'items': items}, diag=f'(fst ({call}), w_srv (snd ({call})), w_mem (snd ({call})))')
    # how many states of this history satisfy the hypothesis of the liveness theorem (Proofs/CycleCalm.v: calmb, sound for calm)
    case.extra['calm_term'] = f'calm_hits {hc} {hu} {lc_term(run.scenario["cfg"])} {T} {init} {its}'
    return case, None


def run_scenario(sc: dict) -> cs.Run:
    install()
    del CYCLES[:]
    return cs.run_scenario(sc)
