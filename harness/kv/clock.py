"""Virtual wall clock for kopf under a virtual-time loop (DESIGN.md §5).

kopf reads the wall clock through the name `datetime` in a few modules.  Under a virtual-time
event loop the persisted `delayed` timestamps (wall clock) would never elapse.  `install()`
replaces that *name* in those modules by a shim whose `datetime.datetime.now()` is
EPOCH + offset + loop.time(); everything else is delegated to the real module.
No source of /repo is changed; the patch lives in the harness process only.
"""
from __future__ import annotations

import asyncio
import datetime as _real
import importlib
from typing import Any

EPOCH = _real.datetime(2030, 1, 1, 0, 0, 0, tzinfo=_real.timezone.utc)

MODULES = [
    'kopf._core.actions.progression',
    'kopf._core.actions.application',
    'kopf._core.engines.peering',
    'kopf._cogs.structs.credentials',
]

_state = {'offset': 0.0, 'fixed': None}


def set_offset(seconds: float) -> None:
    _state['offset'] = float(seconds)


def vnow() -> _real.datetime:
    if _state['fixed'] is not None:
        return _state['fixed']
    try:
        t = asyncio.get_running_loop().time()
    except RuntimeError:
        t = 0.0
    return EPOCH + _real.timedelta(seconds=_state['offset'] + t)


def at(seconds: float) -> _real.datetime:
    """The virtual wall-clock instant `seconds` after the epoch (offset excluded)."""
    return EPOCH + _real.timedelta(seconds=seconds)


def iso(seconds: float, tz: bool = True) -> str:
    d = at(seconds)
    return d.isoformat(timespec='microseconds') if tz else d.replace(tzinfo=None).isoformat(timespec='microseconds')


class _DateTimeMeta(type(_real.datetime)):  # type: ignore[misc]
    def __instancecheck__(cls, inst: Any) -> bool:
        return isinstance(inst, _real.datetime)


class _VDateTime(_real.datetime, metaclass=_DateTimeMeta):
    @classmethod
    def now(cls, tz: Any = None) -> _real.datetime:  # type: ignore[override]
        n = vnow()
        return n if tz is not None else n.replace(tzinfo=None)

    @classmethod
    def utcnow(cls) -> _real.datetime:  # type: ignore[override]
        return vnow().replace(tzinfo=None)


class _Shim:
    datetime = _VDateTime

    def __getattr__(self, name: str) -> Any:
        return getattr(_real, name)


_installed: dict[str, Any] = {}


def install() -> None:
    shim = _Shim()
    for name in MODULES:
        mod = importlib.import_module(name)
        if getattr(mod, 'datetime', None) is _real:
            _installed[name] = mod.datetime
            mod.datetime = shim  # type: ignore[attr-defined]
        elif not isinstance(getattr(mod, 'datetime', None), _Shim):
            raise RuntimeError(f'observation point missing: {name}.datetime is not the datetime module')


def uninstall() -> None:
    for name, orig in list(_installed.items()):
        importlib.import_module(name).datetime = orig  # type: ignore[attr-defined]
        del _installed[name]
