"""C13 helpers: stubs around kopf's peering engine and the N-operator network simulation.

The network runs, for every simulated operator, the REAL `orchestration.spawn_missing_peerings`
(hence the real `peering.keepalive`, `queueing.watcher` -> `queueing.worker` ->
`peering.process_peering_event`, the real `Toggle`/`ToggleSet`) plus a consumer of the real
`watching.streaming_block`.  Only the API is replaced: `patching.patch_obj` as seen from peering.py and
`watching.infinite_watch` as seen from queueing.py are stubs that apply RFC 7386 patches to ONE shared
peering object and deliver its MODIFIED events to every listed operator with per-operator delays.
Nothing of /repo is modified; the stubs replace module attributes in the harness process only.
"""
from __future__ import annotations

import asyncio
import contextlib
import contextvars
import copy
import datetime as dt
import json
import pathlib
import random as _random
from typing import Any, Iterator

from kv import canon, clock, coqio as cq, framework as fw, vloop

MS = 1000
CORPUS = fw.ROOT / 'corpus' / 'C13'


def ms(t: float) -> int:
    v = round(t * MS)
    assert abs(v - t * MS) < 1e-6, f'sub-millisecond instant {t}'
    return v


def _resource() -> Any:
    from kopf._cogs.structs import references
    return references.Resource(group='kopf.dev', version='v1', plural='clusterkopfpeerings', kind='ClusterKopfPeering',
                               singular='clusterkopfpeering', namespaced=False, subresources=frozenset(),
                               verbs=frozenset({'list', 'watch', 'patch'}))


class _Lazy:
    def __init__(self) -> None:
        self._r: Any = None

    def get(self) -> Any:
        if self._r is None:
            self._r = _resource()
        return self._r


_LAZY = _Lazy()


def __getattr__(name: str) -> Any:   # RESOURCE is built on first use (kopf is imported late)
    if name == 'RESOURCE':
        return _LAZY.get()
    raise AttributeError(name)


def make_settings(cfg: dict) -> Any:
    from kopf._cogs.configs import configuration
    s = configuration.OperatorSettings()
    s.peering.name = cfg['name']
    s.peering.priority = cfg['prio']
    s.peering.lifetime = cfg['life']
    s.peering.mandatory = bool(cfg.get('mandatory', False))
    s.peering.stealth = True
    s.peering.clusterwide = True
    return s


def rec_of(v: Any) -> Any:
    """A record written by touch(): (priority, lifetime, lastseen ms) or None; anything else is kept for the report."""
    if v is None:
        return None
    try:
        import iso8601
        if set(v) != {'priority', 'lifetime', 'lastseen'}:
            return ['odd', v]
        us = (iso8601.parse_date(v['lastseen']) - clock.EPOCH) // dt.timedelta(microseconds=1)
        if us % 1000 or not isinstance(v['priority'], int) or not isinstance(v['lifetime'], int):
            return ['odd', v]
        return [v['priority'], v['lifetime'], us // 1000]
    except Exception:
        return ['odd', v]


CALLSITE: contextvars.ContextVar[str] = contextvars.ContextVar('kv_c13_callsite', default='?')


@contextlib.contextmanager
def stubbed_patch_obj(fn: Any, withdrawal_site: bool = False) -> Iterator[None]:
    """Replace the name `patching` inside peering.py by a shim whose patch_obj is `fn`."""
    from kopf._core.engines import peering
    if not hasattr(peering, 'patching') or not hasattr(peering.patching, 'patch_obj'):
        raise RuntimeError('observation point missing: peering.patching.patch_obj')
    orig = peering.patching

    class Shim:
        patch_obj = staticmethod(fn)

        def __getattr__(self, name: str) -> Any:
            return getattr(orig, name)
    if not all(asyncio.iscoroutinefunction(getattr(peering, n, None)) for n in ('touch', 'clean')):
        raise RuntimeError('observation point missing: peering.touch / peering.clean')
    orig_touch, orig_clean = peering.touch, peering.clean

    async def touch(**kw: Any) -> None:
        tok = CALLSITE.set('touch-w' if withdrawal_site and kw.get('lifetime') == 0 else 'touch')
        try:
            await orig_touch(**kw)
        finally:
            CALLSITE.reset(tok)

    async def clean(**kw: Any) -> None:
        tok = CALLSITE.set('clean')
        try:
            await orig_clean(**kw)
        finally:
            CALLSITE.reset(tok)
    peering.patching = Shim()  # type: ignore[attr-defined]
    peering.touch, peering.clean = touch, clean  # type: ignore[assignment]
    try:
        yield
    finally:
        peering.patching = orig  # type: ignore[attr-defined]
        peering.touch, peering.clean = orig_touch, orig_clean  # type: ignore[assignment]


@contextlib.contextmanager
def patched_randint(fn: Any) -> Iterator[None]:
    from kopf._core.engines import peering
    if not hasattr(peering, 'random') or not hasattr(peering.random, 'randint'):
        raise RuntimeError('observation point missing: peering.random.randint')
    orig = peering.random

    class Shim:
        randint = staticmethod(fn)

        def __getattr__(self, name: str) -> Any:
            return getattr(orig, name)
    peering.random = Shim()  # type: ignore[attr-defined]
    try:
        yield
    finally:
        peering.random = orig  # type: ignore[attr-defined]


def load_corpus(kind: str) -> list[dict]:
    out = []
    if CORPUS.is_dir():
        for p in sorted(CORPUS.glob(f'{kind}_*.json')):
            out.append(json.loads(p.read_text()))
    return out



# ------------------------------------------------------------------------------------------
# the network simulation
# ------------------------------------------------------------------------------------------

IN_EVENT: contextvars.ContextVar[Any] = contextvars.ContextVar('kv_c13_in_event', default=None)


class Op:
    def __init__(self, net: 'Net', spec: dict) -> None:
        self.net, self.spec, self.id = net, spec, spec['id']
        self.state = 'down'           # down | up | exiting
        self.settings: Any = None
        self.paused: Any = None       # the ToggleSet(any) the orchestrator works on
        self.task: asyncio.Task | None = None
        self.prober: asyncio.Task | None = None
        self.feed: asyncio.Queue = asyncio.Queue()
        self.listed = False
        self.last_delivery = 0.0
        self.stream_open = False
        self.stream_log: list[tuple[int, str]] = []
        self.epoch = 0                # incarnation counter (a restarted identity is a new process)
        self.pending = 0              # deliveries scheduled but not yet processed
        self.started_at = 0.0
        self.in_flight: list[dict] = []
        self.exited = False           # the lifetime=0 touch of this incarnation has been written
        self.announce_latency = 0.0   # the answer to the FIRST keep-alive PATCH is this late
        self.announced = False


class Net:
    """One shared peering object + the operators. All label emission goes through `label()`."""

    def __init__(self, loop: vloop.VLoop, scenario: dict) -> None:
        self.loop, self.scenario = loop, scenario
        self.body: dict[str, Any] = {'apiVersion': 'kopf.dev/v1', 'kind': 'ClusterKopfPeering',
                                     'metadata': {'name': 'default', 'uid': 'uid-peering', 'resourceVersion': '0'}, 'status': {}}
        self.ver = 0
        self.ops: dict[str, Op] = {}
        self.by_settings: dict[int, tuple[Op, int]] = {}    # (unused: callers are identified by settings._kv_c13)
        self.closed = False
        self.labels: list[str] = []
        self.trace: list[list] = []       # JSON-able copy of the labels for replay files
        self.last_t = ms(loop.time())
        self.t0 = self.last_t
        self.odd: list[Any] = []
        self.writes: list[tuple[int, str, dict, str]] = []
        self.cleans: list[dict] = []
        self.after_exit: list[dict] = []
        self.never_withdrawn: list[str] = []
        self.bad_records: list[dict] = []
        self.opened_while_paused: list[dict] = []
        self.cleans_checked = 0
        self.enc_cases: list[tuple] = []
        self.after_exit_checked = 0

    # ---- labels
    def label(self, term: str, js: list) -> None:
        now = ms(self.loop.time())
        if now > self.last_t:
            self.labels.append(f'LTick {cq.cZ(now)}')
            self.trace.append(['tick', now])
            self.last_t = now
        self.labels.append(term)
        self.trace.append(js)

    # ---- the shared object
    def write(self, actor: str, patch: dict) -> None:
        self.body = canon.merge7386(self.body, patch)
        self.body.setdefault('status', {})
        self.ver += 1
        self.body['metadata']['resourceVersion'] = str(self.ver)
        self.writes.append((ms(self.loop.time()), actor, patch, CALLSITE.get()))
        snap = copy.deepcopy(self.body)
        for op in self.ops.values():
            if op.state == 'up' and op.listed:
                when = max(op.last_delivery, self.loop.time() + op.spec['delay'])
                op.last_delivery = when
                op.pending += 1
                op.in_flight.append(snap)
                self.loop.call_at(when, self._deliver, op, op.epoch)

    def _deliver(self, op: Op, epoch: int) -> None:
        # timers with equal deadlines fire in heap order, not FIFO: always hand over the OLDEST in-flight event
        if op.epoch == epoch and op.state == 'up':
            op.feed.put_nowait(op.in_flight.pop(0))

    def astatus(self) -> list[tuple[str, tuple[int, int, int | None]]]:
        return astatus_of(self.body.get('status', {}))

    def check(self) -> None:
        st = self.astatus()
        self.label(f'LCheck {c_astatus(st)}', ['check', st])
        self.enc_case()

    def enc_case(self) -> None:
        """The real .status object next to its abstract form: ties PeerNet.enc_status to the object's JSON."""
        status = self.body.get('status', {})
        if len(self.enc_cases) >= 4 or not status:
            return
        if not all({'priority', 'lifetime'} <= set(v) <= {'priority', 'lifetime', 'lastseen'} for v in status.values()):
            return
        st = self.astatus()
        tab = [(r[2], status[k]['lastseen']) for k, r in st if r[2] is not None]
        if len({t for t, _ in tab}) != len(set(tab)):
            return        # one instant rendered in two formats (foreign writer vs kopf): [fmt] is a function of the instant
        case = (st, tab, copy.deepcopy(status))
        if case not in self.enc_cases:
            self.enc_cases.append(case)


def astatus_of(status: dict) -> list[tuple[str, tuple[int, int, int | None]]]:
    import iso8601
    out = []
    for k, v in status.items():
        seen = v.get('lastseen')
        seen_ms = None if seen is None else (iso8601.parse_date(seen) - clock.EPOCH) // dt.timedelta(milliseconds=1)
        out.append((k, (v.get('priority', 0), v.get('lifetime', 60), seen_ms)))
    return out


def is_live(r: tuple[int, int, int | None], now: int) -> bool:
    return (now if r[2] is None else r[2]) + r[1] * 1000 > now


def c_arec(r: Any) -> str:
    return f'(mkRec {cq.cZ(r[0])} {cq.cZ(r[1])} {cq.copt(cq.cZ(r[2]) if r[2] is not None else None)})'


def c_astatus(st: list) -> str:
    return cq.clist(cq.cpair(cq.cstr(k), c_arec(r)) for k, r in st)


@contextlib.contextmanager
def installed(net: Net) -> Iterator[None]:
    """Install the API stubs and observation wrappers for one network run."""
    from kopf._cogs.clients import watching
    from kopf._core.engines import peering
    from kopf._core.reactor import queueing
    for mod, attr in ((queueing, 'watching'), (peering, 'aiotime')):
        if not hasattr(mod, attr):
            raise RuntimeError(f'observation point missing: {mod.__name__}.{attr}')
    if not hasattr(queueing.watching, 'infinite_watch') or not hasattr(peering.aiotime, 'sleep'):
        raise RuntimeError('observation point missing: watching.infinite_watch / aiotime.sleep')
    if not asyncio.iscoroutinefunction(getattr(peering, 'process_peering_event', None)):
        raise RuntimeError('observation point missing: peering.process_peering_event')

    def who(settings: Any) -> tuple[Any, int] | None:
        # a coroutine left over from an EARLIER network (finalised by the garbage collector at an arbitrary moment, its
        # `finally:` blocks then run here) must not touch this one
        tag = getattr(settings, '_kv_c13', None)
        if tag is None or tag[0] is not net or net.closed:
            return None
        return tag[1], tag[2]

    async def patch_obj(*, settings: Any, resource: Any, namespace: Any, name: str, patch: Any, logger: Any,
                        silent: bool = False) -> tuple[Any, Any]:
        w = who(settings)
        if w is None:
            return None, None
        op, epoch = w
        p = dict(patch)
        st = p.get('status', {})
        site = CALLSITE.get()
        if op.epoch != epoch or op.state == 'down':
            return None, None            # a killed / finished process: nothing reaches the server
        if set(p) != {'status'} or name != 'default':
            net.odd.append(['odd-patch', op.id, p])
            return {}, None
        ev = IN_EVENT.get()
        if site == 'clean':
            if ev is None or any(v is not None for v in st.values()):
                net.odd.append(['odd-clean', op.id, p])
            else:
                ev['cleaned'] += list(st)
                net.cleans.append({'at_ms': ms(net.loop.time()), 'by': op.id, 'ids': list(st), 'seen_version': ev['ver'],
                                   'current_version': net.ver, 'seen_status': ev['status'],
                                   'current_status': copy.deepcopy(net.body.get('status', {}))})
            net.write(op.id, copy.deepcopy(p))
        elif site == 'touch' and list(st) == [op.id]:
            rec = rec_of(st[op.id])
            if isinstance(rec, list) and rec and rec[0] == 'odd':
                net.odd.append(['odd-touch', op.id, p])
            elif rec is not None and (rec[0] != op.spec['prio'] or rec[1] != op.spec['life']):
                net.bad_records.append({'at_ms': ms(net.loop.time()), 'operator': op.id, 'written': rec,
                                        'configured': [op.spec['prio'], op.spec['life']]})
            if op.exited:
                net.after_exit.append({'at_ms': ms(net.loop.time()), 'operator': op.id, 'patch': p,
                                       'from': 'process_peering_event' if ev is not None else 'keepalive'})
                if ev is not None:
                    net.label(f'LWake {cq.cstr(op.id)}', ['wake', op.id])
                else:
                    net.odd.append(['keepalive-touch-after-exit', op.id, p])
            elif ev is not None:
                net.label(f'LWake {cq.cstr(op.id)}', ['wake', op.id])
            elif op.state == 'exiting' and rec is None:
                op.exited = True
                net.label(f'LExit {cq.cstr(op.id)}', ['exit', op.id])
            elif op.state == 'exiting':
                net.odd.append(['touch-while-exiting', op.id, p])
            else:
                net.label(f"LKeepalive {cq.cstr(op.id)} {cq.cZ(net.scenario['jitter'])}", ['keepalive', op.id, net.scenario['jitter']])
                if op.announce_latency and not op.announced:
                    op.announced = True
                    net.write(op.id, copy.deepcopy(p))
                    await asyncio.sleep(op.announce_latency)      # applied, not yet answered
                    return {}, None
                op.announced = True
            net.write(op.id, copy.deepcopy(p))
        else:
            net.odd.append(['odd-patch', op.id, site, p])
        return {}, None

    async def infinite_watch(*, settings: Any, resource: Any, namespace: Any, operator_paused: Any = None,
                             **_: Any) -> Any:
        w = who(settings)
        if w is None:
            return
        op, epoch = w
        await asyncio.sleep(op.spec['list_delay'])
        op.listed = True
        net.label(f'LList {cq.cstr(op.id)}', ['list', op.id])
        op.pending += 1
        yield {'type': None, 'object': copy.deepcopy(net.body)}
        yield watching.Bookmark.LISTED
        while True:
            snap = await op.feed.get()
            yield {'type': 'MODIFIED', 'object': snap}

    orig_process = peering.process_peering_event
    orig_watching, orig_aiotime = queueing.watching, peering.aiotime

    async def process_peering_event(**kw: Any) -> None:
        w = who(kw['settings'])
        if w is None:
            return
        op, epoch = w
        ver = int(kw['raw_event']['object']['metadata']['resourceVersion'])
        tok = IN_EVENT.set({'op': op, 'ver': ver, 'cleaned': [], 'toggle': kw.get('conflicts_found'), 'labelled': False,
                            'status': copy.deepcopy(kw['raw_event']['object'].get('status', {}))})
        try:
            await orig_process(**kw)
        finally:
            if not IN_EVENT.get()['labelled'] and op.epoch == epoch:
                op.pending -= 1
            IN_EVENT.reset(tok)

    async def sleep(delays: Any, wakeup: Any = None) -> Any:
        ev = IN_EVENT.get()
        if ev is not None and not ev['labelled']:
            ev['labelled'] = True
            op = ev['op']
            op.pending -= 1
            tg = ev['toggle'].is_on()
            net.label(f"LObserve {cq.cstr(op.id)} {cq.cnat(ev['ver'])} {cq.clist(cq.cstr(i) for i in ev['cleaned'])} {cq.cbool(tg)}",
                      ['observe', op.id, ev['ver'], list(ev['cleaned']), tg])
        return await orig_aiotime.sleep(delays, wakeup=wakeup)

    _iw, _sl = infinite_watch, sleep

    class WatchingShim:
        infinite_watch = staticmethod(_iw)

        def __getattr__(self, name: str) -> Any:
            return getattr(orig_watching, name)

    class AiotimeShim:
        sleep = staticmethod(_sl)

        def __getattr__(self, name: str) -> Any:
            return getattr(orig_aiotime, name)

    def randint(a: int, b: int) -> int:
        return net.scenario['jitter']

    with stubbed_patch_obj(patch_obj), patched_randint(randint):
        queueing.watching = WatchingShim()  # type: ignore[attr-defined]
        peering.aiotime = AiotimeShim()  # type: ignore[attr-defined]
        peering.process_peering_event = process_peering_event  # type: ignore[assignment]
        try:
            yield
        finally:
            queueing.watching = orig_watching  # type: ignore[attr-defined]
            peering.aiotime = orig_aiotime  # type: ignore[attr-defined]
            peering.process_peering_event = orig_process  # type: ignore[assignment]


async def _operator_main(net: Net, op: Op) -> None:
    """What kopf.operator() does for peering: the real orchestrator over insights that contain only the
    peering resource (no watched resources), with the operator-wide pause ToggleSet."""
    from kopf._cogs.aiokits import aiotoggles
    from kopf._cogs.structs import references
    from kopf._core.engines import peering
    from kopf._core.reactor import orchestration
    insights = references.Insights()
    op.paused = aiotoggles.ToggleSet(any)

    async def processor(**_: Any) -> None:
        return None

    orch = asyncio.create_task(orchestration.orchestrator(
        processor=processor, settings=op.settings, identity=peering.Identity(op.id), insights=insights,
        operator_paused=op.paused), name=f'orchestrator of {op.id}')
    await asyncio.sleep(0)
    await insights.backbone.fill(resources=[_LAZY.get()])
    async with insights.revised:
        insights.namespaces.add(None)
        insights.revised.notify_all()
    try:
        await orch
    except asyncio.CancelledError:
        orch.cancel()
        with contextlib.suppress(asyncio.CancelledError):
            await orch
        raise


async def _stream_prober(net: Net, op: Op) -> None:
    """A consumer of the real streaming_block: what every resource watch-stream does around its API calls."""
    from kopf._cogs.clients import watching
    while op.paused is None:
        await asyncio.sleep(0)
    try:
        while True:
            async with watching.streaming_block(resource=_LAZY.get(), namespace=None, operator_paused=op.paused) as waiter:
                op.stream_open = True
                op.stream_log.append((ms(net.loop.time()), 'open'))
                if op.paused.is_on():
                    # the block let us through although the operator is paused: report, then wait on the
                    # harness side so that the simulation does not spin
                    net.opened_while_paused.append({'at_ms': ms(net.loop.time()), 'operator': op.id})
                    await op.paused.wait_for(False)
                    continue
                await asyncio.wait([waiter])
                op.stream_open = False
                op.stream_log.append((ms(net.loop.time()), 'closed'))
    finally:
        op.stream_open = False


def start_op(net: Net, spec: dict, announce_latency: float = 0.0) -> Op:
    op = net.ops.get(spec['id'])
    if op is None:
        op = net.ops[spec['id']] = Op(net, spec)
    if op.state == 'exiting':        # the previous process of this identity is still draining: it ends now
        _teardown(net, op)           # (its done-callback emits LGone / LKill)
    op.spec = spec
    op.epoch += 1
    op.state, op.listed, op.feed, op.pending = 'up', False, asyncio.Queue(), 0
    op.in_flight = []
    op.exited = False
    op.announced = False
    op.announce_latency = announce_latency
    op.last_delivery = 0.0
    op.started_at = net.loop.time()
    op.settings = make_settings({'name': 'default', 'prio': spec['prio'], 'life': spec['life'], 'mandatory': spec.get('mandatory', False)})
    op.settings._kv_c13 = (net, op, op.epoch)      # not id(settings): addresses are reused after garbage collection
    net.label(f"LStart {cq.cstr(op.id)} {cq.cZ(spec['prio'])} {cq.cZ(spec['life'])} {cq.cbool(spec.get('mandatory', False))}",
              ['start', op.id, spec['prio'], spec['life'], spec.get('mandatory', False)])
    cx = contextvars.copy_context()
    cx.run(OWNER.set, op.id)
    op.task = net.loop.create_task(_operator_main(net, op), name=f'operator {op.id}', context=cx)
    op.prober = net.loop.create_task(_stream_prober(net, op), name=f'prober {op.id}', context=cx)
    return op


def exit_op(net: Net, op: Op) -> None:
    """Graceful: the root task is cancelled, the orchestrator stops its ensemble (keepalive's finally runs)."""
    op.state = 'exiting'
    assert op.task is not None and op.prober is not None
    epoch = op.epoch

    def gone(_: Any) -> None:
        if op.epoch == epoch:
            op.state = 'down'
            if not op.exited:
                net.never_withdrawn.append(op.id)
                net.label(f'LKill {cq.cstr(op.id)}', ['gone-without-exit', op.id])
            else:
                net.label(f'LGone {cq.cstr(op.id)}', ['gone', op.id])
    op.task.add_done_callback(gone)
    op.task.cancel()
    op.prober.cancel()


def kill_op(net: Net, op: Op) -> None:
    """SIGKILL: the stub refuses everything from this incarnation; then the tasks are torn down."""
    op.state = 'down'
    op.epoch += 1
    net.label(f'LKill {cq.cstr(op.id)}', ['kill', op.id])
    _teardown(net, op)


def _teardown(net: Net, op: Op) -> None:
    for _ in range(30):
        pending = [t for t in asyncio.all_tasks(net.loop) if not t.done() and _belongs(t, op)]
        if not pending:
            break
        for t in pending:
            t.cancel()
        net.loop.settle()


def _belongs(task: asyncio.Task, op: Op) -> bool:
    return task.get_context().get(OWNER) == (op.id)


OWNER: contextvars.ContextVar[str | None] = contextvars.ContextVar('kv_c13_owner', default=None)


# ------------------------------------------------------------------------------------------
# scenarios, monitors, acceptor
# ------------------------------------------------------------------------------------------

def gen_scenario(r: _random.Random, idx: int) -> dict:
    nops = r.choice([2, 2, 3, 3, 3])
    ids = ['op-a', 'op-b', 'op-c'][:nops]
    prios = r.sample([0, 10, 20, 100, -5], nops)
    if r.random() < 0.2:
        prios[1] = prios[0]                      # the equal-priority conflict
    slow = r.random() < 0.15                     # delivery slower than the keep-alive margin: T-tie only
    jitter = r.choice([5, 7, 10])
    lives = [r.choice([3, 7, 12, 20, 60]) for _ in ids]
    if r.random() < 0.12:        # a keep-alive lifetime of a day and more (e.g. a long `kopf freeze`-like peer)
        lives[r.randrange(nops)] = r.choice([86400, 90000, 172800, 172860])
    # keep-alive margin of the tightest operator: a view older than this may show a renewed record as expired
    margin = min(l - max(1, min(l, max(1, l - jitter))) for l in lives)
    specs = {}
    for i, p, life in zip(ids, prios, lives):
        delay = r.choice([d for d in (0.125, 0.375, 0.625, 1.125, 2.125, 4.125) if d + 0.5 < margin])
        if slow:
            delay = r.choice([3.125, 8.125, 15.125])
        specs[i] = {'id': i, 'prio': p, 'life': life, 'delay': delay, 'list_delay': r.choice([0.0, 0.125, 0.375]),
                    'mandatory': r.random() < 0.15}
    actions: list[dict] = []
    up: set[str] = set()
    t = 0
    for _ in range(r.choice([3, 5, 8, 12])):
        t += r.choice([0, 1, 1, 2, 5, 11, 30])
        k = r.random()
        down = [i for i in ids if i not in up]
        if down and (k < 0.45 or not up):
            i = r.choice(down)
            if r.random() < 0.15:
                actions.append({'at': t, 'do': 'start_exit', 'op': i})
                t += 1
                continue
            up.add(i)
            actions.append({'at': t, 'do': 'start', 'op': i})
        elif up and k < 0.62:
            i = r.choice(sorted(up))
            up.discard(i)
            actions.append({'at': t, 'do': 'exit', 'op': i})
        elif up and k < 0.8:
            i = r.choice(sorted(up))
            up.discard(i)
            actions.append({'at': t, 'do': 'kill', 'op': i})
        elif k < 0.93:
            rec: dict[str, Any] = {'priority': r.choice(prios + [max(prios) + 1, min(prios) - 1])}
            if r.random() < 0.8:
                rec['lifetime'] = r.choice([5, 30, 0])
            if r.random() < 0.85:
                rec['lastseen'] = r.choice([0, 0, -3, -100])     # seconds relative to the instant of the write
            actions.append({'at': t, 'do': 'foreign', 'id': r.choice(['frozen', 'dev@laptop']), 'rec': rec})
        else:
            actions.append({'at': t, 'do': 'foreign', 'id': r.choice(['frozen', 'dev@laptop']), 'rec': None})
    return {'idx': idx, 'ops': specs, 'actions': actions, 'jitter': jitter, 'slow': slow,
            'tail': 2 * max(min(s['life'], 60) for s in specs.values()) + 45}


def spec_blockers(net: Net, op: Op, now: int) -> dict[str, int]:
    """The property text: live records of others with priority >= own, read from the shared object."""
    out = {}
    for ident, (prio, life, seen) in net.astatus():
        deadline = (now if seen is None else seen) + life * 1000
        if ident != op.id and deadline > now and prio >= op.spec['prio']:
            out[ident] = deadline
    return out


def quiescent(net: Net) -> bool:
    return all(op.listed and op.pending == 0 and op.feed.empty() for op in net.ops.values() if op.state == 'up')


def monitor_instant(ctx: fw.Ctx, net: Net, where: str) -> None:
    """Evaluated at instants where every delivered event has been processed."""
    now = ms(net.loop.time())
    ups = [op for op in net.ops.values() if op.state == 'up']
    sc = net.scenario
    recs = dict(net.astatus())
    if not quiescent(net):
        return
    ctx.count('net_instants', 'quiescent')
    for op in ups:
        paused = op.paused.is_on() if op.paused is not None else None
        blockers = spec_blockers(net, op, now)
        # an armed wake-up that is due at this very instant has not been processed yet
        if paused != bool(blockers):
            ctx.fail('an operator is paused although no live peer of higher/equal priority is recorded, or running '
                     'although one is', {'scenario': sc, 'at_ms': now, 'where': where, 'operator': op.id},
                     observed={'paused': paused, 'status': net.body.get('status')}, expected={'blockers': blockers},
                     sig='net-toggle-wrong')
        if op.stream_open != (not paused):
            ctx.fail('watch-streams are not closed while paused / not reopened when resumed',
                     {'scenario': sc, 'at_ms': now, 'where': where, 'operator': op.id},
                     observed={'paused': paused, 'stream_open': op.stream_open}, sig='net-stream-wrong')
    # exactly the top one is active: running operators with distinct priorities that see each other
    # (everybody's own record is live, no live record of anybody else)
    live = {k for k, (p, l, s) in recs.items() if (now if s is None else s) + l * 1000 > now}
    if len(ups) >= 2 and live == {op.id for op in ups} and len({op.spec['prio'] for op in ups}) == len(ups):
        active = sorted(op.id for op in ups if op.paused.is_off())
        top = max(ups, key=lambda o: o.spec['prio']).id
        ctx.count('net_instants', 'top-active-evaluated')
        ctx.nontriv(['net', sc['idx'], sorted((o.id, o.spec['prio']) for o in ups)])
        if active != [top]:
            ctx.fail('not exactly the highest-priority operator is active', {'scenario': sc, 'at_ms': now, 'where': where},
                     observed={'active': active}, expected={'active': [top]}, sig='net-top-wrong')
    if len(ups) >= 2 and live == {op.id for op in ups} and len({op.spec['prio'] for op in ups}) < len(ups):
        top_p = max(op.spec['prio'] for op in ups)
        tops = [op for op in ups if op.spec['prio'] == top_p]
        if len(tops) >= 2:
            ctx.count('net_instants', 'equal-priority-evaluated')
            if any(op.paused.is_off() for op in ups):
                ctx.fail('an operator is active although a live peer of equal/higher priority exists (conflict)',
                         {'scenario': sc, 'at_ms': now, 'where': where}, observed=sorted(op.id for op in ups if op.paused.is_off()),
                         sig='net-conflict-active')


def monitor_records(ctx: fw.Ctx, net: Net) -> None:
    """At every instant: a running operator's record is there and not expired (after its first keep-alive);
    records removed by clean() were really expired; nothing is written after the graceful-exit removal."""
    now = ms(net.loop.time())
    sc = net.scenario
    recs = dict(net.astatus())
    while net.cleans_checked < len(net.cleans):
        c = net.cleans[net.cleans_checked]
        net.cleans_checked += 1
        cur = dict(astatus_of(c['current_status']))
        seen = dict(astatus_of(c['seen_status']))
        for ident in c['ids']:
            ctx.count('net_clean', 'records-removed')
            if ident in cur and is_live(cur[ident], c['at_ms']):
                ctx.count('net_clean', 'of-which-LIVE-in-the-object')
                stale = c['seen_version'] < c['current_version'] and ident in seen and not is_live(seen[ident], c['at_ms']) \
                    and seen[ident] != cur[ident]
                ctx.fail('a record that is not expired was removed from the peering object by another operator',
                         {'scenario': sc, 'clean': c, 'record': ident}, observed={'record_now': cur[ident], 'record_seen': seen.get(ident)},
                         sig='net-live-record-cleaned' + ('-stale-view' if stale else ''))
    while net.after_exit_checked < len(net.after_exit):
        a = net.after_exit[net.after_exit_checked]
        net.after_exit_checked += 1
        ctx.fail('an operator wrote to the peering object after it had withdrawn its record on graceful exit',
                 {'scenario': sc, 'write': a}, sig='net-write-after-exit')
    for op in net.ops.values():
        if op.state != 'up' or op.spec['life'] < 2 or net.loop.time() == op.started_at:
            continue
        r = recs.get(op.id)
        if r is None or not is_live(r, now):
            last = [w for w in net.writes if op.id in w[2].get('status', {})]
            if last and last[-1][3] == 'clean':
                continue     # removed by a clean(): judged by the clean monitor above
            ctx.fail("a running operator's record is missing or expired", {'scenario': sc, 'at_ms': now, 'operator': op.id},
                     observed={'record': r}, sig='net-record-expired')


def run_scenario(ctx: fw.Ctx, sc: dict) -> Net:
    import gc
    gc.collect()          # leftovers of earlier scenarios are finalised between scenarios, not inside one
    try:
        return _run_scenario(ctx, sc)
    finally:
        gc.collect()


class _SeqTimerHandle(asyncio.TimerHandle):
    """Timers with equal deadlines fire in the order they were scheduled.  asyncio orders its heap by the deadline
    only, so ties fire in an order that depends on the heap's shape, i.e. on every unrelated timer pushed before —
    and kopf cancels sets of tasks (aiotasks.stop over Ensemble.get_tasks(): a set, iterated by address), which
    varies the push order of unrelated timers from process to process."""
    __slots__ = ('_seq',)

    def __lt__(self, other: Any) -> bool:
        if isinstance(other, _SeqTimerHandle):
            return (self._when, self._seq) < (other._when, other._seq)
        return super().__lt__(other)

    def __le__(self, other: Any) -> bool:
        if isinstance(other, _SeqTimerHandle):
            return (self._when, self._seq) <= (other._when, other._seq)
        return super().__le__(other)

    def __gt__(self, other: Any) -> bool:
        if isinstance(other, _SeqTimerHandle):
            return (self._when, self._seq) > (other._when, other._seq)
        return super().__gt__(other)

    def __ge__(self, other: Any) -> bool:
        if isinstance(other, _SeqTimerHandle):
            return (self._when, self._seq) >= (other._when, other._seq)
        return super().__ge__(other)


class SeqLoop(vloop.VLoop):
    """VLoop whose same-instant timers are FIFO (see _SeqTimerHandle)."""

    def __init__(self, start: float = 0.0) -> None:
        super().__init__(start=start)
        self._kv_seq = 0

    def call_at(self, when: float, callback: Any, *args: Any, context: Any = None) -> asyncio.TimerHandle:  # type: ignore[override]
        import heapq
        self._check_closed()  # type: ignore[attr-defined]
        timer = _SeqTimerHandle(when, callback, args, self, context)
        self._kv_seq += 1
        timer._seq = self._kv_seq
        heapq.heappush(self._scheduled, timer)  # type: ignore[attr-defined]
        timer._scheduled = True
        return timer


def _run_scenario(ctx: fw.Ctx, sc: dict) -> Net:
    loop = SeqLoop(start=1000.0)
    asyncio.set_event_loop(loop)
    net = Net(loop, sc)
    t0 = loop.time()
    with installed(net), vloop.running(loop):
        def run_to(t: float) -> None:
            while True:
                loop.settle()
                monitor_records(ctx, net)
                nt = loop.next_timer()
                if nt is None or nt > t:
                    break
                loop.advance_to(nt)
            loop.advance_to(t)
            loop.settle()

        for act in sc['actions']:
            run_to(t0 + act['at'])
            if act['do'] == 'start':
                start_op(net, sc['ops'][act['op']])
            elif act['do'] == 'start_exit':
                # stopped gracefully while its very first announcement is in flight (applied, unanswered)
                op = start_op(net, sc['ops'][act['op']], announce_latency=0.5)
                run_to(t0 + act['at'] + 0.25)
                exit_op(net, op)
                loop.settle()
            elif act['do'] == 'exit':
                op = net.ops[act['op']]
                exit_op(net, op)
                loop.settle()
            elif act['do'] == 'kill':
                kill_op(net, net.ops[act['op']])
            else:
                rec = act['rec']
                if rec is not None:
                    rec = dict(rec)
                    if 'lastseen' in rec:
                        rec['lastseen'] = clock.iso(loop.time() + rec['lastseen'])
                if any(o.state != 'down' and o.id == act['id'] for o in net.ops.values()):
                    continue
                ar = None
                if rec is not None:      # the server MERGES the patch into an existing record
                    merged = canon.merge7386(net.body.get('status', {}).get(act['id'], {}), rec)
                    ar = dict(astatus_of({act['id']: merged}))[act['id']]
                net.label(f"LForeign {cq.cstr(act['id'])} {cq.copt(c_arec(ar) if ar is not None else None)}",
                          ['foreign', act['id'], ar])
                net.write('foreign', {'status': {act['id']: rec}})
            loop.settle()
            ctx.count('net_actions', act['do'])
        # checkpoints: shortly after each action burst and along the tail
        end = t0 + (sc['actions'][-1]['at'] if sc['actions'] else 0) + sc['tail']
        t = loop.time()
        while t < end:
            t = min(end, t + max(2.437, round(sc['tail'] / 150) + 0.437))   # never a label instant (labels are at multiples of 125 ms): only monitors run here
            run_to(t)
            monitor_instant(ctx, net, 'tail')
            if quiescent(net):
                net.enc_case()
        net.check()
        monitor_final(ctx, net)
        for op in list(net.ops.values()):
            if op.state == 'up':
                kill_op(net, op)
        net.closed = True                 # nothing of this network is observed or judged from here on
        for op in list(net.ops.values()):
            _teardown(net, op)            # exiting processes still draining, too
        for _ in range(50):
            left = [t for t in asyncio.all_tasks(loop) if not t.done()]
            if not left:
                break
            for t in left:
                t.cancel()
            loop.settle()
            nt = loop.next_timer()
            if nt is not None:
                loop.advance_to(nt)
        import gc
        gc.collect()                      # finalisers of abandoned coroutines run here, deterministically
        loop.settle()
    vloop.close_loop(loop)
    gc.collect()
    return net


def monitor_final(ctx: fw.Ctx, net: Net) -> None:
    now = ms(net.loop.time())
    sc = net.scenario
    recs = dict(net.astatus())
    ups = [op for op in net.ops.values() if op.state == 'up']
    # graceful exit removes the record; nobody who is down keeps a live record this long after
    for op in net.ops.values():
        if op.state != 'up' and op.id in recs:
            r = recs[op.id]
            # (a killed operator's record legitimately lives until lastseen + its configured lifetime)
            if is_live(r, now) and (op.exited or r[2] is None or now >= r[2] + op.spec['life'] * 1000):
                # the cause, if it is in the request log of this history: a touch() issued from process_peering_event by an
                # incarnation that had already written its withdrawal, and whose instant is this record's lastseen (F1302)
                cause = [a for a in net.after_exit if a['operator'] == op.id and a['from'] == 'process_peering_event'
                         and a['at_ms'] == r[2] and a['patch'].get('status', {}).get(op.id) is not None]
                ctx.fail('an operator that exited or was killed long ago still has a live record',
                         {'scenario': sc, 'operator': op.id, 'post_withdrawal_touch': cause[0] if cause else None},
                         observed={'record': r, 'at_ms': now},
                         sig='net-zombie-record-written-after-withdrawal' if cause else 'net-zombie-record')
    for v in net.bad_records[:3]:
        ctx.fail('the record an operator writes for itself does not carry its configured priority / lifetime',
                 {'scenario': sc, **v}, sig='net-record-wrong')
    for v in net.opened_while_paused[:3]:
        ctx.fail('a watch-stream was (re)opened while the operator is paused', {'scenario': sc, **v}, sig='net-stream-open-while-paused')
    for ident in net.never_withdrawn:
        ctx.fail('an operator exited gracefully without removing its record', {'scenario': sc, 'operator': ident},
                 observed={'status': net.body.get('status')}, sig='net-exit-not-withdrawn')
    # expired records of others are cleaned up (somebody is running and has had events since)
    # (cleaning happens on events: somebody's keep-alive must have come since; a lone day-long peer has none)
    if ups and not sc['slow'] and any(op.spec['life'] <= 60 for op in ups):
        dead = [k for k, (p, l, s) in recs.items() if (now if s is None else s) + l * 1000 <= now]
        if dead:
            ctx.fail('expired records are left in the peering object although operators are running',
                     {'scenario': sc}, observed={'dead': dead, 'status': net.body.get('status'), 'at_ms': now}, sig='net-dead-left')


def run_networks(ctx: fw.Ctx, header: str, n: int) -> None:
    cases: list[fw.Case] = []
    enc: list[fw.Case] = []
    scenarios = [c for c in load_corpus('net')]
    r = ctx.rng
    while len(scenarios) < n:
        scenarios.append(gen_scenario(r, len(scenarios)))
    for sc in scenarios:
        net = run_scenario(ctx, sc)
        overl = overlapping(sc)
        ctx.count('net_operators_overlapping', str(overl))
        ctx.count('net_delivery', 'slower-than-margin' if sc.get('slow') else 'fast')
        ctx.count('net_keepalive_jitter', str(sc['jitter']))
        for spec in sc['ops'].values():
            ctx.count('net_keepalive_lifetime', str(spec['life']))
            ctx.count('net_keepalive_lifetime_class', '>= 1 day' if spec['life'] >= 86400 else '< 1 day')
        ctx.count('net_keepalive_labels', 'LKeepalive', sum(1 for l in net.trace if l[0] == 'keepalive'))
        ctx.count('net_keepalive_labels', 'LWake', sum(1 for l in net.trace if l[0] == 'wake'))
        ctx.count('net_keepalive_labels', 'LExit/LGone', sum(1 for l in net.trace if l[0] in ('exit', 'gone')))
        if net.odd:
            ctx.correspondence_break('T:peernet', {'scenario': sc, 'unexpected': net.odd[:5]})
            continue
        if len(ctx.cov['samples']) < 5 and overl >= 2:
            ctx.sample({'kind': 'network', 'scenario': sc, 'labels': len(net.trace)})
        term = f'accepts {cq.cZ(net.t0)} {cq.clist(net.labels)}'
        cases.append(fw.Case(term, {'scenario': sc, 'trace': net.trace},
                             diag=f'rejected_at (net0 {cq.cZ(net.t0)}) {cq.clist(net.labels)} 0'))
        ctx.cov['traces_validated_against_impl'] += 1
        for st, tab, status in net.enc_cases:
            ftab = cq.clist(cq.cpair(cq.cZ(t), cq.cstr(x)) for t, x in tab)
            enc.append(fw.Case(f'jeqb (enc_status (fmt_tab {ftab}) {c_astatus(st)}) {cq.cjson(status)}',
                               {'status': status, 'abstract': st}, diag=f'enc_status (fmt_tab {ftab}) {c_astatus(st)}'))
            ctx.count('encoding_records', str(len(st)))
            ctx.count('encoding_lastseen', 'all' if len(tab) == len(st) else 'some-missing')
        ctx.count('net_trace_labels', '<=50' if len(net.trace) <= 50 else '<=200' if len(net.trace) <= 200 else '>200')
    ctx.differential('peernet', header, cases, shard=12)
    ctx.differential('encoding', header, enc, shard=150)


def overlapping(sc: dict) -> int:
    up: set[str] = set()
    best = 0
    for a in sc['actions']:
        if a['do'] in ('start', 'start_exit'):
            up.add(a['op'])
        if a['do'] in ('exit', 'kill', 'start_exit'):
            up.discard(a['op'])
        best = max(best, len(up))
    return best


# ------------------------------------------------------------------------------------------
# whole operators: 2-3 real kopf.operator() incarnations sharing one ClusterKopfPeering in the fake API
# (kv.sim / kv.fakeapi).  Monitors only (the property text on handler calls, daemons, the peering object).
# ------------------------------------------------------------------------------------------

def gen_world_scenario(r: _random.Random, idx: int) -> dict:
    nops = r.choice([2, 2, 3])
    names = ['A', 'B', 'C'][:nops]
    prios = r.sample([0, 10, 50, 100], nops)
    if r.random() < 0.15:
        prios[1] = prios[0]
    life = r.choice([12, 20, 30])
    steps: list[dict] = []
    up: set[str] = set()
    nobj = 0
    for _ in range(r.choice([4, 6, 9])):
        k = r.random()
        down = [n for n in names if n not in up]
        if down and (k < 0.35 or not up):
            n = r.choice(down)
            up.add(n)
            steps.append({'do': 'start', 'op': n})
        elif up and k < 0.5:
            n = r.choice(sorted(up))
            up.discard(n)
            steps.append({'do': r.choice(['kill', 'stop']), 'op': n})
        else:
            nobj += 1
            steps.append({'do': 'create', 'name': f'o{nobj}'})
        steps.append({'do': 'run', 'for': r.choice([2, 5, life + 3, 2 * life + 5])})
    return {'idx': idx, 'ops': dict(zip(names, prios)), 'life': life, 'steps': steps}


def run_world(ctx: fw.Ctx, sc: dict) -> None:
    from kv import fakeapi, sim
    W = sim.World(kinds=[fakeapi.KOPFEXAMPLE, fakeapi.CLUSTERKOPFPEERING, fakeapi.NAMESPACE, fakeapi.CRD])
    try:
        api = W.api
        api.create(fakeapi.CLUSTERKOPFPEERING, None, 'default', {})
        handlers = [{'id': 'on_create', 'kind': 'create'}, {'id': 'dmn', 'kind': 'daemon', 'temper': 'obeys'}]
        incs: dict[str, Any] = {}
        gen: dict[str, int] = {}
        prio_of: dict[str, int] = {}          # incarnation name -> priority
        created: dict[str, float] = {}

        def conf(prio: int) -> Any:
            def f(s: Any) -> None:
                s.peering.priority = prio
                s.peering.lifetime = sc['life']
            return f

        for st in sc['steps']:
            if st['do'] == 'start':
                gen[st['op']] = gen.get(st['op'], 0) + 1
                name = f"{st['op']}{gen[st['op']]}"
                prio_of[name] = sc['ops'][st['op']]
                incs[st['op']] = W.operator(name, handlers, configure=conf(sc['ops'][st['op']]),
                                            peering={'peering_name': 'default', 'clusterwide': True}).start()
            elif st['do'] == 'kill':
                incs.pop(st['op']).kill()
            elif st['do'] == 'stop':
                inc = incs.pop(st['op'])
                inc.stop()
                inc.wait_exit(60)
            elif st['do'] == 'create':
                api.create(fakeapi.KOPFEXAMPLE, 'default', st['name'], {'spec': {'x': 1}})
                created[st['name']] = W.now
            else:
                W.run_for(st['for'])
            ctx.count('world_steps', st['do'])
        W.run_for(2 * sc['life'] + 15)          # every killed record has expired, every takeover has happened
        running = {n: i for n, i in incs.items() if i.state == 'running'}
        # ---- the property on what happened
        data = {'scenario': sc}
        calls = [c for c in W.calls if c['handler'] == 'on_create']
        per_obj: dict[str, list] = {}
        for c in calls:
            per_obj.setdefault(c['name'], []).append((c['inc'], c['t']))
        for name, cs in per_obj.items():
            if len(cs) > 1:
                ctx.fail('a creation handler was executed more than once across pause / take-over', {**data, 'object': name},
                         observed=cs, sig='world-double-execution')
        prios = sorted((sc['ops'][n] for n in running), reverse=True)
        unique_top = bool(prios) and (len(prios) == 1 or prios[0] > prios[1])
        status = (api.get(fakeapi.CLUSTERKOPFPEERING, None, 'default') or {}).get('status', {})
        if unique_top:
            ctx.nontriv(['world', sc['idx']]) if len(prio_of) >= 2 else None
            top = max(running, key=lambda n: sc['ops'][n])
            for name in created:
                if name not in per_obj:
                    ctx.fail('an object was never handled although a unique top-priority operator is running', {**data, 'object': name},
                             observed={'status': status}, sig='world-not-handled')
            # daemons at the end: exactly one live instance per object, owned by the top operator
            for name in created:
                live = [c['inc'] for c in W.calls if c['handler'] == 'dmn' and c['name'] == name and c['ended'] is None
                        and not c.get('aborted')]
                if live != [running[top].name]:
                    ctx.fail('daemons are not running exactly in the one active operator', {**data, 'object': name},
                             observed=live, expected=[running[top].name], sig='world-daemons-wrong')
        # handled only by an operator that was not outranked by a peer registered long enough before
        starts: dict[str, float] = {}
        for c in W.calls:
            starts.setdefault(c['inc'], c['t'])
        # records of stopped (graceful) operators are gone, of everyone not running are gone or expired by now
        import iso8601
        now_ms = ms(W.now)
        live_ids = []
        for ident, rec in status.items():
            seen = (iso8601.parse_date(rec['lastseen']) - clock.EPOCH) // dt.timedelta(milliseconds=1)
            if seen + rec.get('lifetime', 60) * 1000 > now_ms:
                live_ids.append(ident)
        if len(live_ids) != len(running):
            ctx.fail('live peering records do not match the running operators long after the last exit/kill', data,
                     observed={'status': status, 'running': sorted(running)}, sig='world-records-wrong')
        ctx.count('world_end', 'unique-top' if unique_top else 'conflict-or-nobody')
    finally:
        W.close()


def run_worlds(ctx: fw.Ctx, n: int) -> None:
    try:
        from kv import fakeapi, sim  # noqa: F401
    except Exception as e:        # the whole-operator simulation is shared infrastructure
        ctx.notes.append(f'whole-operator scenarios skipped: {e!r}')
        return
    import warnings
    r = ctx.rng
    for i in range(n):
        sc = gen_world_scenario(r, i)
        with warnings.catch_warnings():
            warnings.simplefilter('ignore')
            run_world(ctx, sc)
        ctx.count('world_scenarios', 'run')
