"""A stepped, virtual-time asyncio event loop for schedule exploration (DESIGN.md §5).

`VLoop` is an `asyncio.SelectorEventLoop` whose clock is a plain float advanced only by the
driver, whose selector never blocks, and which is stepped from outside with `_run_once()`
(CPython 3.12 private API; the interpreter is pinned in /venv).

Driver vocabulary:
  loop.settle()                 run callbacks until nothing is ready and no timer is due *now*
  loop.next_timer()             virtual deadline of the earliest scheduled timer, or None
  loop.advance_to(t)            move the clock to t (no callbacks run)
  loop.advance_to_next_timer()  clock := deadline of the earliest timer; then settle
  loop.run_until(pred, horizon) alternate settle/advance until pred() or the horizon (virtual s)
A stall (callbacks keep being ready without the clock moving for `max_spins` iterations) raises
`Stall` — this is how a busy loop in the code under test becomes a finding rather than a hang.
"""
from __future__ import annotations

import asyncio
import heapq
import selectors
from typing import Any, Callable, Coroutine


class Stall(Exception):
    pass


class _NonBlockingSelector(selectors.DefaultSelector):  # type: ignore[misc,valid-type]
    def select(self, timeout: float | None = None):  # type: ignore[override]
        return super().select(0)


class VLoop(asyncio.SelectorEventLoop):
    def __init__(self, start: float = 0.0, max_spins: int = 20000) -> None:
        super().__init__(_NonBlockingSelector())
        self._vnow = float(start)
        self.max_spins = max_spins
        self.steps = 0

    # ---- the clock
    def time(self) -> float:
        return self._vnow

    def advance_to(self, t: float) -> None:
        if t > self._vnow:
            self._vnow = float(t)

    def advance_by(self, dt: float) -> None:
        self.advance_to(self._vnow + dt)

    # ---- inspection
    def next_timer(self) -> float | None:
        sched = self._scheduled  # type: ignore[attr-defined]
        while sched and sched[0]._cancelled:
            h = heapq.heappop(sched)
            h._scheduled = False
            self._timer_cancelled_count = max(0, self._timer_cancelled_count - 1)  # type: ignore[attr-defined]
        return sched[0]._when if sched else None

    def has_ready(self) -> bool:
        return bool(self._ready)  # type: ignore[attr-defined]

    def due(self) -> bool:
        t = self.next_timer()
        return t is not None and t <= self._vnow + self._clock_resolution  # type: ignore[attr-defined]

    # ---- stepping
    def step(self) -> None:
        """One iteration of the loop (ready callbacks + due timers)."""
        self.steps += 1
        # _run_once would block in select() when nothing is ready; the selector is non-blocking.
        self._run_once()  # type: ignore[attr-defined]

    def settle(self) -> int:
        n = 0
        while self.has_ready() or self.due():
            self.step()
            n += 1
            if n > self.max_spins:
                raise Stall(f'{n} loop iterations without virtual time progress at t={self._vnow}')
        return n

    def advance_to_next_timer(self) -> bool:
        t = self.next_timer()
        if t is None:
            return False
        self.advance_to(t)
        self.settle()
        return True

    def run_until_fine(self, pred: Callable[[], bool], horizon: float) -> bool:
        """Like run_until, but pred() is checked after every single loop iteration."""
        spins = 0
        while not pred():
            if self.has_ready() or self.due():
                self.step()
                spins += 1
                if spins > self.max_spins:
                    raise Stall(f'{spins} loop iterations without virtual time progress at t={self._vnow}')
                continue
            spins = 0
            t = self.next_timer()
            if t is None or t > horizon:
                self.advance_to(horizon)
                return pred()
            self.advance_to(t)
        return True

    def run_until(self, pred: Callable[[], bool], horizon: float) -> bool:
        """Run (virtual time) until pred() holds; False if the horizon was reached or the loop went idle."""
        self.settle()
        while not pred():
            t = self.next_timer()
            if t is None or t > horizon:
                self.advance_to(horizon if t is None or t > horizon else t)
                return pred()
            self.advance_to(t)
            self.settle()
        return True

    def run_for(self, dt: float) -> None:
        end = self._vnow + dt
        self.run_until(lambda: False, end)
        self.advance_to(end)
        self.settle()

    def spawn(self, coro: Coroutine[Any, Any, Any], name: str | None = None) -> 'asyncio.Task[Any]':
        return self.create_task(coro, name=name)


def new_loop(start: float = 0.0) -> VLoop:
    loop = VLoop(start=start)
    asyncio.set_event_loop(loop)
    # Mark the loop as running for code that calls asyncio.get_running_loop() inside callbacks:
    # _run_once() does not set the running-loop marker, tasks stepping inside it need it.
    return loop


class running:
    """Context manager: make `loop` the running loop while the driver steps it from outside."""

    def __init__(self, loop: VLoop) -> None:
        self.loop = loop

    def __enter__(self) -> VLoop:
        import asyncio.events as ev
        self.loop._check_closed()  # type: ignore[attr-defined]
        self.prev = ev._get_running_loop()
        ev._set_running_loop(self.loop)
        self.loop._thread_id = __import__('threading').get_ident()  # type: ignore[attr-defined]
        return self.loop

    def __exit__(self, *exc: Any) -> None:
        import asyncio.events as ev
        self.loop._thread_id = None  # type: ignore[attr-defined]
        ev._set_running_loop(self.prev)


def close_loop(loop: VLoop) -> None:
    """Cancel whatever is left and close."""
    try:
        with running(loop):
            tasks = [t for t in asyncio.all_tasks(loop) if not t.done()]
            for t in tasks:
                t.cancel()
            for _ in range(50):
                if not (loop.has_ready() or loop.due()):
                    break
                loop.step()
            for t in tasks:
                if t.done() and not t.cancelled():
                    t.exception()  # mark retrieved
    finally:
        loop.close()
        asyncio.set_event_loop(None)
