"""Monitors of the cycle-level properties evaluated on a finished `cycle_sim.Run`.

Each monitor is the harness's own reading of the property text over the recorded history
(handler call log, server request log with before/after snapshots, server event log).
They call `ctx.fail(what, case, observed, expected, sig)`; `case` always carries the scenario,
so a failure replays by re-running the scenario.
"""
from __future__ import annotations

import json
from typing import Any

from kv import cycle_sim as cs
from kv import fakeapi

CHANGING = ('create', 'update', 'delete', 'resume', 'field')
FINAL = ('ok', 'perm')


def _case(run: cs.Run, **extra: Any) -> dict:
    return {'scenario': run.scenario, **extra}


def _op_patches(run: cs.Run) -> list[fakeapi.Request]:
    assert run.world is not None
    return [q for q in run.world.api.requests if q.method == 'PATCH' and q.actor.startswith('op:')]


def _handler_ids(run: cs.Run, kinds: tuple[str, ...] = CHANGING) -> list[str]:
    return [h['id'] for h in run.scenario['handlers'] if h['kind'] in kinds]


def _spec(run: cs.Run, hid: str) -> dict:
    return next(h for h in run.scenario['handlers'] if h['id'] == hid)


def _view(c: dict) -> dict:
    return {'metadata': {'annotations': c.get('view_ann') or {}}, 'status': c.get('view_status') or {}}


def _orphans(run: cs.Run, left: dict, uid: str | None) -> bool:
    """Are all the leftover records those of handlers never invoked on this very object (uid)?  Then they were
    computed for a previous object of the same name (finding F6), not produced by this object's cycle."""
    assert run.world is not None
    return bool(left) and all(not [c for c in run.world.calls if c['handler'] == h and c['uid'] == uid] for h in left)


def orphaned_daemons(run: cs.Run) -> list[dict]:
    """Daemon instances of objects that have DISAPPEARED (a DELETED event was delivered for their uid: forced removal,
    recreation under the same name) and that were still running afterwards having swallowed a cancellation: the object's
    memory is forgotten on the DELETED event and no further cycle exists for it, so the staged stop (flag, cancel after the
    backoff, abandon after the timeout) never proceeds and the daemon killer cannot reach them (findings F7 / F702)."""
    assert run.world is not None
    w = run.world
    gone_at = {ev['object']['metadata']['uid']: ev['order'] for ev in w.api.events if ev['type'] == 'DELETED'}
    out = []
    for c in w.calls:
        if c['kind'] == 'daemon' and c['uid'] in gone_at and c.get('ignored') and (c.get('end_order') is None or c['end_order'] > gone_at[c['uid']]):
            out.append({k: c.get(k) for k in ('handler', 'uid', 'inc', 't', 'flag_at', 'ignored', 'ended')})
    return out


def f6_landing(run: cs.Run, uid: str | None) -> bool:
    """Did an accepted framework write that was issued before this object (uid) existed land on it?  (F6)"""
    assert run.world is not None
    born = min([ev['order'] for ev in run.world.api.events if ev['object']['metadata']['uid'] == uid], default=None)
    return born is not None and any(q.status == 200 and q.uid == uid and q.order < born for q in _op_patches(run))


def closings(run: cs.Run) -> dict[str, list[int]]:
    """uid -> global order numbers of accepted framework writes that store the last-handled state."""
    cfg = run.scenario['cfg']
    out: dict[str, list[float]] = {}
    for q in _op_patches(run):
        if q.status != 200 or q.before is None:
            continue
        lb = cs.last_handled(q.before, cfg)
        la = cs.last_handled(q.after, cfg) if q.after is not None else None
        if q.after is not None and la is not None and la != lb:
            out.setdefault(q.uid or '-', []).append(q.order)
    return out


# ------------------------------------------------------------------------------------------------ C02
def mon_c02(ctx: Any, run: cs.Run) -> None:
    cfg = run.scenario['cfg']
    w = run.world
    assert w is not None
    ids = set(_handler_ids(run))
    for c in w.calls:
        if c['handler'] not in ids or c['kind'] not in CHANGING:
            continue
        recs = cs.progress_records(_view(c), cfg)
        rec = recs.get(c['handler'])
        ctx.count('c02_view_record', 'finished' if rec and (rec.get('success') or rec.get('failure')) else 'open' if rec else 'none')
        if rec and (rec.get('success') or rec.get('failure')):
            ctx.fail('a handler whose success/permanent failure is recorded on the object was invoked again',
                     _case(run, call={k: c[k] for k in ('t', 'inc', 'handler', 'uid', 'rv', 'retry', 'reason')}),
                     observed=rec, sig='finished-reinvoked')
        expected_retry = int((rec or {}).get('retries') or 0)
        if c['retry'] != expected_retry:
            ctx.fail('retry number given to the handler differs from its recorded attempts',
                     _case(run, call={k: c[k] for k in ('t', 'inc', 'handler', 'uid', 'rv', 'retry', 'reason')}),
                     observed=c['retry'], expected=expected_retry, sig='retry-number')
    # closing: records removed together with the last-handled write, and not before everyone finished
    for q in _op_patches(run):
        if q.status != 200 or q.before is None or q.after is None:
            continue
        lb, la = cs.last_handled(q.before, cfg), cs.last_handled(q.after, cfg)
        if la is not None and la != lb:
            left = {k: v for k, v in cs.progress_records(q.after, cfg).items() if k in ids}
            ctx.count('c02_closing', 'clean' if not left else 'records-left')
            if left:
                ctx.fail('last-handled state written while progress records of the cycle remain',
                         _case(run, request=q.brief(), orphan_records=_orphans(run, left, q.uid), f6_landing=f6_landing(run, q.uid)), observed=left, sig='closed-with-records')
            # every handler invoked for this uid since the previous closing has a final outcome
            prev = max([t for t in closings(run).get(q.uid or '-', []) if t < q.order], default=-1)
            last: dict[str, dict] = {}
            span = [c for c in w.calls if c['uid'] == q.uid and c['kind'] in CHANGING and prev < c['order'] < q.order and not c.get('aborted')]
            # a cycle of another cause may have been superseded (e.g. creation by deletion): only the handlers
            # of the cause that is being closed count
            if q.before['metadata'].get('deletionTimestamp'):
                span = [c for c in span if c['reason'] == 'delete']
            else:
                span = [c for c in span if c['reason'] != 'delete']
            reason = span[-1]['reason'] if span else None
            for c in span:
                if c['reason'] == reason:
                    last[c['handler']] = c
            open_ = {h: c['outcome'] for h, c in last.items() if c['outcome'] not in FINAL and not _exhausted(run, c)}
            if open_:
                ctx.fail('cycle closed although a selected handler had not finished',
                         _case(run, request=q.brief()), observed=open_, sig='closed-early')
    # at most one success per handler per cycle, absent the excluded events
    if not run.exclusions:
        cl = closings(run)
        seen: dict[tuple, int] = {}
        for c in w.calls:
            if c['kind'] in CHANGING and c['kind'] != 'resume' and c['outcome'] == 'ok' and not c.get('aborted'):
                times = cl.get(c['uid'], [])
                cyc = len([t for t in times if t < c['order']])
                seen[(c['uid'], c['handler'], cyc)] = seen.get((c['uid'], c['handler'], cyc), 0) + 1
        for key, n in seen.items():
            if n > 1:
                ctx.fail('a handler succeeded more than once within one handling cycle (no crash, no lost response, no pause)',
                         _case(run, key=list(key)), observed=n, expected=1, sig='double-success')


def _exhausted(run: cs.Run, c: dict) -> bool:
    kw = _spec(run, c['handler']).get('kwargs', {})
    return kw.get('retries') is not None and (c['retry'] or 0) + 1 >= kw['retries']


# ------------------------------------------------------------------------------------------------ C03
def _essential_events(run: cs.Run, name: str) -> list[dict]:
    """External events of the object whose essence differs from the previous version's."""
    assert run.world is not None
    cfg = run.scenario['cfg']
    out, prev, prev_uid = [], None, None
    for ev in run.world.api.events:
        if ev['name'] != name:
            continue
        e = cs.essence_of(ev['object'], cfg)
        uid = ev['object']['metadata']['uid']
        if ev['type'] == 'DELETED':
            prev, prev_uid = None, None
            continue
        if uid != prev_uid or e != prev:
            out.append({'t': ev['t'], 'order': ev['order'], 'type': 'ADDED' if uid != prev_uid else 'MODIFIED', 'object': ev['object'], 'essence': e, 'actor': ev['actor']})
        prev, prev_uid = e, uid
    return out


def conflict_stuck(run: cs.Run, name: str, uid: str) -> bool:
    """Was the framework's last JSON-patch for this object rejected (422) by a concurrent newer version, with no
    change handler of the object invoked ever after?  (the carried-over transformation then suppresses handling)"""
    assert run.world is not None
    rej = [q for q in _op_patches(run) if q.status == 422 and not q.note.startswith('fault')
           and q.headers.get('Content-Type') == 'application/json-patch+json' and q.path.rstrip('/').split('/')[-1] == name]
    if not rej:
        return False
    later = [c for c in run.world.calls if c['uid'] == uid and c['kind'] in CHANGING and c['order'] > rej[-1].order]
    return not later


def mon_c03(ctx: Any, run: cs.Run) -> None:
    cfg = run.scenario['cfg']
    w = run.world
    assert w is not None
    if run.error:
        ctx.fail('the closed loop crashed or stalled', _case(run, orphaned_unstoppable_daemons=orphaned_daemons(run)), observed=run.error, sig='crash')
        return
    if not run.quiescent:
        ctx.fail('handling did not terminate after changes and failures stopped', _case(run), sig='no-convergence')
        return
    if run.requests_after_quiescence:
        ctx.fail('the framework keeps writing to the object after convergence', _case(run),
                 observed=run.requests_after_quiescence, expected=0, sig='writes-after-quiescence')
    ids = _handler_ids(run)
    for name, obj in run.snap.items():
        if obj is None:
            continue
        ctx.count('c03_final', 'deleting' if obj['metadata'].get('deletionTimestamp') else 'live')
        if obj['metadata'].get('deletionTimestamp'):
            continue
        if not ids:
            continue
        ess = cs.essence_of(obj, cfg)
        lh = cs.last_handled(obj, cfg)
        stuck = conflict_stuck(run, name, obj['metadata']['uid'])
        f6 = f6_landing(run, obj['metadata']['uid'])
        if lh != ess:
            ctx.fail('recorded last-handled state differs from the final essential state', _case(run, obj=name, stuck_after_conflict=stuck, f6_landing=f6),
                     observed=lh, expected=ess, sig='last-handled-stale')
        left = {k: v for k, v in cs.progress_records(obj, cfg).items() if k in ids}
        if left:
            evs0 = [e for e in _essential_events(run, name) if e['object']['metadata']['uid'] == obj['metadata']['uid']]
            reverted = bool(evs0) and cs.last_handled(evs0[-1]['object'], cfg) == evs0[-1]['essence'] and lh == ess
            ctx.fail('progress records remain after convergence',
                     _case(run, obj=name, stuck_after_conflict=stuck, f6_landing=f6, reverted_during_open_cycle=reverted,
                           orphan_records=_orphans(run, left, obj['metadata']['uid'])),
                     observed=left, sig='records-left')
        evs = [e for e in _essential_events(run, name) if e['object']['metadata']['uid'] == obj['metadata']['uid']]
        if not evs:
            continue
        lastev = evs[-1]
        if cs.last_handled(lastev['object'], cfg) == lastev['essence']:
            ctx.count('c03_final', 'last-change-reverted-to-handled-state')
            continue
        created_cycle = lastev['type'] == 'ADDED' or cs.last_handled(lastev['object'], cfg) is None
        want_kind = 'create' if created_cycle else 'update'
        for h in run.scenario['handlers']:
            if h['kind'] != want_kind:
                continue
            calls = [c for c in w.calls if c['handler'] == h['id'] and c['uid'] == obj['metadata']['uid'] and not c.get('aborted')]
            fin = [c for c in calls if c['outcome'] in FINAL and c['ended'] is not None and c['order'] > lastev['order']]
            if want_kind == 'create':
                fin = [c for c in calls if c['outcome'] in FINAL]
            if not fin:
                cl = [t for t in closings(run).get(obj['metadata']['uid'], [])]
                prior = [c for c in calls if c['outcome'] in FINAL and c['order'] < lastev['order']]
                # did the change arrive while the cycle in which the handler had already finished was still open?
                absorbed = bool(prior) and not [t for t in cl if prior[-1]['order'] <= t < lastev['order']]
                ctx.fail('a handler selected for the outstanding change never completed against the final state',
                         _case(run, obj=name, handler=h['id'], change_at=lastev['t'], kind=want_kind, absorbed_by_open_cycle=absorbed,
                               stuck_after_conflict=stuck, f6_landing=f6),
                         observed=[{k: c[k] for k in ('t', 'retry', 'outcome')} for c in calls][-4:], sig='handler-missed')
            elif want_kind == 'update':
                c = fin[-1]
                if c.get('new') is not None and _strip(c['new']) != _strip(ess):
                    ctx.fail('the last completed update handler ran against a state that is not the final essential state',
                             _case(run, obj=name, handler=h['id'], f6_landing=f6, stuck_after_conflict=stuck), observed=c['new'], expected=ess, sig='handled-stale-state')


def _strip(e: Any) -> Any:
    return json.loads(json.dumps(e))


def mon_c03_deletion(ctx: Any, run: cs.Run) -> None:
    """A deletion is an outstanding change as well: "every handler selected for the outstanding change has completed".  The
    object cannot be judged once it is gone, so this is judged at the moment the operator lets it go: when the framework's
    finalizer is removed from an object marked for deletion, every mandatory deletion handler of the scenario must have finished
    (succeeded, failed for good or exhausted its retries) with reason=delete for that object - afterwards it can never run."""
    w = run.world
    assert w is not None
    fin = cs.FINALIZER
    dels = [h for h in run.scenario['handlers'] if h['kind'] == 'delete' and not h.get('kwargs', {}).get('optional')]
    for q in _op_patches(run):
        if q.status != 200 or q.before is None or not q.before['metadata'].get('deletionTimestamp'):
            continue
        fb = list(q.before['metadata'].get('finalizers', []))
        fa = list(q.after['metadata'].get('finalizers', [])) if q.after is not None else None
        if not (fin in fb and (fa is None or fin not in fa)):
            continue
        uid = q.before['metadata']['uid']
        ctx.count('c03_deletion', f'released with {len(dels)} mandatory deletion handlers')
        for h in dels:
            calls = [c for c in w.calls if c['handler'] == h['id'] and c['uid'] == uid and c['order'] < q.order and not c.get('aborted')
                     and c['reason'] == 'delete']
            if not [c for c in calls if c['outcome'] in FINAL or _exhausted(run, c)]:
                ctx.fail('the object was released for deletion although a handler selected for the deletion never completed',
                         _case(run, request=q.brief(), handler=h['id'], obj=q.before['metadata']['name']),
                         observed=[{k: c[k] for k in ('t', 'inc', 'retry', 'outcome')} for c in calls][-4:], sig='deletion-handler-incomplete')


def mon_c03_downtime(ctx: Any, run: cs.Run) -> None:
    """Changes made while the operator was down are handled as ONE accumulated change."""
    w = run.world
    assert w is not None
    cfg = run.scenario['cfg']
    for m in run.marks:
        if m.get('a') != 'downtime_edits' or len(m.get('edits', [])) < 2:
            continue
        nxt = [x['t'] for x in run.marks if x['t'] > m['t']]
        t_end = min(nxt) if nxt else w.now
        ups = [h['id'] for h in run.scenario['handlers'] if h['kind'] == 'update']
        for h in ups:
            cyc = [c for c in w.calls if c['handler'] == h and c['name'] == m.get('obj') and m['t'] < c['t'] <= t_end + 30 and c['outcome'] == 'ok']
            ctx.count('c03_downtime', f'{min(len(cyc), 3)} update successes after downtime')


# ------------------------------------------------------------------------------------------------ C06
def mon_c06(ctx: Any, run: cs.Run) -> None:
    w = run.world
    assert w is not None
    fin = cs.FINALIZER
    handlers = run.scenario['handlers']
    for q in _op_patches(run):
        if q.status != 200 or q.before is None:
            continue
        fb = list(q.before['metadata'].get('finalizers', []))
        fa = list((q.after or {'metadata': {}})['metadata'].get('finalizers', [])) if q.after is not None else None
        foreign_b = [f for f in fb if f != fin]
        if fa is not None:
            foreign_a = [f for f in fa if f != fin]
            if foreign_a != foreign_b:
                ctx.fail('a framework write added, dropped or reordered finalizers owned by others', _case(run, request=q.brief()),
                         observed=fa, expected=fb, sig='foreign-finalizers')
            if fa.count(fin) > 1:
                ctx.fail('the framework finalizer is duplicated', _case(run, request=q.brief()), observed=fa, sig='finalizer-duplicated')
            if fin in fa and fin not in fb and q.before['metadata'].get('deletionTimestamp'):
                ctx.fail('finalizer added to an object already marked for deletion', _case(run, request=q.brief()), sig='added-while-deleting')
        removed = fin in fb and (fa is None or fin not in fa)
        if not removed:
            continue
        deleting = bool(q.before['metadata'].get('deletionTimestamp'))
        ctx.count('c06_release', 'while-deleting' if deleting else 'not-deleting')
        if not deleting:
            continue
        uid = q.before['metadata']['uid']
        for h in handlers:
            if h['kind'] == 'delete' and not h.get('kwargs', {}).get('optional'):
                calls = [c for c in w.calls if c['handler'] == h['id'] and c['uid'] == uid and c['order'] < q.order and not c.get('aborted')]
                dcalls = [c for c in calls if c['reason'] == 'delete']
                if not [c for c in dcalls if c['outcome'] in FINAL or _exhausted(run, c)]:
                    shared = len([x for x in handlers if x['id'] == h['id']]) > 1
                    ctx.fail('finalizer removed although a mandatory deletion handler has not finished',
                             _case(run, request=q.brief(), handler=h['id'], id_shared_with_other_cause=shared),
                             observed=[{k: c[k] for k in ('t', 'inc', 'retry', 'outcome')} for c in calls][-4:], sig='released-early-handler')
            if h['kind'] == 'daemon':
                to = h.get('kwargs', {}).get('cancellation_timeout')
                for c in w.calls:
                    if c['handler'] != h['id'] or c['uid'] != uid or c['inc'] != q.actor[3:]:
                        continue
                    ended = c['ended'] is not None and c['ended'] <= q.t
                    bo = h.get('kwargs', {}).get('cancellation_backoff') or 0
                    abandoned = to is not None and c.get('flag_at') is not None and q.t >= c['flag_at'] + bo + to - 1e-6
                    if not ended and not abandoned:
                        ctx.fail('finalizer removed although a daemon has neither exited nor been abandoned',
                                 _case(run, request=q.brief(), handler=h['id']),
                                 observed={k: c.get(k) for k in ('t', 'inc', 'ended', 'flag_at', 'first_cancelled_at')}, sig='released-early-daemon')
    # released eventually
    if run.quiescent and not run.error:
        for name, obj in run.snap.items():
            if obj is not None and obj['metadata'].get('deletionTimestamp') and fin in obj['metadata'].get('finalizers', []):
                uid = obj['metadata']['uid']
                last_inc = run.incs[-1].name if run.incs else None
                live = []
                for h in handlers:
                    if h['kind'] != 'daemon':
                        continue
                    to = h.get('kwargs', {}).get('cancellation_timeout')
                    for c in w.calls:
                        if c['handler'] == h['id'] and c['uid'] == uid and c['inc'] == last_inc and c['ended'] is None and to is None:
                            live.append(h['id'])
                if live:      # rightfully held: a daemon that never exits and can never be abandoned (no timeout)
                    ctx.count('c06_release', 'held-by-unstoppable-daemon')
                    continue
                ctx.fail('object marked for deletion keeps the framework finalizer after everything has finished',
                         _case(run, obj=name), observed=obj['metadata'], sig='never-released')


# ------------------------------------------------------------------------------------------------ C08
def mon_c08(ctx: Any, run: cs.Run) -> None:
    w = run.world
    assert w is not None
    cfg = run.scenario['cfg']
    sub = bool(cfg.get('status_subresource'))
    ids = set(_handler_ids(run, CHANGING + ('daemon', 'timer')))
    for q in _op_patches(run):
        ctype = q.headers.get('Content-Type')
        is_status_url = q.path.endswith('/status')
        ctx.count('c08_requests', f"{'status' if is_status_url else 'main'}:{ctype.split('/')[1].split('+')[0] if ctype else '?'}:{q.status}")
        if ctype == 'application/merge-patch+json':
            keys = set(q.payload or {})
            if sub and not is_status_url and 'status' in keys:
                ctx.fail('status sent to the main endpoint although the resource has a status subresource', _case(run, request=q.brief()), sig='split')
            if is_status_url and (not sub or keys - {'status'}):
                ctx.fail('non-status content (or any content without a subresource) sent to /status', _case(run, request=q.brief()), sig='split')
        elif ctype == 'application/json-patch+json':
            ops = q.payload or []
            if not ops or ops[0].get('op') != 'test' or ops[0].get('path') != '/metadata/resourceVersion':
                ctx.fail('state-dependent transformation sent without the resourceVersion precondition', _case(run, request=q.brief()), sig='no-test-op')
            elif q.status == 200 and q.before is not None and ops[0].get('value') != q.before['metadata']['resourceVersion']:
                ctx.fail('JSON-patch accepted against a version other than the tested one', _case(run, request=q.brief()), sig='test-mismatch')
        # lands only on the object it was computed for
        if q.status == 200 and q.uid is not None and ctype == 'application/merge-patch+json':
            mentioned = _mentioned_handlers(q.payload, cfg, ids)
            for h in mentioned:
                calls = [c for c in w.calls if c['handler'] == h and c['uid'] == q.uid and c['order'] < q.order]
                if not calls:
                    others = sorted({c['uid'] for c in w.calls if c['handler'] == h and c['order'] < q.order})
                    ctx.fail('a write computed for one object landed on a later object that reuses its name',
                             _case(run, request=q.brief(), handler=h), observed={'landed_on': q.uid, 'computed_for': others}, sig='wrong-object')
    # a vanished object ends patching silently: the operator survives every 404
    for q in _op_patches(run):
        if q.status == 404:
            ctx.count('c08_requests', '404-seen')


def _mentioned_handlers(payload: Any, cfg: dict, ids: set[str]) -> set[str]:
    out: set[str] = set()
    if not isinstance(payload, dict):
        return out
    anns = (payload.get('metadata') or {}).get('annotations') or {}
    for k, v in anns.items():
        name = k.split('/', 1)[-1]
        if name in ids and v is not None and _attempted(v):
            out.add(name)
    st = payload.get('status') or {}
    for holder in ('kopf', 'myop'):
        for k, v in ((st.get(holder) or {}).get('progress') or {}).items():
            if k in ids and v is not None and _attempted(v):
                out.add(k)
    return out


def _attempted(rec: Any) -> bool:
    """Does the stored record say that the handler was actually invoked at least once?"""
    try:
        d = json.loads(rec) if isinstance(rec, str) else rec
    except ValueError:
        return False
    return isinstance(d, dict) and bool((d.get('retries') or 0) >= 1 or d.get('success') or d.get('failure'))


# ------------------------------------------------------------------------------------------------ C14
def mon_c14(ctx: Any, run: cs.Run) -> None:
    w = run.world
    assert w is not None
    cfg = run.scenario['cfg']
    res = [h for h in run.scenario['handlers'] if h['kind'] == 'resume']
    if not res:
        return
    first_seen: dict[str, int] = {}
    for ev in w.api.events:
        first_seen.setdefault(ev['object']['metadata']['uid'], ev['order'])
    starts = {inc.name: getattr(inc, 'start_order', None) for inc in run.incs}
    for h in res:
        per: dict[tuple, list[dict]] = {}
        for c in w.calls:
            if c['handler'] == h['id']:
                per.setdefault((c['inc'], c['uid']), []).append(c)
        for (inc, uid), calls in per.items():
            oks = [c for c in calls if c['outcome'] == 'ok' and not c.get('aborted')]
            ctx.count('c14_resume_successes', str(min(len(oks), 3)))
            if len(oks) > 1:
                ctx.fail('a resume handler ran to completion more than once for one object in one operator process',
                         _case(run, handler=h['id'], inc=inc, uid=uid), observed=[c['t'] for c in oks], expected='at most 1', sig='resume-twice')
            st = starts.get(inc)
            born = first_seen.get(uid, -1)
            first_call = min(c['order'] for c in calls)
            listed = [l for l in w.api.lists if l['actor'] == f'op:{inc}' and born < l['order'] < first_call]
            if st is not None and born > st and not listed:
                ctx.fail('a resume handler ran for an object created after the operator started (never seen in a listing)',
                         _case(run, handler=h['id'], inc=inc, uid=uid), observed=[c['t'] for c in calls], sig='resume-for-new-object')
            if not h.get('kwargs', {}).get('deleted'):
                bad = [c for c in calls if c.get('deleting')]
                if bad:
                    ctx.fail('a resume handler ran for an object being deleted without opting in',
                             _case(run, handler=h['id'], inc=inc, uid=uid), observed=[c['t'] for c in bad], sig='resume-on-deleting')
    # liveness: pre-existing, handled-before objects without unfinished progress get their resume handlers
    if run.quiescent and not run.error and run.incs:
        last = run.incs[-1]
        st = starts.get(last.name)
        if st is None or last.state != 'running':
            return
        for name, obj in run.snap.items():
            if obj is None or obj['metadata'].get('deletionTimestamp'):
                continue
            uid = obj['metadata']['uid']
            pre = [ev for ev in w.api.events if ev['object']['metadata']['uid'] == uid and ev['order'] < st]
            if not pre:
                continue
            seen_at_start = pre[-1]['object']
            if seen_at_start['metadata'].get('deletionTimestamp'):
                continue
            if cs.last_handled(seen_at_start, cfg) is None or cs.progress_records(seen_at_start, cfg):
                continue
            for h in res:
                calls = [c for c in w.calls if c['handler'] == h['id'] and c['inc'] == last.name and c['uid'] == uid]
                if not [c for c in calls if c['outcome'] in FINAL]:
                    ctx.fail('an object that existed and was handled before the operator started never got its resume handler',
                             _case(run, handler=h['id'], inc=last.name, obj=name), observed=[c['outcome'] for c in calls], sig='resume-missed')
