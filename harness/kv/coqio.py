"""Encoders from Python values to Coq (Gallina) terms of the KV development.

Everything here emits *text*; nothing parses Coq output except `parse_nat_list`.
"""
from __future__ import annotations

import re
from typing import Any, Iterable


def cstr(s: str) -> str:
    """A Coq `string` term for a Python str (UTF-8 bytes; control chars via ascii_of_nat)."""
    if not isinstance(s, str):
        raise TypeError(f"cstr: not a str: {s!r}")
    b = s.encode('utf-8')
    parts: list[str] = []
    cur = bytearray()

    def flush() -> None:
        if cur:
            parts.append('"' + cur.decode('utf-8', errors='surrogateescape').replace('"', '""') + '"')
            cur.clear()

    i = 0
    # Walk by characters to keep multi-byte sequences together in the literal.
    for ch in s:
        o = ord(ch)
        if o < 0x20 or o == 0x7f:
            flush()
            parts.append(f'(String (Ascii.ascii_of_nat {o}) EmptyString)')
        else:
            cur.extend(ch.encode('utf-8'))
    flush()
    if not parts:
        return 'EmptyString'
    if len(parts) == 1:
        return parts[0] + '%string' if parts[0].startswith('"') else parts[0]
    return '(' + ' ++ '.join(p + '%string' if p.startswith('"') else p for p in parts) + ')%string'


def cZ(n: int) -> str:
    if isinstance(n, bool) or not isinstance(n, int):
        raise TypeError(f"cZ: not an int: {n!r}")
    return f'({n})%Z'


def cN(n: int) -> str:
    if n < 0:
        raise ValueError("cN: negative")
    return f'{n}%N'


def cnat(n: int) -> str:
    if n < 0 or n > 5000:
        raise ValueError(f"cnat: out of the safe range: {n}")
    return f'{n}%nat'


def cbool(b: bool) -> str:
    return 'true' if b else 'false'


def clist(items: Iterable[str]) -> str:
    items = list(items)
    return '[' + '; '.join(items) + ']' if items else 'nil'


def copt(x: str | None) -> str:
    return 'None' if x is None else f'(Some {x})'


def cpair(a: str, b: str) -> str:
    return f'({a}, {b})'


class Unencodable(Exception):
    pass


def cjson(v: Any) -> str:
    """JSON-like Python value -> term of `json` (Base/Json.v). Floats are outside the model."""
    if v is None:
        return 'JNull'
    if isinstance(v, bool):
        return f'(JBool {cbool(v)})'
    if isinstance(v, int):
        return f'(JNum {cZ(v)})'
    if isinstance(v, float):
        raise Unencodable(f"float outside the model: {v!r}")
    if isinstance(v, str):
        return f'(JStr {cstr(v)})'
    if isinstance(v, (list, tuple)):
        return f'(JList {clist(cjson(x) for x in v)})'
    if hasattr(v, 'items'):
        return '(JObj ' + clist(cpair(cstr(k), cjson(x)) for k, x in v.items()) + ')'
    raise Unencodable(f"not JSON-like: {type(v)}: {v!r}")


def cpath(path: Iterable[str]) -> str:
    return clist(cstr(p) for p in path)


_NATLIST = re.compile(r'=\s*(\[[^\]]*\]|nil)', re.S)


def parse_nat_list(out: str) -> list[list[int]]:
    """All `= [a; b; ...]` results printed by `Eval vm_compute in`, in order."""
    res = []
    for m in _NATLIST.finditer(out):
        body = m.group(1)
        res.append([int(x) for x in re.findall(r'\d+', body)] if body != 'nil' else [])
    return res
