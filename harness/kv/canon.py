"""Canonicalisation between Python values of the implementation and the model's json.

* `Enc(v)` marks "a str whose content is the compact JSON text of v" (Base/Json.v: JEnc).
* `to_model(v)` converts a JSON-like Python value, turning every str that is canonical compact
  JSON text into Enc(parsed) — consistently on bodies, patches and results of both sides.
* `merge7386` / `apply6902` are the harness's own, independent RFC 7386 / RFC 6902 evaluators
  (used by the monitors and by the fake API server; never by the model).
"""
from __future__ import annotations

import copy
import json
from typing import Any

from kv import coqio


class Enc:
    __slots__ = ('v',)

    def __init__(self, v: Any) -> None:
        self.v = v

    def __eq__(self, o: object) -> bool:
        return isinstance(o, Enc) and o.v == self.v

    def __repr__(self) -> str:
        return f'Enc({self.v!r})'


def has_float(v: Any) -> bool:
    if isinstance(v, float):
        return True
    if isinstance(v, (list, tuple)):
        return any(has_float(x) for x in v)
    if hasattr(v, 'items'):
        return any(has_float(x) for x in v.values())
    return False


def str_to_model(s: str) -> Any:
    body = s[:-1] if s.endswith('\n') else s
    try:
        parsed = json.loads(body)
    except (ValueError, RecursionError):
        return s
    if has_float(parsed):
        raise coqio.Unencodable(f'JSON text with a float: {s!r}')
    if json.dumps(parsed, separators=(',', ':')) != body:
        raise coqio.Unencodable(f'non-canonical JSON text in a str (generator must avoid it): {s!r}')
    return Enc(to_model(parsed))


def to_model(v: Any) -> Any:
    if isinstance(v, str):
        return str_to_model(v)
    if v is None or isinstance(v, (bool, int)):
        return v
    if isinstance(v, float):
        raise coqio.Unencodable(f'float: {v!r}')
    if isinstance(v, (list, tuple)):
        return [to_model(x) for x in v]
    if hasattr(v, 'items'):
        return {str(k): to_model(x) for k, x in v.items()}
    if isinstance(v, Enc):
        return v
    raise coqio.Unencodable(f'not JSON-like: {type(v)} {v!r}')


def cj(v: Any) -> str:
    """Coq term (json) for an implementation-side value."""
    return cjson_enc(to_model(v))


def cjson_enc(v: Any) -> str:
    if isinstance(v, Enc):
        return f'(JEnc {cjson_enc(v.v)})'
    if v is None:
        return 'JNull'
    if isinstance(v, bool):
        return f'(JBool {coqio.cbool(v)})'
    if isinstance(v, int):
        return f'(JNum {coqio.cZ(v)})'
    if isinstance(v, str):
        return f'(JStr {coqio.cstr(v)})'
    if isinstance(v, list):
        return f'(JList {coqio.clist(cjson_enc(x) for x in v)})'
    if isinstance(v, dict):
        return '(JObj ' + coqio.clist(coqio.cpair(coqio.cstr(k), cjson_enc(x)) for k, x in v.items()) + ')'
    raise coqio.Unencodable(f'{type(v)}')


def cres(kind: str, val: str | None = None) -> str:
    """`res` terms: kind in ok|key|type|value."""
    return {'ok': f'(Ok {val})', 'key': 'ErrKey', 'type': 'ErrType', 'value': 'ErrValue'}[kind]


def classify_exc(e: BaseException) -> str:
    if isinstance(e, KeyError):
        return 'key'
    if isinstance(e, (TypeError, AttributeError)):
        return 'type'
    if isinstance(e, ValueError):
        return 'value'
    raise e


def run_res(fn: Any) -> tuple[str, Any]:
    """Run fn(); -> ('ok', value) | ('key'|'type'|'value', None)."""
    try:
        return 'ok', fn()
    except (KeyError, TypeError, AttributeError, ValueError) as e:
        return classify_exc(e), None


# ---------------------------------------------------------------------------------------------
# Independent RFC evaluators
# ---------------------------------------------------------------------------------------------

def merge7386(target: Any, patch: Any) -> Any:
    if not isinstance(patch, dict):
        return copy.deepcopy(patch)
    if not isinstance(target, dict):
        target = {}
    out = dict(target)
    for k, v in patch.items():
        if v is None:
            out.pop(k, None)
        else:
            out[k] = merge7386(out.get(k), v)
    return out


class PatchTestFailed(Exception):
    pass


class PatchInvalid(Exception):
    pass


def _ptr(path: str) -> list[str]:
    if path == '':
        return []
    if not path.startswith('/'):
        raise PatchInvalid(path)
    return [p.replace('~1', '/').replace('~0', '~') for p in path[1:].split('/')]


def _get(doc: Any, parts: list[str]) -> Any:
    for p in parts:
        if isinstance(doc, dict):
            if p not in doc:
                raise PatchInvalid(f'missing {p}')
            doc = doc[p]
        elif isinstance(doc, list):
            doc = doc[int(p)]
        else:
            raise PatchInvalid(f'cannot dive into {doc!r}')
    return doc


def apply6902(doc: Any, ops: list[dict]) -> Any:
    doc = copy.deepcopy(doc)
    for op in ops:
        parts = _ptr(op['path'])
        kind = op['op']
        if kind == 'test':
            try:
                cur = _get(doc, parts)
            except (PatchInvalid, IndexError, ValueError):
                raise PatchTestFailed(op)
            if cur != op.get('value'):
                raise PatchTestFailed(op)
            continue
        if kind in ('move', 'copy'):
            src = _ptr(op['from'])
            val = copy.deepcopy(_get(doc, src))
            if kind == 'move':
                doc = apply6902(doc, [{'op': 'remove', 'path': op['from']}])
            doc = apply6902(doc, [{'op': 'add', 'path': op['path'], 'value': val}])
            continue
        if not parts:
            if kind in ('add', 'replace'):
                doc = copy.deepcopy(op['value'])
                continue
            raise PatchInvalid('remove root')
        parent = _get(doc, parts[:-1])
        last = parts[-1]
        if isinstance(parent, dict):
            if kind == 'add':
                parent[last] = copy.deepcopy(op['value'])
            elif kind == 'replace':
                if last not in parent:
                    raise PatchInvalid(f'replace missing {last}')
                parent[last] = copy.deepcopy(op['value'])
            elif kind == 'remove':
                if last not in parent:
                    raise PatchInvalid(f'remove missing {last}')
                del parent[last]
            else:
                raise PatchInvalid(kind)
        elif isinstance(parent, list):
            if kind == 'add':
                if last == '-':
                    parent.append(copy.deepcopy(op['value']))
                else:
                    i = int(last)
                    if i > len(parent):
                        raise PatchInvalid('index')
                    parent.insert(i, copy.deepcopy(op['value']))
            elif kind == 'replace':
                parent[int(last)] = copy.deepcopy(op['value'])
            elif kind == 'remove':
                del parent[int(last)]
            else:
                raise PatchInvalid(kind)
        else:
            raise PatchInvalid(f'parent is {parent!r}')
    return doc
