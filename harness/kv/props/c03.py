"""C03 — level-triggered convergence across changes, restarts and downtime."""
from __future__ import annotations

from kv import cw_tie, cycle_monitors as cm, cycle_runner as cr, cycle_sim as cs, framework as fw

RULE = cr.RULE_HISTORY
MONITORS = [cm.mon_c03, cm.mon_c03_downtime]


def match_f13(f: dict) -> bool:
    """F13: an essential change that arrives while an update cycle is open is absorbed: handlers that had already
    finished in that cycle never see it, yet the cycle closes with the newest essence as last-handled."""
    return f['sig'] in ('handler-missed', 'handled-stale-state') and bool(f['case'].get('absorbed_by_open_cycle')) \
        and not f['case'].get('stuck_after_conflict')


def match_f14(f: dict) -> bool:
    """F14: after a 422 on the framework's JSON-patch (stale event re-issuing a finalizer edit) the carried-over
    transformation makes the next cycle skip change handling; when it then yields no operation nothing re-triggers."""
    return f['sig'] in ('records-left', 'last-handled-stale', 'handler-missed') and bool(f['case'].get('stuck_after_conflict'))


def match_f6(f: dict) -> bool:
    """F6 (recorded under C08): records computed for a previous object of the same name landed on this one."""
    return f['sig'] in ('records-left', 'last-handled-stale', 'handler-missed', 'handled-stale-state') and bool(f['case'].get('orphan_records') or f['case'].get('f6_landing'))


def match_f15(f: dict) -> bool:
    """F15: an essential change is reverted while its update cycle is still open: the cause becomes a no-op, nothing
    purges the progress records of the abandoned cycle, they stay on the object until the next essential change."""
    return f['sig'] == 'records-left' and bool(f['case'].get('reverted_during_open_cycle'))


def gen(r, i):
    return cs.gen_scenario(r, n_actions=14, daemons=(i % 4 == 0))


def run(ctx: fw.Ctx) -> int:
    ctx.matchers = {'F13': match_f13, 'F14': match_f14, 'F15': match_f15, 'F6': match_f6}
    ctx.proofs(extra=['Props/C02History.v'])
    trace_tie(ctx)
    cr.run_histories(ctx, ctx.scale(400, 8000), MONITORS, gen=gen)
    return ctx.finish(RULE, level_note=['closed loop: real kopf.operator() against harness/kv/fakeapi.py (Kubernetes rules assumed there)'])


def trace_tie(ctx: fw.Ctx) -> None:
    """T-tie: histories of the real operator, replayed label by label (with state checks after every worker cycle)
    by the Gallina acceptor of Model/CycleWorld.v.  The monitors run on the same histories."""
    ok, logtxt = fw.build_models(['Model/CycleWorld.v'])
    if not ok:
        ctx.correspondence_break('model build', logtxt[-1500:])
        return
    import json
    scenarios = [json.loads(p.read_text()) for p in sorted((fw.ROOT / 'corpus' / 'C03').glob('*.json'))]
    scenarios = [s for s in scenarios if all(h['kind'] in ('create', 'update', 'daemon') for h in s['handlers'])
                 and not [a for a in s['actions'] if a['a'] in ('recreate', 'delete')] and not s['cfg'].get('latency')]
    for _ in range(ctx.scale(150, 3000)):
        scenarios.append(cw_tie.gen_scenario(ctx.rng))
    cases = []
    for sc in scenarios:
        run = cw_tie.run_scenario(sc)
        try:
            case, why = cw_tie.case_for(run, 'obj1')
            ctx.count('T_cycle_world', 'replayable' if case is not None else f'skipped: {why}')
            if case is not None:
                cases.append(case)
                ctx.cov['traces_validated_against_impl'] += 1
                ctx.count('T_labels', str(min(len(case.data['items']) // 20 * 20, 200)) + '+')
                ctx.nontriv(sc)
            for m in MONITORS:
                m(ctx, run)
        finally:
            cs.close(run)
    ctx.differential('T_cycle_world', cw_tie.HEADER, cases, shard=40)


def replay(ctx: fw.Ctx, body: dict) -> bool:
    ctx.matchers = {'F13': match_f13, 'F14': match_f14, 'F15': match_f15, 'F6': match_f6}
    return cr.replay_scenario(ctx, body, MONITORS)
