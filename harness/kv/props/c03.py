"""C03 — level-triggered convergence across changes, restarts and downtime."""
from __future__ import annotations

from kv import cw_tie, cycle_monitors as cm, cycle_runner as cr, cycle_sim as cs, framework as fw

RULE = cr.RULE_HISTORY
MONITORS = [cm.mon_c03, cm.mon_c03_downtime, cm.mon_c03_deletion]


def match_f13(f: dict) -> bool:
    """F13: an essential change that arrives while an update cycle is open is absorbed: handlers that had already
    finished in that cycle never see it, yet the cycle closes with the newest essence as last-handled."""
    return f['sig'] in ('handler-missed', 'handled-stale-state') and bool(f['case'].get('absorbed_by_open_cycle')) \
        and not f['case'].get('stuck_after_conflict')


def match_f14(f: dict) -> bool:
    """F14: after a 422 on the framework's JSON-patch (stale event re-issuing a finalizer edit) the carried-over
    transformation makes the next cycle skip change handling; when it then yields no operation nothing re-triggers."""
    return f['sig'] in ('records-left', 'last-handled-stale', 'handler-missed') and bool(f['case'].get('stuck_after_conflict'))


def match_f6(f: dict) -> bool:
    """F6 (recorded under C08): records computed for a previous object of the same name landed on this one."""
    return f['sig'] in ('records-left', 'last-handled-stale', 'handler-missed', 'handled-stale-state') and bool(f['case'].get('orphan_records') or f['case'].get('f6_landing'))


def match_f15(f: dict) -> bool:
    """F15: an essential change is reverted while its update cycle is still open: the cause becomes a no-op, nothing
    purges the progress records of the abandoned cycle, they stay on the object until the next essential change."""
    return f['sig'] == 'records-left' and bool(f['case'].get('reverted_during_open_cycle'))


def match_f702(f: dict) -> bool:
    """F702 (recorded under C09), seen from the closed loop: the daemon of an object that disappeared (forced removal) gets
    the stop flag at most, never the cancellation or abandonment - no further cycle exists and the memory is forgotten, so
    the daemon killer cannot reach it either; when it also swallows a cancellation, the graceful stop of the operator waits
    for it without limit (the final 'hung tasks' sweep cancels once and then waits)."""
    return (f['sig'] == 'crash' and 'graceful stop did not finish' in str(f.get('observed'))
            and bool(f['case'].get('orphaned_unstoppable_daemons'))
            and any(h['kind'] == 'daemon' and h.get('temper') == 'ignores' for h in f['case']['scenario']['handlers']))


def gen_burst(r):
    """Retrying handlers and foreign non-essential writes that race the operator's own patches: several stale watch events
    in a row between a PATCH of the operator and its echo (the worker must keep waiting for its own version)."""
    hs = [{'kind': r.choice(['create', 'update']), 'id': 'h0', 'script': r.choice([['temp:1', 'ok'], ['temp:1', 'temp:1', 'ok'], ['temp:2', 'ok']]),
           'kwargs': {'backoff': 1}}]
    if r.random() < 0.5:
        hs.append({'kind': 'update', 'id': 'u1', 'script': ['ok'], 'kwargs': {'backoff': 1}})
    if r.random() < 0.5:
        hs.append({'kind': 'create', 'id': 'c1', 'script': r.choice([['ok'], ['temp:1', 'ok']]), 'kwargs': {'backoff': 1}})
    acts = [{'a': 'create', 'obj': 'obj1', 'spec': {'a': 1}}]
    for _ in range(r.choice([1, 2, 3])):
        acts.append({'a': 'foreign_burst', 'obj': 'obj1', 'nth': r.choice([1, 1, 2]), 'count': r.choice([2, 2, 3]), 'patch': {'a': r.randrange(500, 600)}})
        acts.append({'a': 'run', 'dt': r.choice([0.5, 1, 3])})
    cfg = cs.gen_cfg(r)
    cfg['latency'] = r.choice([0.125, 0.125, 0])
    return {'cfg': cfg, 'handlers': hs, 'actions': acts}


def gen_deletion(r):
    """Deletion as the outstanding change: several deletion handlers (run one per cycle under the default lifecycle), handlers
    that ask for a retry with NO delay (`TemporaryError(delay=0)`, an arbitrary error with backoff=0), deletion requested while
    an update cycle is open or the operator is down, restarts in the middle of the deletion."""
    hs = [{'kind': 'create', 'id': 'c0', 'script': ['ok'], 'kwargs': {'backoff': 1}}]
    if r.random() < 0.5:
        hs.append({'kind': 'update', 'id': 'u0', 'script': r.choice([['ok'], ['temp:1', 'ok']]), 'kwargs': {'backoff': 1}})
    for i in range(r.choice([1, 2, 2, 3])):
        hs.append({'kind': 'delete', 'id': f'd{i}', 'script': r.choice([['ok'], ['ok'], ['temp:0', 'ok'], ['err', 'ok'], ['temp:1', 'ok'], ['temp:0', 'temp:0', 'ok']]),
                   'kwargs': {'backoff': r.choice([0, 0, 1]), **({'optional': True} if r.random() < 0.15 else {})}})
    acts = [{'a': 'create', 'obj': 'obj1', 'spec': {'a': 1}}, {'a': 'run', 'dt': r.choice([0.5, 2])}]
    if r.random() < 0.5:
        acts += [{'a': 'edit_spec', 'obj': 'obj1', 'patch': {'a': r.randrange(600, 700)}}, {'a': 'run', 'dt': r.choice([0.125, 0.5, 2])}]
    if r.random() < 0.3:
        acts.append({'a': 'foreign_fin_add', 'obj': 'obj1', 'fin': 'other/fin'})
    acts.append({'a': 'delete', 'obj': 'obj1'})
    for _ in range(r.choice([1, 2, 3])):
        acts.append({'a': 'run', 'dt': r.choice([0.125, 0.5, 1, 3])})
        x = r.random()
        if x < 0.25:
            acts.append({'a': r.choice(['stop_restart', 'kill_restart']), 'obj': 'obj1'})
        elif x < 0.45:
            acts.append({'a': 'edit_status', 'obj': 'obj1', 'status': {'external': r.randrange(100)}})
        elif x < 0.55:
            acts.append({'a': 'foreign_fin_del', 'obj': 'obj1', 'fin': 'other/fin'})
    acts.append({'a': 'run', 'dt': 8})
    cfg = cs.gen_cfg(r)
    return {'cfg': cfg, 'handlers': hs, 'actions': acts}


def gen_field_switch(r):
    """The set of selected handlers changes while a cycle of the same kind is open: field handlers on different fields, one of
    them waiting for its retry when the next edit takes its field back and changes another one (its unfinished record is of a
    handler that is no longer selected; the cycle of the handlers that ARE selected must still close)."""
    n_edits = r.choice([1, 2, 3])
    # the script position advances with every invocation: 'ok' at creation, then one failure per edit of spec.a, so that the
    # handler is waiting for its retry (2 s) whenever the following edit (0.125-1 s later) takes spec.a back
    fa = {'kind': 'field', 'id': 'fa', 'script': ['ok'] + ['temp:2'] * n_edits + ['ok'], 'kwargs': {'field': 'spec.a'}}
    fb = {'kind': 'field', 'id': 'fb', 'script': r.choice([['ok'], ['ok'], ['temp:1', 'ok']]), 'kwargs': {'field': 'spec.b'}}
    hs = [fa, fb]
    if r.random() < 0.3:
        hs.append({'kind': 'update', 'id': 'u0', 'script': ['ok'], 'kwargs': {'backoff': 1}})
    acts = [{'a': 'create', 'obj': 'obj1', 'spec': {'a': 1, 'b': {'c': 'x'}}}, {'a': 'run', 'dt': r.choice([2, 8])}]
    v = 1
    for k in range(n_edits):
        nv = r.randrange(700, 800)
        acts += [{'a': 'edit_spec', 'obj': 'obj1', 'patch': {'a': nv}}, {'a': 'run', 'dt': r.choice([0.125, 0.5, 1])}]
        back = r.random() < 0.7
        acts += [{'a': 'edit_spec', 'obj': 'obj1', 'patch': {'a': v if back else nv, 'b': {'c': r.choice(['p', 'q', 'r']) + str(k)}}},
                 {'a': 'run', 'dt': r.choice([0.5, 3, 8])}]
        v = v if back else nv
        if r.random() < 0.2:
            acts.append({'a': r.choice(['stop_restart', 'kill_restart']), 'obj': 'obj1'})
    acts.append({'a': 'run', 'dt': 8})
    return {'cfg': cs.gen_cfg(r), 'handlers': hs, 'actions': acts}


def gen(r, i):
    if i % 6 == 5:
        return gen_burst(r)
    if i % 12 == 3:
        return gen_field_switch(r)
    if i % 6 == 4:
        return gen_deletion(r)
    return cs.gen_scenario(r, n_actions=14, daemons=(i % 4 == 0))


def run(ctx: fw.Ctx) -> int:
    ctx.matchers = {'F13': match_f13, 'F14': match_f14, 'F15': match_f15, 'F6': match_f6, 'F702': match_f702}
    ctx.proofs(extra=['Props/C02History.v'])
    trace_tie(ctx)
    retrigger_layer(ctx)
    cr.run_histories(ctx, ctx.scale(400, 8000), MONITORS, gen=gen)
    return ctx.finish(RULE, level_note=['closed loop: real kopf.operator() against harness/kv/fakeapi.py (Kubernetes rules assumed there)'])


def trace_tie(ctx: fw.Ctx) -> None:
    """T-tie: histories of the real operator, replayed label by label (with state checks after every worker cycle)
    by the Gallina acceptor of Model/CycleWorld.v.  The monitors run on the same histories."""
    ok, logtxt = fw.build_models(['Model/CycleWorld.v'])
    if not ok:
        ctx.correspondence_break('model build', logtxt[-1500:])
        return
    import json
    scenarios = [json.loads(p.read_text()) for p in sorted((fw.ROOT / 'corpus' / 'C03').glob('*.json'))]
    scenarios = [s for s in scenarios if all(h['kind'] in ('create', 'update', 'daemon') for h in s['handlers'])
                 and not [a for a in s['actions'] if a['a'] in ('recreate', 'delete')] and not s['cfg'].get('latency')]
    for _ in range(ctx.scale(150, 3000)):
        scenarios.append(cw_tie.gen_scenario(ctx.rng))
    cases = []
    for sc in scenarios:
        run = cw_tie.run_scenario(sc)
        try:
            case, why = cw_tie.case_for(run, 'obj1')
            ctx.count('T_cycle_world', 'replayable' if case is not None else f'skipped: {why}')
            if case is not None:
                cases.append(case)
                ctx.cov['traces_validated_against_impl'] += 1
                ctx.count('T_labels', str(min(len(case.data['items']) // 20 * 20, 200)) + '+')
                ctx.nontriv(sc)
            for m in MONITORS:
                m(ctx, run)
        finally:
            cs.close(run)
    ctx.differential('T_cycle_world', cw_tie.HEADER, cases, shard=40)
    calm_states_met(ctx, cases)


def calm_states_met(ctx: fw.Ctx, cases: list) -> None:
    """Non-vacuity of the liveness theorem against the real operator: count the states of the recorded histories that
    satisfy `calmb` (a decision procedure proved sound for the theorem's hypothesis `calm`).  Statistics only."""
    import re
    terms = [c.extra['calm_term'] for c in cases if 'calm_term' in c.extra]
    if not terms:
        return
    header = cw_tie.HEADER + 'From KV Require Import Proofs.CycleCalm.\n'
    hits: list[int] = []
    for i in range(0, len(terms), 40):
        out = fw.coq_show(ctx.work, f'calm_{i}', header, ['[' + '; '.join(terms[i:i + 40]) + ']'])
        hits += [int(x) for x in re.findall(r'\d+', out[0].split(':')[0])] if out and not out[0].startswith('(coqc failed') else []
    ctx.cov['calm_states_in_recorded_histories'] = {'histories': len(terms), 'evaluated': len(hits),
                                                    'histories_with_a_calm_state': sum(1 for h in hits if h > 0), 'calm_states': sum(hits)}
    ctx.count('T_calm_states', 'histories-with-calm-state', sum(1 for h in hits if h > 0))
    ctx.count('T_calm_states', 'histories-without', sum(1 for h in hits if h == 0))


RETRIGGER_SIGS = {'touch-decision', 'no-sleep', 'slept-after-patch', 'applied-flag'}


def retrigger_layer(ctx: fw.Ctx) -> None:
    """Function level: the sleep-and-touch re-triggering of application.apply (theorems C03_unfinished_cycle_retriggers,
    C03_quiet_only_when_done over Model/PatchObj.v).  Under virtual time no instant passes inside a worker cycle, so the
    closed loop never reaches `delays == [0]` with an empty patch (a handler that becomes due between the selection and the
    delay calculation); the enumeration of apply's inputs does.  Only the monitors that concern re-triggering count here;
    the rest of apply belongs to C08."""
    from kv.props import c08_model
    ok, logtxt = fw.build_models(['Model/PatchObj.v', 'Model/Causes.v'])
    if not ok:
        ctx.correspondence_break('D:apply_retrigger model build', logtxt[-1500:])
        return
    env = c08_model.Env()
    try:
        c08_model.apply_layer(ctx, env, set(), tie='apply_retrigger', sigs=RETRIGGER_SIGS)
    finally:
        env.close()


def replay(ctx: fw.Ctx, body: dict) -> bool:
    ctx.matchers = {'F13': match_f13, 'F14': match_f14, 'F15': match_f15, 'F6': match_f6, 'F702': match_f702}
    if 'scenario' not in (body.get('case') or {}) and (body.get('case') or {}).get('fn') == 'apply':
        from kv.props import c08_model
        fctx = c08_model.SigFilter(ctx, RETRIGGER_SIGS)
        env = c08_model.Env()
        try:
            c08_model.monitor_apply(fctx, c08_model.run_apply(env, {k: v for k, v in body['case'].items() if k not in ('requests', 'outcome', 'sleeps', 'request')}))
        finally:
            env.close()
        for f in ctx.failures:
            print('  still failing:', f['sig'], '-', f['what'])
        return bool(ctx.failures)
    return cr.replay_scenario(ctx, body, MONITORS)
