"""C06, function level, the daemon/timer clause ("... a matching daemon/timer that has neither exited nor been
abandoned after its timeouts"): ties of coq/Model/FinalizersDaemon.v to the real code.

D fd_stop    the REAL daemons.stop_daemons on one real Daemon record (real handler from kopf.daemon/kopf.timer with a
             grid of cancellation_backoff/timeout/polling, real DaemonStopper pre-set at a chosen `when` with chosen
             reasons, scripted task: done on entry / finishes within the instant-exit wait after the flag, the signal,
             the cancel) under a virtual-time loop, for both reasons (RESOURCE_DELETED, FILTERS_MISMATCH): stopper
             afterwards, task.cancel() called, delays, outcome.
T fd_trace   the REAL process_resource_event with REAL daemons (spawn_daemons/match_daemons/stop_daemons, _runner, real
             asyncio tasks) for one object under virtual time: the daemon function obeys the flag / obeys late / only
             dies of cancellation / survives cancellation (-> abandoned) / exits on its own; time passes between cycles;
             foreign finalizer edits, label edits (filter mismatch), deletion, 422s, restarts.  Replayed in the timed
             Gallina acceptor (fd_replay): every label enabled; finalizers, deletionTimestamp, carried fns, the daemon's
             state (running / stopping / abandoned / no task), its stopper (when + reasons) and forever_stopped equal.
Monitors: an accepted release of a deleting object happens only when the daemon task has finished or
backoff+timeout have elapsed since the stop was requested (harness's own clock reading); the task is not cancelled
before the backoff is over; at the end the finalizer is gone unless an unstoppable daemon without timeout holds it.
"""
from __future__ import annotations

import asyncio
import copy
import itertools
import json
from typing import Any

from kv import coqio as cq, framework as fw, vloop
from kv.props import c06_model as m
from kv.props import c06_trace as tr

FIN = m.FIN
MODEL = 'Model/FinalizersDaemon.v'
HEADER = fw.STD_HEADER + 'From KV Require Import Base.Dicts Model.Finalizers Model.FinalizersDaemon.\n'


def coz(x: Any) -> str:
    return 'None' if x is None else f'(Some {cq.cZ(int(x))})'


def chcfg(backoff: Any, timeout: Any, polling: Any) -> str:
    return f'{{| d_backoff := {coz(backoff)}; d_timeout := {coz(timeout)}; d_polling := {cq.cZ(int(polling))} |}}'


def cstopper(when: Any, deleted: bool, mismatch: bool, sig: bool, canc: bool, aband: bool) -> str:
    return (f'{{| w_when := {coz(when)}; w_deleted := {cq.cbool(deleted)}; w_mismatch := {cq.cbool(mismatch)}; '
            f'w_sig := {cq.cbool(sig)}; w_canc := {cq.cbool(canc)}; w_aband := {cq.cbool(aband)} |}}')


def stopper_term(env: m.Env, st: Any) -> str:
    R = env_reasons(env)
    rs = st.reason
    has = lambda x: bool(rs is not None and x in rs)      # noqa: E731
    return cstopper(st.when, has(R.RESOURCE_DELETED), has(R.FILTERS_MISMATCH), has(R.DAEMON_SIGNALLED), has(R.DAEMON_CANCELLED),
                    has(R.DAEMON_ABANDONED))


def env_reasons(env: m.Env) -> Any:
    from kopf._core.intents import stoppers
    return stoppers.DaemonStoppingReason


# ------------------------------------------------------------------------------------------------
# D: stop_daemons on one daemon
# ------------------------------------------------------------------------------------------------

class ScriptedTask:
    """daemon.task: done() follows the script (see module docstring)."""

    def __init__(self, stopper: Any, reason: Any, R: Any, done0: bool, i1: bool, i2: bool, i3: bool) -> None:
        self.st, self.reason, self.R = stopper, reason, R
        self.done0, self.i1, self.i2, self.i3 = done0, i1, i2, i3
        self.had_reason = stopper.is_set(reason=reason)
        self.had_sig = stopper.is_set(reason=R.DAEMON_SIGNALLED)
        self.cancel_called = False

    def done(self) -> bool:
        return bool(self.done0
                    or (self.i1 and not self.had_reason and self.st.is_set(reason=self.reason))
                    or (self.i2 and not self.had_sig and self.st.is_set(reason=self.R.DAEMON_SIGNALLED))
                    or (self.i3 and self.cancel_called))

    def cancel(self, msg: Any = None) -> bool:
        self.cancel_called = True
        return True


def run_stop(ctx: fw.Ctx, env: m.Env, n: int, only: list | None = None) -> list[fw.Case]:
    from kopf._core.engines import daemons
    r = ctx.rng
    R = env_reasons(env)
    loop = vloop.VLoop()
    cases: list[fw.Case] = []
    handlers: dict[tuple, Any] = {}

    def handler(kind: str, b: Any, t: Any, p: Any) -> Any:
        key = (kind, b, t, p)
        if key not in handlers:
            reg = env.registries.OperatorRegistry()

            async def fn(**_: Any) -> None:
                return None
            if kind == 'daemon':
                env.kopf.daemon('kopfexamples', registry=reg, id='d', cancellation_backoff=b, cancellation_timeout=t,
                                cancellation_polling=p)(fn)
            else:
                env.kopf.timer('kopfexamples', registry=reg, id='d', interval=1)(fn)
            handlers[key] = reg._spawning.get_all_handlers()[0]
        return handlers[key]

    grid = list(itertools.product(['daemon', 'daemon', 'timer'], [None, 0, 3, 5], [None, 0, 4, 10], [None, 7],
                                  ['deleted', 'mismatch'],
                                  ['fresh', 'flagged', 'flagged-other', 'signalled', 'cancelled', 'abandoned'],
                                  [0, 1, 2, 3, 4, 5, 6, 9, 10, 13, 14, 15, 20],
                                  [(False, False, False, False), (True, False, False, False), (False, True, False, False),
                                   (False, False, True, False), (False, False, False, True)]))
    r.shuffle(grid)
    base = 0
    try:
        if only is not None:
            grid = [(c['kind'], c['backoff'], c['timeout'], c['polling'], c['reason'], c['stopper'], c['age'],
                     (c['done_on_entry'], c['instant_exit_after'] == 'flag', c['instant_exit_after'] == 'signal', c['instant_exit_after'] == 'cancel'))
                    for c in only]
            n = len(grid)
        for (kind, b, t, p, why, pre, age, (done0, i1, i2, i3)) in grid[:n]:
            base += 100
            h = handler(kind, b, t, p)
            eff_b, eff_t = (b, t) if kind == 'daemon' else (None, None)
            eff_p = (p or env.settings.background.cancellation_polling) if kind == 'daemon' else env.settings.background.cancellation_polling
            reason = R.RESOURCE_DELETED if why == 'deleted' else R.FILTERS_MISMATCH
            other = R.FILTERS_MISMATCH if why == 'deleted' else R.RESOURCE_DELETED
            st = daemons.stoppers.DaemonStopper()
            when = base
            now = base + age

            async def prepare() -> None:
                if pre == 'fresh':
                    return
                st.set(reason=other if pre == 'flagged-other' else reason)
                if pre in ('signalled', 'cancelled', 'abandoned'):
                    st.set(reason=R.DAEMON_SIGNALLED)
                if pre in ('cancelled', 'abandoned'):
                    st.set(reason=R.DAEMON_CANCELLED)
                if pre == 'abandoned':
                    st.set(reason=R.DAEMON_ABANDONED)
            loop.advance_to(when)
            loop.run_until_complete(prepare())
            w0 = stopper_term(env, st)
            task = ScriptedTask(st, reason, R, done0, i1, i2, i3)
            d = daemons.Daemon(task=task, logger=env.logger, handler=h, stopper=st)      # type: ignore[arg-type]
            loop.advance_to(now)
            import warnings
            with warnings.catch_warnings():
                warnings.simplefilter('ignore')
                delays = loop.run_until_complete(daemons.stop_daemons(settings=env.settings, daemons={'d': d}, reason=reason))
            out = 'SStill' if delays else ('SExited' if task.done() else 'SAbandoned')
            call = (f'fd_stop {chcfg(eff_b, eff_t, eff_p)} {"WDeleted" if why == "deleted" else "WMismatch"} {cq.cZ(now)} {w0} '
                    f'{cq.cbool(done0)} {cq.cbool(i1)} {cq.cbool(i2)} {cq.cbool(i3)}')
            term = f'fd_res_eqb ({call}) {stopper_term(env, st)} {cq.cbool(task.cancel_called)} {m.czs(delays)} {out}'
            data = {'layer': 'function', 'what': 'stop', 'kind': kind, 'backoff': b, 'timeout': t, 'polling': p, 'reason': why, 'stopper': pre,
                    'age': age, 'done_on_entry': done0, 'instant_exit_after': 'flag' if i1 else 'signal' if i2 else 'cancel' if i3 else None,
                    'observed': {'delays': [float(x) for x in delays], 'outcome': out, 'cancel': task.cancel_called}}
            cases.append(fw.Case(term, data, diag=call))
            ctx.count('stop_outcome', out)
            ctx.count('stop_stage', 'done' if done0 else 'backoff' if (eff_b is not None and age < eff_b) else
                      'timeout' if (eff_t is not None and age < eff_t + (eff_b or 0)) else 'abandon' if eff_t is not None else 'polling')
            # ---- monitors: the property's clause on this call (the harness's own arithmetic)
            running = not task.done()
            pre_age = 0 if pre == 'fresh' else age
            if running and not delays and (eff_t is None or pre_age < (eff_b or 0) + eff_t):
                ctx.fail('a running daemon stops holding the finalizer before its backoff+timeout are over (or without any timeout)', data,
                         sig='fn-daemon-released-early')
            if task.cancel_called and pre_age < (eff_b or 0):
                ctx.fail('a daemon task is cancelled before its cancellation_backoff is over', data, sig='fn-daemon-cancelled-early')
            if eff_t is not None and pre_age >= (eff_b or 0) + eff_t and delays:
                ctx.fail('a daemon still holds the finalizer after backoff+timeout are over', data, sig='fn-daemon-held-late')
            if out != 'SStill' or pre != 'fresh':
                ctx.nontriv(['stop', kind, b, t, why, pre, age, done0, i1, i2, i3])
    finally:
        loop.close()
    return cases


# ------------------------------------------------------------------------------------------------
# T: process_resource_event with real daemons under virtual time
# ------------------------------------------------------------------------------------------------

BEHAVIOURS = ['obedient', 'late', 'cancellable', 'stubborn', 'selfexit']


class DWorld(tr.World):
    def __init__(self, env: m.Env, sc: dict) -> None:
        scripts = {tuple(k.split(':')): v for k, v in sc['scripts'].items()}
        self.dvariant = sc['variant']                    # 'daemon' (D filtered by label, no H) | 'daemon+h' (D and H unfiltered)
        super().__init__(env, 'nofilter' if self.dvariant == 'daemon+h' else 'optional', scripts, sc['labelled'], sc['foreign'])
        self.loop = vloop.VLoop()
        self.behaviour = sc['behaviour']
        self.backoff, self.timeout = sc['backoff'], sc['timeout']
        self.d_filtered = self.dvariant == 'daemon'
        kw: dict[str, Any] = {'labels': {'app': 'x'}} if self.d_filtered else {}
        self.release_evt: asyncio.Event | None = None
        self.never: asyncio.Event | None = None
        self.tasks: list[Any] = []
        w = self

        async def dfn(stopped: Any, **_: Any) -> None:
            assert w.never is not None
            rel = asyncio.Event()
            w.starts += 1
            # the harness's own registry of the daemon invocations the framework started, and of their exits
            inv = {'n': w.starts, 'rel': rel, 'stopped': stopped, 'started': w.loop.time(), 'exited': None, 'flag_at': None}
            w.invs.append(inv)
            try:
                if w.behaviour == 'obedient':
                    await stopped.wait()
                elif w.behaviour == 'late':
                    await stopped.wait()
                    await rel.wait()
                elif w.behaviour == 'cancellable':
                    await w.never.wait()
                elif w.behaviour == 'stubborn':
                    while not rel.is_set():
                        try:
                            await rel.wait()
                        except asyncio.CancelledError:
                            w.swallowed += 1
                else:
                    await rel.wait()
            finally:
                inv['exited'] = w.loop.time()
        self.invs: list[dict] = []
        self.starts = 0
        self.swallowed = 0
        env.kopf.daemon('kopfexamples', registry=self.reg, id='d', cancellation_backoff=self.backoff,
                        cancellation_timeout=self.timeout, **kw)(dfn)
        self.c_dmn = True
        self.i = (False, False, False)
        self.pre: dict = {}
        self.stop_log: list[dict] = []

    # ---- the daemon as the real memory shows it
    def dmem(self) -> Any:
        mems = list(self.memories._items.values())
        return mems[0].daemons_memory if mems else None

    def daemon(self) -> Any:
        dm = self.dmem()
        return dm.running_daemons.get('d') if dm is not None else None

    def dstate(self) -> str:
        d = self.daemon()
        R = env_reasons(self.env)
        if d is None:
            return 'DIdle'
        if not d.stopper.is_set():
            return 'DLive'
        return 'DAbandoned' if d.stopper.is_set(reason=R.DAEMON_ABANDONED) else 'DStopping'

    def mdmn_of(self, labelled: bool) -> bool:
        return labelled if self.d_filtered else True

    def verdict_on_label(self) -> bool:
        return self.d_filtered

    def cfg(self) -> str:
        return (f'{{| c_own := {cq.cstr(FIN)}; c_del := {cq.cbool(self.c_del)}; c_dmn := true; '
                f'c_shared := {cq.cbool(self.c_shared)} |}}')

    def hcfg(self) -> str:
        return chcfg(self.backoff, self.timeout, self.env.settings.background.cancellation_polling)

    def obs(self) -> str:
        doc = self.srv.doc
        d = self.daemon()
        dm = self.dmem()
        wt = stopper_term(self.env, d.stopper) if d is not None else cstopper(None, False, False, False, False, False)
        return (f'(Some {{| q_alive := {cq.cbool(doc is not None)}; q_fins := {cq.clist(cq.cstr(x) for x in self.srv.fins())}; '
                f'q_deleting := {cq.cbool(bool(doc and doc["metadata"].get("deletionTimestamp")))}; q_carried := {m.cfns(self.carried())}; '
                f'q_daemon := {self.dstate()}; q_w := {wt}; q_forever := {cq.cbool(bool(dm and "d" in dm.forever_stopped))} |}})')

    def wrap(self, label: str) -> str:
        i1, i2, i3 = self.i if label.startswith('LCycle') else (False, False, False)
        return f'TBase ({label}) {cq.cbool(i1)} {cq.cbool(i2)} {cq.cbool(i3)}'

    def flags(self) -> dict:
        d = self.daemon()
        R = env_reasons(self.env)
        if d is None:
            return {'in': False}
        s = d.stopper
        return {'in': True, 'task': d.task, 'stopper': s, 'when': s.when, 'del': s.is_set(reason=R.RESOURCE_DELETED),
                'mis': s.is_set(reason=R.FILTERS_MISMATCH), 'sig': s.is_set(reason=R.DAEMON_SIGNALLED),
                'canc': s.is_set(reason=R.DAEMON_CANCELLED), 'aband': s.is_set(reason=R.DAEMON_ABANDONED)}

    def before_cycle(self) -> None:
        if self.release_evt is None:
            self.release_evt, self.never = asyncio.Event(), asyncio.Event()
        self.pre = self.flags()
        self.i = (False, False, False)

    def after_cycle_run(self) -> None:
        pre = self.pre
        d = self.daemon()
        now = self.loop.time()
        for inv in self.invs:             # when did each invocation get ITS stop request (its own `stopped` kwarg)
            if inv['flag_at'] is None and inv['exited'] is None and bool(inv['stopped']):
                inv['flag_at'] = now
        self.write_extra = {'daemon_alive': bool(d is not None and not d.task.done()),
                            'stop_requested_at': d.stopper.when if d is not None else None,
                            'live_invocations': [{'n': v['n'], 'started': v['started'], 'stop_requested_at': v['flag_at']}
                                                 for v in self.invs if v['exited'] is None]}
        if not pre.get('in'):
            if d is not None and d.task not in self.tasks:
                self.tasks.append(d.task)
            return
        s, task = pre['stopper'], pre['task']
        R = env_reasons(self.env)
        new_flag = (s.is_set(reason=R.RESOURCE_DELETED) and not pre['del']) or (s.is_set(reason=R.FILTERS_MISMATCH) and not pre['mis'])
        new_sig = s.is_set(reason=R.DAEMON_SIGNALLED) and not pre['sig']
        new_canc = s.is_set(reason=R.DAEMON_CANCELLED) and not pre['canc']
        new_aband = s.is_set(reason=R.DAEMON_ABANDONED) and not pre['aband']
        done = task.done()
        if done:
            self.i = (False, False, True) if new_canc else (False, True, False) if new_sig else (True, False, False) if new_flag else (False, False, False)
        now = self.loop.time()
        self.stop_log.append({'t': now, 'when': s.when, 'new_flag': bool(new_flag), 'new_sig': bool(new_sig), 'new_canc': bool(new_canc),
                              'new_aband': bool(new_aband), 'task_done': bool(done)})

    # ---- extra actions
    def tick(self, dt: int) -> None:
        self.loop.advance_by(dt)
        self.trace.append((f'TTick {cq.cZ(dt)}', None))
        self.readable.append({'do': 'tick', 'dt': dt, 't': self.loop.time()})

    def spin(self) -> None:
        for _ in range(6):
            self.loop.run_until_complete(asyncio.sleep(0))

    def daemon_finish(self, oldest_only: bool = False) -> None:
        """The daemon function returns now (if it is of a kind that waits for this)."""
        before = self.dstate()
        live = [v for v in self.invs if v['exited'] is None]
        for v in (live[:1] if oldest_only else live):
            v['rel'].set()
        self.spin()
        if before != 'DIdle' and self.dstate() == 'DIdle':
            self.trace.append((self.wrap('LDaemonExit'), self.obs()))
        self.readable.append({'do': 'daemon_finish', 'oldest_only': oldest_only, 'from': before, 'to': self.dstate(),
                              'invocations_alive': [v['n'] for v in self.invs if v['exited'] is None]})

    def kill_tasks(self) -> None:
        for v in self.invs:
            v['rel'].set()
        for _ in range(3):
            for t in asyncio.all_tasks(self.loop):
                if not t.done():
                    t.cancel()
            self.spin()
        now = self.loop.time()
        for v in self.invs:
            if v['exited'] is None:
                v['exited'] = now

    def restart(self) -> None:
        self.kill_tasks()
        super().restart()

    def close(self) -> None:
        import warnings
        with warnings.catch_warnings():
            warnings.simplefilter('ignore')
            self.kill_tasks()
            self.loop.close()


def gen_rematch(r: Any, i: int) -> dict:
    """The family: a filtered daemon hangs; the object stops matching -> staged stop -> abandoned while alive; the object matches again;
    the hung task exits later (or not); deletion; the staged stop of whatever runs then."""
    backoff = r.choice([None, 0, 3])
    timeout = r.choice([4, 4, 10])
    bo = backoff or 0
    acts: list[dict] = [{'do': 'cycle'}, {'do': 'cycle'}, {'do': 'label', 'on': False}, {'do': 'cycle'}]
    if bo:
        acts += [{'do': 'tick', 'dt': bo}, {'do': 'cycle'}]
    acts += [{'do': 'tick', 'dt': timeout}, {'do': 'cycle'}]                      # abandoned, still alive
    acts += [{'do': 'label', 'on': True}, {'do': 'cycle'}]                       # matches again
    if r.random() < 0.5:
        acts += [{'do': 'tick', 'dt': r.choice([1, 2])}, {'do': 'cycle'}]
    order = r.choice(['exit-then-delete', 'exit-then-delete', 'delete-then-exit', 'no-exit'])
    if order == 'exit-then-delete':
        acts += [{'do': 'daemon_finish', 'oldest_only': True}, {'do': 'cycle'}, {'do': 'delete'}, {'do': 'cycle'}]
    elif order == 'delete-then-exit':
        acts += [{'do': 'delete'}, {'do': 'cycle'}, {'do': 'daemon_finish', 'oldest_only': True}, {'do': 'cycle'}]
    else:
        acts += [{'do': 'delete'}, {'do': 'cycle'}]
    for dt in [max(bo - 1, 0), 1 if bo else 0, timeout - 1, 1, 2]:
        if dt:
            acts.append({'do': 'tick', 'dt': dt})
        acts.append({'do': 'cycle'})
    acts += [{'do': 'cycle'}]
    return {'variant': 'daemon', 'behaviour': 'stubborn', 'backoff': backoff, 'timeout': timeout, 'scripts': {'h:delete': ['ok']},
            'labelled': True, 'foreign': r.choice([[], ['example.com/a']]), 'actions': acts, 'family': 'rematch:' + order}


def gen_scenario(r: Any, i: int) -> dict:
    if i % 6 == 5:
        return gen_rematch(r, i)
    variant = ['daemon', 'daemon+h'][i % 2]
    behaviour = BEHAVIOURS[(i // 2) % len(BEHAVIOURS)]
    backoff = r.choice([None, 0, 3, 5])
    timeout = r.choice([None, 4, 10]) if behaviour != 'stubborn' else r.choice([4, 10, 10, None])
    scripts = {'h:delete': r.choice([['ok'], ['temp', 'ok'], ['ok']])}
    actions: list[dict] = [{'do': 'cycle'}, {'do': 'cycle'}]
    deleted = False
    for _ in range(r.choice([4, 6, 8])):
        x = r.random()
        if x < 0.35:
            a: dict[str, Any] = {'do': 'cycle'}
            if r.random() < 0.3:
                a['interleave'] = {**tr.gen_foreign(r, deleted), 'before': r.choice([0, 0, 1])}
        elif x < 0.5:
            a = {'do': 'tick', 'dt': r.choice([1, 2, 3, 5, 8])}
        elif x < 0.6:
            a = {'do': 'label', 'on': r.random() < 0.5}
        elif x < 0.68:
            a = {'do': 'daemon_finish', 'oldest_only': r.random() < 0.3}
        elif x < 0.72:
            a = {'do': 'restart'}
        elif x < 0.8 and not deleted:
            a = {'do': 'delete'}
        else:
            a = tr.gen_foreign(r, deleted)
        if a.get('do') == 'delete' or (a.get('interleave') or {}).get('do') == 'delete':
            deleted = True
        actions.append(a)
    # the end game: deletion, then cycles at the instants the staged stop asks for (and one tick before them)
    actions += [{'do': 'cycle'}, {'do': 'delete'}, {'do': 'cycle'}]
    bo, to = backoff or 0, timeout
    ticks = [max(bo - 1, 0), 1 if bo else 0]
    if to is not None:
        ticks += [max(to - 1, 0), 1, r.choice([0, 2])]
    else:
        ticks += [60, 60]
    for dt in ticks:
        if dt:
            actions.append({'do': 'tick', 'dt': dt})
        actions.append({'do': 'cycle'})
    if r.random() < 0.5:
        actions += [{'do': 'daemon_finish'}, {'do': 'cycle'}]
    actions += [{'do': 'cycle'}, {'do': 'cycle'}]
    return {'variant': variant, 'behaviour': behaviour, 'backoff': backoff, 'timeout': timeout, 'scripts': scripts,
            'labelled': r.random() < 0.8, 'foreign': r.choice([[], [], ['example.com/a']]), 'actions': actions}


def run_scenario(env: m.Env, sc: dict) -> DWorld:
    w = DWorld(env, sc)
    for a in sc['actions']:
        if a['do'] == 'cycle':
            w.cycle(a.get('interleave'))
        elif a['do'] == 'tick':
            w.tick(a['dt'])
        elif a['do'] == 'daemon_finish':
            w.daemon_finish(bool(a.get('oldest_only')))
        elif a['do'] == 'restart':
            w.restart()
        else:
            w.foreign_action(a)
    return w


def monitors(ctx: fw.Ctx, sc: dict, w: DWorld) -> None:
    case = {'layer': 'function', 'what': 'dtrace', 'scenario': sc, 'log': w.readable}
    bo, to = (sc['backoff'] or 0), sc['timeout']
    # the stop requests as the harness saw them: first time the stopper got a `when`
    for q in w.writes:
        if q['status'] != 200:
            continue
        fb, fa = q['before'], q['after']
        if [x for x in fa if x != FIN] != [x for x in fb if x != FIN]:
            ctx.fail('a framework write added, dropped or reordered finalizers owned by others', {**case, 'write': q}, observed=fa, expected=fb,
                     sig='fn-foreign-finalizers')
        if FIN in fb and FIN not in fa and q['deleting'] and w.mdmn_of(q['labelled_now']):     # a MATCHING daemon
            # judged from the real tasks: every invocation of the daemon function that the framework started for this object and that has
            # not returned must have been told to stop (its own `stopped` flag) at least backoff+timeout ago
            for v in q.get('live_invocations', []):
                waited = q['t'] - v['stop_requested_at'] if v['stop_requested_at'] is not None else None
                if waited is None or to is None or waited < bo + to:
                    ctx.fail('finalizer removed while a daemon task of this object, started by the framework, is alive and has neither exited nor '
                             'been abandoned after its own stop request' if waited is not None else
                             'finalizer removed while a daemon task of this object, started by the framework, is alive and was never told to stop',
                             {**case, 'write': q, 'invocation': v, 'backoff': sc['backoff'], 'timeout': to,
                              'filters_changed_between_decision_and_write': w.mdmn_of(q['labelled_at_decision']) != w.mdmn_of(q['labelled_now'])},
                             observed={'waited': waited}, sig='released-early-daemon')
                    break
    ctx.count('dtrace_invocations', str(min(len(w.invs), 4)))
    for x in w.stop_log:
        if x['new_canc'] and x['when'] is not None and x['t'] - x['when'] < bo:
            ctx.fail('a daemon task is cancelled before its cancellation_backoff is over', {**case, 'stop': x}, sig='fn-daemon-cancelled-early')
        if x['new_aband'] and (to is None or x['t'] - x['when'] < bo + to):
            ctx.fail('a daemon is declared abandoned before backoff+timeout are over', {**case, 'stop': x}, sig='fn-daemon-abandoned-early')
    doc = w.srv.doc
    if doc is not None and doc['metadata'].get('deletionTimestamp') and FIN in doc['metadata'].get('finalizers', []):
        unstoppable = w.dstate() in ('DLive', 'DStopping') and (to is None)
        if unstoppable:
            ctx.count('dtrace_end', 'held-by-daemon-without-timeout')
        else:
            ctx.fail('object marked for deletion keeps the framework finalizer after everything has finished', case,
                     observed={'daemon': w.dstate(), 'finalizers': doc['metadata'].get('finalizers')}, sig='fn-never-released')
    else:
        ctx.count('dtrace_end', 'released' if doc is None or doc['metadata'].get('deletionTimestamp') else 'not-deleted')


def run_traces(ctx: fw.Ctx, env: m.Env, n: int, only: list | None = None) -> list[fw.Case]:
    r = ctx.rng
    cases: list[fw.Case] = []
    for i in range(n if only is None else len(only)):
        sc = gen_scenario(r, i) if only is None else only[i]
        w = run_scenario(env, sc)
        try:
            monitors(ctx, sc, w)
            mdel = True                                  # H (if registered) is unfiltered in these worlds
            init = (f'(fd_init {w.cfg()} {cq.clist(cq.cstr(x) for x in sc["foreign"])} {cq.cbool(mdel)} '
                    f'{cq.cbool(w.mdmn_of(sc["labelled"]))} 0)')
            hist = cq.clist(f'({lab}, {ob if ob is not None else "None"})' for lab, ob in w.trace)
            term = f'fd_history_ok {w.hcfg()} {w.cfg()} {init} {hist}'
            cases.append(fw.Case(term, {'layer': 'function', 'what': 'dtrace', 'scenario': sc, 'log': w.readable},
                                 diag=f'fd_replay {w.hcfg()} {w.cfg()} {init} {hist} 0'))
            ctx.cov['traces_validated_against_impl'] += 1
            ctx.count('dtrace_variant', f"{sc['variant']}:{sc['behaviour']}")
            ctx.count('dtrace_family', sc.get('family', 'random'))
            ctx.count('dtrace_timing', f"backoff={sc['backoff']},timeout={sc['timeout']}")
            for x in w.stop_log:
                ctx.count('dtrace_stop', 'exit-at-flag' if (x['task_done'] and x['new_flag']) else 'exit-at-signal' if (x['task_done'] and x['new_sig'])
                          else 'exit-at-cancel' if (x['task_done'] and x['new_canc']) else 'abandoned' if x['new_aband'] else
                          'cancelled' if x['new_canc'] else 'signalled' if x['new_sig'] else 'flagged' if x['new_flag'] else 'waiting')
            if any(x['new_canc'] or x['new_aband'] for x in w.stop_log):
                ctx.nontriv(['dtrace', sc])
        finally:
            w.close()
    return cases
