"""C06, function level: the Gallina model coq/Model/Finalizers.v tied to the current kopf source.

D-ties (model and real code run on the same inputs; compared inside Coq by vm_compute):
  fz_ongoing/fz_blocked/fz_block/fz_allow   real finalizers.* on bodies with arbitrary finalizer values
  fz_edit        real Patch(fns=...).as_json_patch(body) composed with the harness's RFC 6902 evaluator (server side)
  fz_patch_obj   real patching.patch_obj against an in-process server (merge-patch, then [test rv] + ops; a foreign
                 write may land between the requests -> 422 -> remaining patch)
  fz_decide      real processing.process_resource_causes with real registries, real cause detection and real bodies;
                 process_spawning_cause / process_changing_cause / the consistency sleep are stubbed oracles whose
                 values are also given to the model; observed: patch.fns, the sleep, the change handling, the result
Monitors (the property text evaluated on what the real functions did; the harness's own reading, neither kopf's logic
nor the model): foreign finalizers equal as a list after every framework edit; own finalizer exactly once after a
block, absent after a release; nothing else in the body changes; a failed test lands nothing; no block while
deleting; release only when nothing is pending and the view is consistent; release when everything is finished;
added iff some matching handler needs it; a refused (422) edit is carried, not dropped.
"""
from __future__ import annotations

import asyncio
import copy
import functools
import itertools
import logging
from typing import Any

from kv import canon, coqio as cq, framework as fw

HEADER = fw.STD_HEADER + 'From KV Require Import Base.Dicts Model.Finalizers.\n'
FIN = 'kopf.zalando.org/KopfFinalizerMarker'
MODEL = 'Model/Finalizers.v'

RULE_FN = ('function level: cases = (body with an arbitrary metadata.finalizers value [own/foreign/duplicates/non-list/'
           'missing metadata] x fn list over {block, allow} x server state [same / moved]) and (registry of delete/'
           'optional-delete/update/event/daemon/timer handlers with filters x body [finalizer present?, deleting?] x '
           'event type x consistency_time x carried patch x oracle delays); non-trivial iff the body has >= 1 foreign '
           'finalizer and the edit changes the list, or the pass appends a fn / is held back by a delay or by '
           'inconsistency; distinct by canonical JSON of the case')


# ------------------------------------------------------------------------------------------------
# encoders
# ------------------------------------------------------------------------------------------------

def cbody(body: Any) -> str:
    """json term of a body; a str-valued metadata.finalizers is kept as a plain JStr (its characters matter:
    Python's `in` is a substring test there), everything else through kv.canon."""
    md = body.get('metadata') if isinstance(body, dict) else None
    if isinstance(md, dict) and isinstance(md.get('finalizers'), str):
        b2 = dict(body)
        b2['metadata'] = dict(md)
        b2['metadata']['finalizers'] = 'placeholder'
        m = canon.to_model(b2)
        m['metadata']['finalizers'] = md['finalizers']
        return canon.cjson_enc(m)
    return canon.cj(body)


def cfns(fns: list[str]) -> str:
    return cq.clist({'block': 'FBlock', 'allow': 'FAllow'}[f] for f in fns)


def czs(zs: Any) -> str:
    return cq.clist(cq.cZ(int(z)) for z in zs)


def cores(kind: str, val: Any) -> str:
    """res (option json)"""
    if kind != 'ok':
        return canon.cres(kind)
    return f'(Ok {"None" if val is None else "(Some " + cbody(val) + ")"})'


# ------------------------------------------------------------------------------------------------
# real kopf objects
# ------------------------------------------------------------------------------------------------

class Env:
    def __init__(self) -> None:
        import kopf
        from kopf._cogs.clients import api, errors, patching
        from kopf._cogs.configs import configuration
        from kopf._cogs.structs import bodies, ephemera, finalizers, patches, references
        from kopf._core.actions import lifecycles
        from kopf._core.engines import indexing
        from kopf._core.intents import causes, registries
        from kopf._core.reactor import inventory, processing
        self.kopf, self.api, self.errors, self.patching, self.configuration = kopf, api, errors, patching, configuration
        self.bodies, self.ephemera, self.finalizers, self.patches, self.references = bodies, ephemera, finalizers, patches, references
        self.lifecycles, self.indexing, self.causes, self.registries = lifecycles, indexing, causes, registries
        self.inventory, self.processing = inventory, processing
        self.settings = configuration.OperatorSettings()
        if self.settings.persistence.finalizer != FIN:
            raise RuntimeError(f'observation point moved: default finalizer is {self.settings.persistence.finalizer!r}')
        self.logger = logging.getLogger('kv.c06')
        self.logger.setLevel(logging.DEBUG)
        self.logger.propagate = False
        for h in list(self.logger.handlers):
            self.logger.removeHandler(h)
        self.logger.addHandler(logging.NullHandler())
        self.loop = asyncio.new_event_loop()

    def resource(self, status_sub: bool) -> Any:
        return self.references.Resource('kopf.dev', 'v1', 'kopfexamples', kind='KopfExample', namespaced=True,
                                        subresources=frozenset(['status']) if status_sub else frozenset())

    def fn(self, kind: str, fin: str = FIN) -> Any:
        return functools.partial(self.finalizers.block_deletion if kind == 'block' else self.finalizers.allow_deletion,
                                 finalizer=fin)

    def kind_of(self, fn: Any) -> str:
        f = getattr(fn, 'func', None)
        if f is self.finalizers.block_deletion:
            return 'block'
        if f is self.finalizers.allow_deletion:
            return 'allow'
        return 'other'

    def close(self) -> None:
        self.loop.close()


# ------------------------------------------------------------------------------------------------
# bodies
# ------------------------------------------------------------------------------------------------

FOREIGN = ['example.com/a', 'b.io/keep', FIN + 'x', FIN[:-1], 'kopf.zalando.org', '123', 'true']

FIN_VALUES: list[Any] = [   # hand-seeded dangerous values of metadata.finalizers ('ABSENT' = key missing)
    'ABSENT', [], [FIN], [FIN, FIN], ['example.com/a', FIN], [FIN, 'example.com/a'], ['example.com/a', FIN, 'b.io/keep'],
    [FIN, 'example.com/a', FIN, 'b.io/keep', FIN], ['example.com/a', 'b.io/keep'], ['example.com/a', 'example.com/a'],
    [FIN + 'x', 'x' + FIN], [FIN[:-1]], None, '', FIN, 'x' + FIN + 'y', 'other', {}, {FIN: 1}, {'other': 1}, 0, 7, True,
    [1, None, FIN], [[FIN]], ['123', 'true', FIN],
]
MD_VALUES: list[Any] = ['ABSENT', 'DICT', 'DICT', 'DICT', 'DICT', None, [], 'str', 5, {}]


def gen_fin_list(r: Any) -> list[str]:
    n = r.choice([0, 1, 1, 2, 2, 3, 4])
    out = []
    for _ in range(n):
        out.append(FIN if r.random() < 0.4 else r.choice(FOREIGN))
    return out


def gen_body(r: Any, wellformed: bool = False) -> dict:
    """A raw body; mostly what a server can hold, sometimes with malformed metadata/finalizers."""
    body: dict[str, Any] = {'apiVersion': 'kopf.dev/v1', 'kind': 'KopfExample'}
    mdv = 'DICT' if wellformed else r.choice(MD_VALUES)
    if mdv == 'ABSENT':
        pass
    elif mdv == 'DICT':
        md: dict[str, Any] = {}
        if r.random() < 0.8:
            md.update({'name': 'obj1', 'namespace': 'ns1', 'uid': 'uid-1'})
        if r.random() < 0.85 or wellformed:
            md['resourceVersion'] = str(r.randrange(1, 50))
        fv = gen_fin_list(r) if (wellformed or r.random() < 0.6) else copy.deepcopy(r.choice(FIN_VALUES))
        if wellformed and not fv and r.random() < 0.5:
            fv = 'ABSENT'
        if fv != 'ABSENT':
            md['finalizers'] = fv
        dt = r.choice(['ABSENT', 'ABSENT', '2020-01-01T00:00:00Z', None] if not wellformed else ['ABSENT', '2020-01-01T00:00:00Z'])
        if dt != 'ABSENT':
            md['deletionTimestamp'] = dt
        if r.random() < 0.3:
            md['labels'] = {'app': 'x'}
        keys = list(md)
        r.shuffle(keys)
        body['metadata'] = {k: md[k] for k in keys}
    else:
        body['metadata'] = copy.deepcopy(mdv)
    if r.random() < 0.5:
        body['spec'] = {'a': r.randrange(3)}
    if r.random() < 0.3:
        body['status'] = {'s': 1}
    return body


def fins_of(body: Any) -> list:
    md = body.get('metadata') if isinstance(body, dict) else None
    fs = md.get('finalizers', []) if isinstance(md, dict) else []
    return list(fs) if isinstance(fs, list) else []


def is_wellformed(body: Any) -> bool:
    if not isinstance(body, dict):
        return False
    md = body.get('metadata', {})
    if not isinstance(md, dict):
        return False
    fs = md.get('finalizers', [])
    return isinstance(fs, list) and all(isinstance(x, str) for x in fs)


def without_finalizers(body: dict) -> dict:
    """Everything of the body the edits must leave alone (empty finalizers/metadata are not data)."""
    b = copy.deepcopy(body)
    md = b.get('metadata')
    if isinstance(md, dict):
        md.pop('finalizers', None)
        md.pop('resourceVersion', None)        # the server's own bookkeeping
        if not md:
            b.pop('metadata')
    return b


# ------------------------------------------------------------------------------------------------
# D: finalizers.* and as_json_patch + server
# ------------------------------------------------------------------------------------------------

def monitor_edit(ctx: fw.Ctx, fns: list[str], body: dict, after: dict, data: dict) -> None:
    """The property text on one framework edit of a well-formed body (after = what the server holds afterwards)."""
    fb, fa = fins_of(body), fins_of(after)
    if [x for x in fa if x != FIN] != [x for x in fb if x != FIN]:
        ctx.fail('a framework edit added, dropped or reordered finalizers owned by others', data, observed=fa, expected=fb,
                 sig='fn-foreign-finalizers')
    if fns and fns[-1] == 'block' and fa.count(FIN) != max(1, fb.count(FIN) if 'allow' not in fns else 1):
        ctx.fail('after block_deletion the own finalizer is not present exactly once (or as often as before)', data,
                 observed=fa, expected=fb, sig='fn-block-effect')
    if fns and fns[-1] == 'allow' and FIN in fa:
        ctx.fail('after allow_deletion the own finalizer is still present', data, observed=fa, expected=fb, sig='fn-allow-effect')
    if without_finalizers(after) != without_finalizers(body):
        ctx.fail('a finalizer edit changed other data of the object', data, observed=without_finalizers(after),
                 expected=without_finalizers(body), sig='fn-other-data')


def run_finalizers(ctx: fw.Ctx, env: Env, D: dict[str, list[fw.Case]], n: int, only: list | None = None) -> None:
    r = ctx.rng
    bodies_: list[dict] = []
    if only is not None:
        for body, fin, fns in only:
            kind, got = canon.run_res(lambda: env.finalizers.is_deletion_blocked(env.bodies.Body(body), fin))
            if kind == 'ok' and is_wellformed(body) and bool(got) != (fin in fins_of(body)):
                ctx.fail('held-by-finalizer differs from membership in metadata.finalizers', {'body': body}, observed=got, sig='fn-blocked-membership')
            for fl in ([fns] if fns else [['block'], ['allow']]):
                patch = env.patches.Patch(fns=[env.fn(k, fin) for k in fl])
                kind, ops = canon.run_res(lambda: patch.as_json_patch(copy.deepcopy(body)))
                if kind == 'ok' and is_wellformed(body):
                    monitor_edit(ctx, fl, body, canon.apply6902(body, ops) if ops else body, {'body': body, 'fns': fl, 'ops': ops})
        return
    for fv in FIN_VALUES:                      # every seeded value, with and without deletionTimestamp
        for dt in ('ABSENT', '2020-01-01T00:00:00Z'):
            md: dict[str, Any] = {'name': 'obj1', 'resourceVersion': '10'}
            if fv != 'ABSENT':
                md['finalizers'] = copy.deepcopy(fv)
            if dt != 'ABSENT':
                md['deletionTimestamp'] = dt
            bodies_.append({'metadata': md, 'spec': {'a': 1}})
    for fv in FIN_VALUES[:12]:                 # finalizers as the only metadata key: cleanup of empty containers
        bodies_.append({'metadata': {'finalizers': copy.deepcopy(fv)}} if fv != 'ABSENT' else {'metadata': {}})
    for mdv in MD_VALUES:
        if mdv not in ('DICT',):
            bodies_.append({'spec': {}} if mdv == 'ABSENT' else {'metadata': copy.deepcopy(mdv)})
    bodies_.append({})
    while len(bodies_) < n:
        bodies_.append(gen_body(r))
    for i, body in enumerate(bodies_):
        fin = FIN if (i < 80 or r.random() < 0.85) else r.choice(['example.com/a', 'x', 'kopf.zalando.org'])
        try:
            mb = cbody(body)
        except cq.Unencodable:
            continue
        data = {'layer': 'function', 'what': 'finalizers', 'body': body, 'finalizer': fin}
        wf = is_wellformed(body)
        ctx.count('fn_body', 'wellformed' if wf else 'malformed')
        kind, got = canon.run_res(lambda: env.finalizers.is_deletion_ongoing(env.bodies.Body(body)))
        D['fz_ongoing'].append(fw.Case(f'res_eqb Bool.eqb (fz_is_ongoing {mb}) {canon.cres(kind, cq.cbool(bool(got)))}',
                                       {**data, 'outcome': kind, 'got': got}, diag=f'fz_is_ongoing {mb}'))
        kind, got = canon.run_res(lambda: env.finalizers.is_deletion_blocked(env.bodies.Body(body), fin))
        D['fz_blocked'].append(fw.Case(f'res_eqb Bool.eqb (fz_is_blocked {cq.cstr(fin)} {mb}) {canon.cres(kind, cq.cbool(bool(got)))}',
                                       {**data, 'outcome': kind, 'got': got}, diag=f'fz_is_blocked {cq.cstr(fin)} {mb}'))
        if kind == 'ok' and wf and bool(got) != (fin in fins_of(body)):
            ctx.fail('held-by-finalizer differs from membership in metadata.finalizers', data, observed=got, sig='fn-blocked-membership')
        for name, f in (('fz_block', env.finalizers.block_deletion), ('fz_allow', env.finalizers.allow_deletion)):
            b2 = copy.deepcopy(body)
            kind, _ = canon.run_res(lambda: f(b2, finalizer=fin))
            try:
                exp = canon.cres(kind, cbody(b2) if kind == 'ok' else None)
            except cq.Unencodable:
                continue
            D[name].append(fw.Case(f'res_eqb jeqb ({name} {cq.cstr(fin)} {mb}) {exp}', {**data, 'outcome': kind, 'after': b2},
                                   diag=f'{name} {cq.cstr(fin)} {mb}'))
            ctx.count(name, kind)
        # ---- fn lists through the real as_json_patch, applied by the server-side evaluator
        if not isinstance(body, dict):
            continue
        for fns in ([['block'], ['allow']] + ([r.choice(FNS_LISTS)] if i % 2 == 0 else [])):
            patch = env.patches.Patch(fns=[env.fn(k, fin) for k in fns])
            kind, ops = canon.run_res(lambda: patch.as_json_patch(copy.deepcopy(body)))
            after = None
            if kind == 'ok' and ops:
                after = canon.apply6902(body, ops)
            try:
                exp = cores(kind, after)
            except cq.Unencodable:
                continue
            call = f'fz_edit {cq.cstr(fin)} {cfns(fns)} {mb}'
            D['fz_edit'].append(fw.Case(f'fz_ores_eqb ({call}) {exp}', {**data, 'fns': fns, 'ops': ops, 'outcome': kind, 'after': after},
                                        diag=call))
            ctx.count('fz_edit', kind if kind != 'ok' else ('ops' if ops else 'no-ops'))
            if kind == 'ok' and wf and fin == FIN:
                landed = after if after is not None else body
                monitor_edit(ctx, fns, body, landed, {**data, 'fns': fns, 'ops': ops})
                changed = fins_of(landed) != fins_of(body)
                if changed and [x for x in fins_of(body) if x != FIN]:
                    ctx.nontriv(['edit', fns, fins_of(body), 'deletionTimestamp' in body.get('metadata', {})])
                if i < 200:
                    ctx.sample({'fns': fns, 'finalizers': fins_of(body), 'after': fins_of(landed)})


FNS_LISTS = [['block', 'block'], ['allow', 'allow'], ['block', 'allow'], ['allow', 'block'], ['block', 'allow', 'block'],
             ['allow', 'block', 'allow'], []]


# ------------------------------------------------------------------------------------------------
# D: patch_obj against an in-process server
# ------------------------------------------------------------------------------------------------

class Server:
    """The object on the API server: RFC 7386 / RFC 6902 (harness evaluators), resourceVersion bumped on every
    accepted write, 422 on a failed test, 404 when absent; a scheduled foreign write lands before the n-th request."""

    def __init__(self, env: Env, doc: dict | None, foreign: dict | None) -> None:
        self.env, self.doc, self.foreign = env, copy.deepcopy(doc), foreign
        self.requests: list[dict] = []

    def bump(self) -> None:
        assert self.doc is not None
        md = self.doc.setdefault('metadata', {})
        md['resourceVersion'] = str(int(md.get('resourceVersion', '0')) + 1)

    def foreign_write(self) -> None:
        f = self.foreign
        self.foreign = None
        if f is None or self.doc is None:
            return
        md = self.doc.setdefault('metadata', {})
        if f['do'] == 'add':
            md.setdefault('finalizers', []).insert(f.get('at', 0), f['name'])
        elif f['do'] == 'del':
            md['finalizers'] = [x for x in md.get('finalizers', []) if x != f['name']]
            if not md['finalizers']:
                del md['finalizers']
        elif f['do'] == 'label':
            md.setdefault('labels', {})['touched'] = 'yes'
        elif f['do'] == 'gone':
            self.doc = None
            return
        self.bump()

    async def patch(self, url: str, *, settings: Any, payload: Any = None, headers: Any = None, timeout: Any = None,
                    logger: Any = None) -> Any:
        n = len(self.requests)
        if self.foreign is not None and self.foreign.get('before') == n:
            self.foreign_write()
        ctype = (headers or {}).get('Content-Type')
        req = {'url': url, 'ctype': ctype, 'payload': copy.deepcopy(payload), 'before': copy.deepcopy(self.doc)}
        self.requests.append(req)
        if self.doc is None:
            req['status'] = 404
            raise self.env.errors.APINotFoundError(None, status=404, headers={})
        if ctype == 'application/merge-patch+json':
            if url.endswith('/status'):
                payload = {'status': (payload or {}).get('status')}
            self.doc = canon.merge7386(self.doc, payload)
        elif ctype == 'application/json-patch+json':
            try:
                self.doc = canon.apply6902(self.doc, payload)
            except (canon.PatchTestFailed, canon.PatchInvalid, IndexError, KeyError, ValueError, TypeError):   # invalid for this document
                req['status'] = 422
                raise self.env.errors.APIUnprocessableEntityError(None, status=422, headers={})
        else:
            raise RuntimeError(f'unexpected content type {ctype!r}')
        self.bump()
        req['status'] = 200
        req['after'] = copy.deepcopy(self.doc)
        return copy.deepcopy(self.doc)


def run_patch_obj(ctx: fw.Ctx, env: Env, D: dict[str, list[fw.Case]], n: int, only: list | None = None) -> None:
    r = ctx.rng
    real_patch = env.api.patch
    if not asyncio.iscoroutinefunction(real_patch):
        raise RuntimeError('observation point moved: kopf._cogs.clients.api.patch is not a coroutine function')
    try:
        for i in range(n if only is None else len(only)):
            body = gen_body(r, wellformed=True)
            body['metadata'].setdefault('name', 'obj1')
            body['metadata'].setdefault('namespace', 'ns1')
            fns = r.choice([['block'], ['allow'], ['allow'], ['block'], r.choice(FNS_LISTS)])
            merge = r.choice([None, None, {'metadata': {'annotations': {'kopf.zalando.org/h1': 'x'}}}, {'status': {'kopf': {'p': 1}}},
                              {'metadata': {'annotations': {'a': 'b'}}, 'status': {'x': 1}}])
            status_sub = r.random() < 0.4
            if only is not None:
                body, fns, merge, status_sub = only[i]['body'], only[i]['fns'], only[i]['merge'], only[i]['status_subresource']
            nreq_merge = 0
            if merge:
                keys = set(merge)
                nreq_merge = (1 if keys - {'status'} or not status_sub else 0) + (1 if status_sub and 'status' in keys else 0)
            foreign = r.choice([None, None,
                                {'do': 'add', 'name': r.choice(FOREIGN[:2]), 'at': r.randrange(3)},
                                {'do': 'del', 'name': r.choice(FOREIGN[:2])},
                                {'do': 'label'}, {'do': 'gone'}])
            if foreign is not None:
                foreign['before'] = r.randrange(0, nreq_merge + 1)       # before the merge-patch, between, or before the JSON-patch
            if only is not None:
                foreign = only[i]['foreign']
            srv = Server(env, body, copy.deepcopy(foreign))
            env.api.patch = srv.patch
            patch = env.patches.Patch(copy.deepcopy(merge) if merge else {}, body=env.bodies.Body(copy.deepcopy(body)),
                                      fns=[env.fn(k) for k in fns])
            try:
                res_body, remaining = env.loop.run_until_complete(env.patching.patch_obj(
                    settings=env.settings, resource=env.resource(status_sub), namespace='ns1', name='obj1', patch=patch,
                    logger=env.logger))
            except (KeyError, TypeError, AttributeError, ValueError) as e:
                ctx.count('patch_obj', 'error:' + canon.classify_exc(e))
                continue
            data = {'layer': 'function', 'what': 'patch_obj', 'body': body, 'fns': fns, 'merge': merge, 'status_subresource': status_sub,
                    'foreign': foreign, 'requests': [{k: q.get(k) for k in ('url', 'ctype', 'payload', 'status')} for q in srv.requests]}
            merges = [q for q in srv.requests if q['ctype'] == 'application/merge-patch+json']
            jsons = [q for q in srv.requests if q['ctype'] == 'application/json-patch+json']
            gone = any(q['status'] == 404 for q in srv.requests)
            rem_kinds = [env.kind_of(f) for f in remaining.fns] if remaining is not None else None
            ctx.count('patch_obj', 'gone' if gone else 'conflict' if rem_kinds is not None else 'landed' if jsons else 'no-json-request')
            # ---- monitors: the property text on the requests
            for q in jsons:
                ops = q['payload']
                if not ops or ops[0].get('op') != 'test' or ops[0].get('path') != '/metadata/resourceVersion':
                    ctx.fail('finalizer edit sent without the resourceVersion precondition', data, observed=ops, sig='fn-no-test-op')
                if q['status'] == 200:
                    monitor_edit(ctx, fns, q['before'], q['after'], data)
                if q['status'] == 422 and rem_kinds != fns:
                    ctx.fail('a refused (422) finalizer edit is not carried to the next cycle', data, observed=rem_kinds, expected=fns,
                             sig='fn-remaining-dropped')
            if gone:
                continue
            if len(merges) != nreq_merge or len(jsons) > 1:
                ctx.correspondence_break('D:fz_patch_obj', {'detail': 'unexpected request sequence', 'case': data})
                continue
            # ---- D: model of the part after the merge-patches
            merge_resp = merges[-1]['after'] if merges else None
            server_at_json = jsons[0]['before'] if jsons else (srv.doc if srv.doc is not None else body)
            if not jsons:
                exp = 'PoNoRequest'
            elif jsons[0]['status'] == 200:
                exp = f'(PoLanded {cq.copt(canon.cj(jsons[0]["payload"][0].get("value")))} {cbody(canon.apply6902(server_at_json, jsons[0]["payload"]))})'
            else:
                exp = f'(PoConflict {cq.copt(canon.cj(jsons[0]["payload"][0].get("value")))})'
            call = (f'fz_patch_obj {cq.cstr(FIN)} {cfns(fns)} {cbody(body)} {cq.copt(cbody(merge_resp)) if merge_resp is not None else "None"} '
                    f'{cbody(server_at_json)}')
            rem_ok = (rem_kinds == fns) if (jsons and jsons[0]['status'] == 422) else (rem_kinds is None)
            D['fz_patch_obj'].append(fw.Case(f'match {call} with Ok o => fz_po_eqb o {exp} && {cq.cbool(rem_ok)} | _ => false end', data, diag=call))
            if jsons and [x for x in fins_of(jsons[0]['before']) if x != FIN]:
                ctx.nontriv(['patch_obj', fns, fins_of(jsons[0]['before']), jsons[0]['status'], bool(merge)])
    finally:
        env.api.patch = real_patch


# ------------------------------------------------------------------------------------------------
# D: the decision points of process_resource_causes
# ------------------------------------------------------------------------------------------------

# registrations: (name, decorator, kwargs, needs finalizer when matching)
HANDLER_KINDS = {
    'delete': ('delete', {}, True),
    'delete_optional': ('delete', {'optional': True}, False),
    'update': ('update', {}, False),
    'create': ('create', {}, False),
    'event': ('event', {}, False),
    'daemon': ('daemon', {}, True),
    'timer': ('timer', {'interval': 1}, True),
}
REGISTRIES: list[list[tuple[str, str]]] = [   # (kind, filter): filter in 'all' | 'label' (labels={'app': 'x'}) | 'never' (when=False)
    [],
    [('delete', 'all')],
    [('delete_optional', 'all')],
    [('update', 'all')],
    [('delete', 'label')],
    [('delete', 'never'), ('update', 'all')],
    [('delete', 'label'), ('create', 'all'), ('event', 'all')],
    [('daemon', 'all')],
    [('timer', 'label')],
    [('daemon', 'never')],
    [('daemon', 'all'), ('delete', 'all')],
    [('daemon', 'label'), ('delete_optional', 'all'), ('update', 'label')],
    [('event', 'all')],
    [('event', 'all'), ('delete', 'all')],
    [('timer', 'all'), ('update', 'all'), ('event', 'all')],
    [('delete', 'label'), ('delete_optional', 'all'), ('daemon', 'label')],
    # several deletion handlers per resource, optional before mandatory (the first match must not decide)
    [('delete_optional', 'all'), ('delete', 'all')],
    [('delete_optional', 'label'), ('delete', 'all')],
    [('delete_optional', 'all'), ('delete', 'label')],
    [('delete_optional', 'annot'), ('delete_optional', 'all'), ('delete', 'field'), ('update', 'all')],
    [('update', 'all'), ('delete_optional', 'when_true'), ('delete', 'present')],
    [('delete', 'never'), ('delete_optional', 'all'), ('delete', 'annot')],
    [('timer', 'never'), ('daemon', 'annot')],
    [('daemon', 'field'), ('delete_optional', 'all'), ('delete', 'when_true')],
]
FILTERS = ['all', 'all', 'label', 'annot', 'field', 'present', 'when_true', 'never']


def _generated_registries() -> list[list[tuple[str, str]]]:
    import random as _random
    g = _random.Random(606)              # fixed: the list is part of the case space (replay files index into it)
    out = []
    for _ in range(28):
        n = g.choice([2, 3, 3, 4, 5])
        kinds = ['delete', 'delete_optional', 'delete', 'delete_optional', 'update', 'create', 'daemon', 'timer']
        out.append([(g.choice(kinds), g.choice(FILTERS)) for _ in range(n)])
    return out


REGISTRIES += _generated_registries()


def filter_matches(flt: str, labelled: bool) -> bool:
    """The harness's own reading of the filters it registers: which of them an object (labelled or not) passes."""
    return True if flt in ('all', 'when_true') else False if flt == 'never' else labelled


def const(v: bool) -> Any:
    def when(**_: Any) -> bool:
        return v
    return when


class Reg:
    def __init__(self, env: Env, decls: list[tuple[str, str]]) -> None:
        self.env, self.decls = env, decls
        self.reg = env.registries.OperatorRegistry()
        self.invoked: list[str] = []
        self.ids: list[str] = []
        for i, (kind, flt) in enumerate(decls):
            deco, kwargs, _ = HANDLER_KINDS[kind]
            kw: dict[str, Any] = dict(kwargs)
            if flt == 'label':
                kw['labels'] = {'app': 'x'}
            elif flt == 'present':
                kw['labels'] = {'app': env.kopf.PRESENT}
            elif flt == 'annot':
                kw['annotations'] = {'note': 'y'}
            elif flt == 'field':
                kw['field'], kw['value'] = 'spec.a', 1
            elif flt == 'when_true':
                kw['when'] = const(True)
            elif flt == 'never':
                kw['when'] = const(False)
            getattr(env.kopf.on, deco)('kopfexamples', registry=self.reg, id=f'h{i}', **kw)(self._mkfn(f'h{i}', kind))
            sub = self.reg._spawning if kind in ('daemon', 'timer') else self.reg._watching if kind == 'event' else self.reg._changing
            self.ids.append(sub.get_all_handlers()[-1].id)          # (a field filter is appended to the id)

    def _mkfn(self, name: str, kind: str) -> Any:
        invoked = self.invoked

        async def fn(**kw: Any) -> Any:
            invoked.append(name)
            return {'seen': 1} if kind == 'event' else None
        fn.__name__ = name
        return fn

    def needs(self, body: dict, forever: set[str]) -> bool:
        """The harness's own reading: some registered handler that needs the finalizer matches this object."""
        labelled = body.get('metadata', {}).get('labels', {}).get('app') == 'x'
        for i, (kind, flt) in enumerate(self.decls):
            if not HANDLER_KINDS[kind][2] or not filter_matches(flt, labelled):
                continue
            if kind in ('daemon', 'timer') and self.ids[i] in forever:
                continue
            return True
        return False


class Oracles:
    """Stubs around process_resource_causes for one pass."""

    def __init__(self, env: Env, sdelays: list[int], cdelays: list[int], unslept: Any) -> None:
        self.env, self.sdelays, self.cdelays, self.unslept = env, sdelays, cdelays, unslept
        self.spawning_cause: Any = None
        self.changing_cause: Any = None
        self.detected: Any = None
        self.slept = False

    def install(self) -> None:
        p = self.env.processing
        self.saved = (p.process_spawning_cause, p.process_changing_cause, p.aiotime, p._detect_causes)
        for f in self.saved[:2]:
            if not asyncio.iscoroutinefunction(f):
                raise RuntimeError('observation point moved: process_*_cause is not a coroutine function')
        o = self

        async def spawning(**kw: Any) -> Any:
            o.spawning_cause = kw['cause']
            return list(o.sdelays)

        async def changing(**kw: Any) -> Any:
            o.changing_cause = kw['cause']
            return list(o.cdelays)

        class Shim:
            @staticmethod
            async def sleep(delays: Any, wakeup: Any = None) -> Any:
                o.slept = True
                return o.unslept
        real_detect = self.saved[3]

        def detect(**kw: Any) -> Any:
            o.detected = real_detect(**kw)
            return o.detected
        p.process_spawning_cause, p.process_changing_cause, p.aiotime, p._detect_causes = spawning, changing, Shim, detect

    def uninstall(self) -> None:
        p = self.env.processing
        p.process_spawning_cause, p.process_changing_cause, p.aiotime, p._detect_causes = self.saved


def decide_body(r: Any, blocked: str, deleting: bool, labelled: bool) -> dict:
    md: dict[str, Any] = {'name': 'obj1', 'namespace': 'ns1', 'uid': 'uid-1', 'resourceVersion': '10'}
    fs = {'no': [], 'own': [FIN], 'foreign': ['example.com/a'], 'own+foreign': ['example.com/a', FIN], 'absent': None}[blocked]
    if fs is not None:
        md['finalizers'] = fs
    if deleting:
        md['deletionTimestamp'] = '2020-01-01T00:00:00Z'
    if labelled:
        md['labels'] = {'app': 'x'}
        md['annotations'] = {'note': 'y'}
    return {'apiVersion': 'kopf.dev/v1', 'kind': 'KopfExample', 'metadata': md, 'spec': {'a': 1 if labelled else 2}}


def run_decide(ctx: fw.Ctx, env: Env, D: dict[str, list[fw.Case]], n: int, only: list | None = None) -> None:
    r = ctx.rng
    space = list(itertools.product(range(len(REGISTRIES)), ['no', 'own', 'foreign', 'own+foreign', 'absent'], [False, True],
                                   [False, True], [None, 'ADDED', 'MODIFIED', 'DELETED'], ['none', 'zero', 'some'],
                                   ['empty', 'fns-block', 'fns-allow', 'merge'], [(), (3,)], [(), (5,), (0,)], [None, 2.5], [False, True]))
    r.shuffle(space)
    # the systematic core first: every registry x body state x deleting x labelled, plain event, consistent, nothing carried
    core = [(g, b, d, l, 'MODIFIED', 'none', 'empty', sd, cd, None, False)
            for g in range(len(REGISTRIES)) for b in ['no', 'own', 'own+foreign'] for d in [False, True] for l in [False, True]
            for sd in [(), (3,)] for cd in [(), (5,)] if g < 16 or (b != 'own+foreign' and not sd and not cd)]
    cases = core + space[:max(0, n - len(core))] if only is None else only
    resource = env.resource(False)
    indexers = env.indexing.OperatorIndexers()
    regs: dict[int, Reg] = {}
    for (g, blocked, deleting, labelled, ev, ct, carried, sd, cd, unslept, forever_on) in cases:
        R = regs.get(g)
        if R is None:
            R = regs[g] = Reg(env, REGISTRIES[g])
        R.invoked.clear()
        obj = decide_body(r, blocked, deleting, labelled)
        body = env.bodies.Body(obj)
        src: Any = {}
        if carried == 'fns-block':
            src = env.patches.Patch(fns=[env.fn('block')])
        elif carried == 'fns-allow':
            src = env.patches.Patch(fns=[env.fn('allow')])
        elif carried == 'merge':
            src = {'metadata': {'annotations': {'x': 'y'}}}
        patch = env.patches.Patch(src, body=body)
        n_before = len(patch.fns)
        patch0_empty = not patch
        forever: set[str] = set()
        if forever_on:
            forever = {R.ids[i] for i, (k, _) in enumerate(REGISTRIES[g]) if k in ('daemon', 'timer')}
        ctime = {'none': None, 'zero': 0.0, 'some': 1000.0}[ct]
        orc = Oracles(env, list(sd), list(cd), unslept)
        orc.install()
        try:
            async def go() -> Any:
                memory = env.inventory.ResourceMemory()          # needs a running loop
                memory.daemons_memory.forever_stopped |= forever
                return await env.processing.process_resource_causes(
                    lifecycle=env.lifecycles.all_at_once, indexers=indexers, registry=R.reg, settings=env.settings,
                    resource=resource, raw_event={'type': ev, 'object': obj}, body=body, patch=patch, memory=memory,
                    local_logger=env.logger, event_logger=env.logger, stream_pressure=None, operator_paused=None,
                    consistency_time=ctime)
            delays, matched = env.loop.run_until_complete(go())
        finally:
            orc.uninstall()
        appended = [env.kind_of(f) for f in patch.fns[n_before:]]
        det = orc.detected
        if det is None:
            raise RuntimeError('observation point moved: _detect_causes was not called')
        # ---- atoms for the model: the handlers as the real registry filters see the real causes
        sh, ch = 'None', 'None'
        if det.spawning_cause is not None:
            sh = '(Some ' + cq.clist(
                f'{{| sh_reqfin := {cq.cbool(bool(h.requires_finalizer))}; sh_match := {cq.cbool(bool(env.registries.match(handler=h, cause=det.spawning_cause)))}; '
                f'sh_excluded := {cq.cbool(h.id in forever)} |}}' for h in R.reg._spawning.get_all_handlers()) + ')'
        if det.changing_cause is not None:
            ch = '(Some ' + cq.clist(
                f'{{| ch_reqfin := {cq.cbool(bool(h.requires_finalizer))}; '
                f'ch_prematch := {cq.cbool(bool(env.registries.prematch(handler=h, cause=det.changing_cause)))} |}}'
                for h in R.reg._changing.get_all_handlers()) + ')'
        low_empty = not any(k == 'event' for k, _ in REGISTRIES[g])
        atoms = (f'{{| a_spawn := {sh}; a_chg := {ch}; a_blocked := false; a_ongoing := false; a_deleted := {cq.cbool(ev == "DELETED")}; '
                 f'a_patch0_empty := {cq.cbool(patch0_empty)}; a_low_empty := {cq.cbool(low_empty)}; '
                 f'a_ctime := {dict(none="CtNone", zero="CtZero", some="CtSome")[ct]}; a_timed_out := {cq.cbool(unslept is None)}; '
                 f'a_sdelays := {czs(sd if det.spawning_cause is not None else ())}; a_cdelays := {czs(cd)} |}}')
        call = f'fz_decide_body {cq.cstr(FIN)} {cbody(obj)} {atoms}'
        changing_called = orc.changing_cause is not None
        term = (f'match {call} with Ok o => fz_out_eqb o {cfns(appended)} {cq.cbool(orc.slept)} {cq.cbool(changing_called)} '
                f'{czs(delays)} {cq.cbool(bool(matched))} | _ => false end')
        data = {'layer': 'function', 'what': 'decide', 'registry': REGISTRIES[g], 'finalizers': blocked, 'deleting': deleting, 'labelled': labelled,
                'event': ev, 'consistency_time': ct, 'carried': carried, 'spawning_delays': list(sd), 'changing_delays': list(cd),
                'unslept': unslept, 'forever_stopped': sorted(forever),
                'observed': {'appended': appended, 'slept': orc.slept, 'changing': changing_called, 'delays': list(delays), 'matched': bool(matched)}}
        D['fz_decide'].append(fw.Case(term, data, diag=call))
        # ---- monitors: the property text on this pass
        own = blocked in ('own', 'own+foreign')
        needs = R.needs(obj, forever)
        eff_sd = list(sd) if det.spawning_cause is not None else []
        consistent = patch0_empty and (ct == 'none' or ev == 'DELETED' or (ct == 'some' and low_empty and unslept is None))
        has_changing = det.changing_cause is not None and R.reg._changing.prematch(cause=det.changing_cause)
        branch = ('block' if 'block' in appended else 'allow-unneeded' if appended[:1] == ['allow'] and not needs else
                  'release' if 'allow' in appended else 'held-inconsistent' if (has_changing and not consistent and not appended) else
                  'held-by-delays' if (deleting and own and (eff_sd or (changing_called and cd))) else 'nothing')
        ctx.count('decide_branch', branch)
        # (on a DELETED event nothing is applied by process_resource_event: whatever is appended is never sent)
        if 'block' in appended and deleting:
            ctx.fail('finalizer requested for an object already marked for deletion', data, sig='fn-added-while-deleting')
        if 'block' in appended and (own or not needs):
            ctx.fail('finalizer requested although it is present or no matching handler needs it', data, sig='fn-added-unneeded')
        if not own and not deleting and needs and 'block' not in appended:
            ctx.fail('a matching handler needs the finalizer but it is not requested', data, sig='fn-not-added')
        if 'allow' in appended and ev != 'DELETED':
            pending = eff_sd or (changing_called and list(cd))
            if needs and not deleting:
                ctx.fail('finalizer released although a matching handler needs it and the object is not being deleted', data,
                         sig='fn-released-while-needed')
            if needs and deleting and pending:
                ctx.fail('finalizer released while handlers/daemons are still pending (delays reported)', data, sig='fn-released-with-delays')
            if needs and deleting and has_changing and not consistent:
                ctx.fail('finalizer released on an inconsistent (possibly stale) view', data, sig='fn-released-inconsistent')
            if needs and deleting and has_changing and not changing_called:
                ctx.fail('finalizer released without consulting the deletion handlers', data, sig='fn-released-unconsulted')
        if own and not needs and ev != 'DELETED' and 'allow' not in appended:
            ctx.fail('nobody needs the finalizer any more but it is not released', data, sig='fn-not-released-unneeded')
        if (own and needs and deleting and ev != 'DELETED' and not eff_sd and (not has_changing or (consistent and not cd))
                and 'allow' not in appended):
            ctx.fail('everything is finished but the finalizer is not released', data, sig='fn-never-released')
        if changing_called and has_changing and not consistent:
            ctx.fail('change handling entered on an inconsistent view', data, sig='fn-inconsistent-handling')
        if appended or branch.startswith('held'):
            ctx.nontriv(['decide', REGISTRIES[g], blocked, deleting, labelled, ev, ct, carried, list(sd), list(cd), unslept, forever_on])
        if branch in ('release', 'block', 'held-by-delays'):
            ctx.sample({'registry': REGISTRIES[g], 'finalizers': blocked, 'deleting': deleting, 'appended': appended, 'delays': list(delays)}, limit=8)


# ------------------------------------------------------------------------------------------------
# D: requires_finalizer of the real registries on generated registrations
# ------------------------------------------------------------------------------------------------

def run_requires(ctx: fw.Ctx, env: Env, D: dict[str, list[fw.Case]], only: list | None = None) -> None:
    """registry._changing.requires_finalizer(cause) / registry._spawning.requires_finalizer(cause, excluded) on every registry of
    REGISTRIES x (labelled, deleting, forever_stopped subset), against the model's existsb over the handlers as the real filters see
    them, and against the harness's own reading: some mandatory deletion handler / daemon / timer whose filter the object passes."""
    r = ctx.rng
    resource = env.resource(False)
    indexers = env.indexing.OperatorIndexers()
    space = [(g, lab, dele, fo) for g in range(len(REGISTRIES)) for lab in (False, True) for dele in (False, True) for fo in (0, 1, 2)]
    for (g, labelled, deleting, fo) in (space if only is None else only):
        decls = REGISTRIES[g]
        R = Reg(env, decls)
        obj = decide_body(r, 'own' if fo == 1 else 'no', deleting, labelled)
        body = env.bodies.Body(obj)
        spawn_ids = [R.ids[i] for i, (k, _) in enumerate(decls) if k in ('daemon', 'timer')]
        forever = set() if fo == 0 else set(spawn_ids) if fo == 1 else set(spawn_ids[:1])
        det = env.processing._detect_causes(
            indexers=indexers, registry=R.reg, settings=env.settings, resource=resource, raw_event={'type': 'MODIFIED', 'object': obj},
            body=body, patch=env.patches.Patch({}, body=body), memory=None_memory(env), local_logger=env.logger, event_logger=env.logger)
        data = {'layer': 'function', 'what': 'requires', 'registry_index': g, 'registry': decls, 'labelled': labelled, 'deleting': deleting,
                'forever_stopped': sorted(forever), 'forever_choice': fo}
        own_chg = any(HANDLER_KINDS[k][2] and k.startswith('delete') and filter_matches(f, labelled) for k, f in decls)
        own_sp = any(k in ('daemon', 'timer') and filter_matches(f, labelled) and R.ids[i] not in forever for i, (k, f) in enumerate(decls))
        if det.changing_cause is not None:
            hs = R.reg._changing.get_all_handlers()
            real = bool(R.reg._changing.requires_finalizer(cause=det.changing_cause))
            term = ('Bool.eqb (fz_chg_requires ' + cq.clist(
                f'{{| ch_reqfin := {cq.cbool(bool(h.requires_finalizer))}; ch_prematch := {cq.cbool(bool(env.registries.prematch(handler=h, cause=det.changing_cause)))} |}}'
                for h in hs) + f') {cq.cbool(real)}')
            D['fz_requires'].append(fw.Case(term, {**data, 'side': 'changing', 'real': real}))
            ctx.count('requires_changing', f'{real}:{len([1 for k, _ in decls if k.startswith("delete")])}-deletion-handlers')
            if real != own_chg:
                ctx.fail('the changing registry says the finalizer is %s although %s mandatory deletion handler matches the object'
                         % ('required' if real else 'not required', 'no' if real else 'a'), {**data, 'side': 'changing'}, observed=real, expected=own_chg,
                         sig='fn-requires-wrong')
            if own_chg and len([1 for k, f in decls if k.startswith('delete') and filter_matches(f, labelled)]) >= 2:
                ctx.nontriv(['requires', g, labelled, deleting])
        if det.spawning_cause is not None:
            hs = R.reg._spawning.get_all_handlers()
            real = bool(R.reg._spawning.requires_finalizer(cause=det.spawning_cause, excluded=forever))
            term = ('Bool.eqb (fz_spawn_requires ' + cq.clist(
                f'{{| sh_reqfin := {cq.cbool(bool(h.requires_finalizer))}; sh_match := {cq.cbool(bool(env.registries.match(handler=h, cause=det.spawning_cause)))}; '
                f'sh_excluded := {cq.cbool(h.id in forever)} |}}' for h in hs) + f') {cq.cbool(real)}')
            D['fz_requires'].append(fw.Case(term, {**data, 'side': 'spawning', 'real': real}))
            ctx.count('requires_spawning', f'{real}:{len(spawn_ids)}-daemons/timers')
            if real != own_sp:
                ctx.fail('the spawning registry says the finalizer is %s although %s daemon/timer matches the object'
                         % ('required' if real else 'not required', 'no' if real else 'a'), {**data, 'side': 'spawning'}, observed=real, expected=own_sp,
                         sig='fn-requires-wrong')


def None_memory(env: Env) -> Any:
    class _M:                       # _detect_causes only reads memo / noticed_by_listing / fully_handled_once
        memo = env.ephemera.Memo()
        noticed_by_listing = False
        fully_handled_once = False
    return _M()


# ------------------------------------------------------------------------------------------------
# entry points
# ------------------------------------------------------------------------------------------------

def differential(ctx: fw.Ctx) -> None:
    ok, logtxt = fw.build_models([MODEL])
    if not ok:
        ctx.correspondence_break('model build', logtxt[-1500:])
        return
    from kv.props import c06_trace
    ok, logtxt = fw.build_models([c06_trace.MODEL])
    if not ok:
        ctx.correspondence_break('model build', logtxt[-1500:])
        return
    from kv.props import c06_daemon
    ok, logtxt = fw.build_models([c06_daemon.MODEL])
    if not ok:
        ctx.correspondence_break('model build', logtxt[-1500:])
        return
    ctx.matchers['F601'] = c06_trace.match_f601
    env = Env()
    D: dict[str, list[fw.Case]] = {k: [] for k in ('fz_ongoing', 'fz_blocked', 'fz_block', 'fz_allow', 'fz_edit', 'fz_patch_obj', 'fz_decide', 'fz_requires')}
    try:
        run_finalizers(ctx, env, D, ctx.scale(250, 2500))
        run_patch_obj(ctx, env, D, ctx.scale(300, 2500))
        run_decide(ctx, env, D, ctx.scale(1400, 6000))
        run_requires(ctx, env, D)
        traces = c06_trace.run(ctx, env, ctx.scale(180, 2000))
        stops = c06_daemon.run_stop(ctx, env, ctx.scale(600, 6000))
        dtraces = c06_daemon.run_traces(ctx, env, ctx.scale(120, 1500))
    finally:
        env.close()
    for name, cases in D.items():
        ctx.differential(name, HEADER, cases, shard=150)
    ctx.differential('fl_trace', c06_trace.HEADER, traces, shard=40)
    ctx.differential('fd_stop', c06_daemon.HEADER, stops, shard=150)
    ctx.differential('fd_trace', c06_daemon.HEADER, dtraces, shard=40)
    ctx.notes.append(RULE_FN + '; traces = (registry variant [filtered / unfiltered / shared id / optional only] x handler outcome scripts x list of '
                     'actions: cycle [with a foreign write before the n-th request], foreign finalizer add/remove, label on/off, spec edit, delete, '
                     'restart) run through the real process_resource_event and replayed in the Gallina acceptor; non-trivial iff a request was refused (422); '
                     'stop = (daemon/timer x cancellation_backoff x cancellation_timeout x polling x reason x stopper state x age x task script), '
                     'non-trivial iff the stopper was set before or the outcome is not "still stopping"; daemon traces = (D filtered/unfiltered, with/without H) x '
                     'daemon behaviour [obeys flag / obeys late / dies of cancel / survives cancel / exits on its own] x (backoff, timeout) x actions incl. clock '
                     'ticks, under virtual time with real daemon tasks; non-trivial iff the task was cancelled or abandoned')


def replay(ctx: fw.Ctx, body: dict) -> bool:
    """Re-run one function-level failing case (ctx.fail case with layer == 'function'). Returns True if it still fails."""
    from kv.props import c06_trace
    case = body.get('case') or {}
    ctx.matchers['F601'] = c06_trace.match_f601
    env = Env()
    D: dict[str, list[fw.Case]] = {k: [] for k in ('fz_ongoing', 'fz_blocked', 'fz_block', 'fz_allow', 'fz_edit', 'fz_patch_obj', 'fz_decide', 'fz_requires')}
    try:
        what = case.get('what')
        if what == 'trace':
            w = c06_trace.run_scenario(env, case['scenario'])
            c06_trace.monitors(ctx, case['scenario'], w)
        elif what == 'dtrace':
            from kv.props import c06_daemon
            c06_daemon.run_traces(ctx, env, 0, only=[case['scenario']])
        elif what == 'stop':
            from kv.props import c06_daemon
            c06_daemon.run_stop(ctx, env, 0, only=[case])
        elif what == 'requires':
            run_requires(ctx, env, D, only=[(case['registry_index'], case['labelled'], case['deleting'], case['forever_choice'])])
        elif what == 'decide':
            fo = bool(case.get('forever_stopped'))
            params = (REGISTRIES.index([tuple(x) for x in case['registry']]), case['finalizers'], case['deleting'], case['labelled'], case['event'],
                      case['consistency_time'], case['carried'], tuple(case['spawning_delays']), tuple(case['changing_delays']), case['unslept'], fo)
            run_decide(ctx, env, D, 0, only=[params])
        elif what == 'patch_obj':
            run_patch_obj(ctx, env, D, 0, only=[case])
        elif what == 'finalizers':
            run_finalizers(ctx, env, D, 0, only=[(case['body'], case['finalizer'], case.get('fns'))])
        else:
            print('replay file carries no function-level case')
            return False
    finally:
        env.close()
    for f in ctx.failures:
        print('  still failing:', f['sig'], '-', f['what'])
    return bool(ctx.failures) or bool(ctx.known_hits)
