"""C19, ensemble part: the REAL orchestration.adjust_tasks driven with dummy insights and stub watcher /
keep-alive coroutines (key sets, stops, starts after every insight change == Model/Ensemble.v `adjust`),
the REAL observation.revise_namespaces and references.match_namespace, and the coverage monitor
("exactly one watch per served pair, none for anything else") evaluated on the stub tasks that are alive.
"""
from __future__ import annotations

import asyncio
import fnmatch
import json
import logging
from typing import Any

from kv import coqio as cq, framework as fw, vloop

N_RES = 5          # dummy resource kinds 0..4: even = namespaced, odd = cluster-scoped
PEER_C, PEER_N = 100, 101     # clusterkopfpeerings (cluster-scoped), kopfpeerings (namespaced)
NAMES = ['ns1', 'ns2', 'ns3']


def res_namespaced(rid: int) -> bool:
    if rid == PEER_C:
        return False
    if rid == PEER_N:
        return True
    return rid % 2 == 0


def c_res(rid: int) -> str:
    return f'{{| rid := {cq.cZ(rid)}; rns := {cq.cbool(res_namespaced(rid))} |}}'


def c_ns(ns: str | None) -> str:
    return cq.copt(cq.cstr(ns) if ns is not None else None)


def c_key(k: tuple) -> str:
    return cq.cpair(c_res(k[0]), c_ns(k[1]))


def c_keys(ks: Any) -> str:
    return cq.clist(c_key(k) for k in sorted(ks, key=lambda k: (k[0], k[1] or '')))


def c_insights(ins: dict) -> str:
    return (f'{{| watched := {cq.clist(c_res(r) for r in ins["watched"])}; '
            f'namespaces := {cq.clist(c_ns(n) for n in ins["namespaces"])}; '
            f'peering := {cq.clist(c_res(r) for r in ins["peering"])} |}}')


def c_ens(e: dict) -> str:
    return (f'{{| watchers := {c_keys(e["watchers"])}; peerings := {c_keys(e["peerings"])}; '
            f'pingers := {c_keys(e["pingers"])}; conflicts := {c_keys(e["conflicts"])} |}}')


def c_togs(ts: Any) -> str:
    return cq.clist(cq.cpair(c_key((t[0], t[1])), cq.cnat(t[2])) for t in sorted(ts, key=lambda t: (t[0], t[1] or '', t[2])))


class _Proxy:
    def __init__(self, target: Any, **over: Any) -> None:
        self.__dict__['_t'] = target
        self.__dict__.update(over)

    def __getattr__(self, name: str) -> Any:
        return getattr(self._t, name)


def run_history(history: list[dict], mode: str, mandatory: bool = False) -> list[dict]:
    """history: insights per step {'watched': [rid], 'indexed': [rid], 'namespaces': [ns|None], 'peer_crd': bool};
    mode: 'standalone' | 'clusterwide' | 'namespaced' (settings.peering).  Returns one snapshot per step."""
    import kopf
    from kopf._cogs.aiokits import aiotoggles
    from kopf._cogs.structs import references
    from kopf._core.engines import peering
    from kopf._core.reactor import orchestration, queueing

    for name in ('adjust_tasks', 'terminate_redundancies', 'spawn_missing_peerings', 'spawn_missing_watchers', 'Ensemble', 'EnsembleKey'):
        if not hasattr(orchestration, name):
            raise RuntimeError(f'observation point missing: orchestration.{name}')
    if not hasattr(orchestration, 'queueing') or not hasattr(orchestration, 'peering'):
        raise RuntimeError('observation point missing: orchestration.queueing / orchestration.peering')
    logging.getLogger('kopf').setLevel(logging.CRITICAL + 1)

    pool: dict[int, Any] = {}
    for rid in range(N_RES):
        pool[rid] = references.Resource(group='c19.dev', version='v1', plural=f'kind{rid}', kind=f'Kind{rid}',
                                        namespaced=res_namespaced(rid), verbs=frozenset({'list', 'watch', 'patch'}))
    pool[PEER_C] = references.Resource(group='kopf.dev', version='v1', plural='clusterkopfpeerings', kind='ClusterKopfPeering',
                                       namespaced=False, verbs=frozenset({'list', 'watch', 'patch'}))
    pool[PEER_N] = references.Resource(group='kopf.dev', version='v1', plural='kopfpeerings', kind='KopfPeering',
                                       namespaced=True, verbs=frozenset({'list', 'watch', 'patch'}))
    rid_of = {v: k for k, v in pool.items()}

    log: list[tuple] = []      # (what, kind, key) in the order things happen
    alive: dict[tuple, int] = {}

    def key_of(resource: Any, namespace: Any) -> tuple:
        return (rid_of[resource], namespace)

    async def stub_watcher(*, namespace: Any, settings: Any, resource: Any, processor: Any, operator_paused: Any = None,
                           operator_indexed: Any = None, resource_indexed: Any = None) -> None:
        kind = 'watcher' if operator_paused is not None else 'peering'
        k = key_of(resource, namespace)
        log.append(('start', kind, k))
        alive[(kind, k)] = alive.get((kind, k), 0) + 1
        try:
            await asyncio.Event().wait()
        finally:
            alive[(kind, k)] -= 1
            log.append(('stop', kind, k))

    async def stub_keepalive(*, namespace: Any, resource: Any, identity: Any, settings: Any) -> None:
        k = key_of(resource, namespace)
        log.append(('start', 'pinger', k))
        alive[('pinger', k)] = alive.get(('pinger', k), 0) + 1
        try:
            await asyncio.Event().wait()
        finally:
            alive[('pinger', k)] -= 1
            log.append(('stop', 'pinger', k))

    async def dummy_processor(**_: Any) -> None:
        return None

    saved = (orchestration.queueing, orchestration.peering)
    orchestration.queueing = _Proxy(queueing, watcher=stub_watcher)      # type: ignore[assignment]
    orchestration.peering = _Proxy(peering, keepalive=stub_keepalive)    # type: ignore[assignment]
    loop = vloop.new_loop()
    snaps: list[dict] = []
    try:
        with vloop.running(loop):
            settings = kopf.OperatorSettings()
            settings.peering.standalone = mode == 'standalone'
            settings.peering.clusterwide = mode == 'clusterwide'
            settings.peering.mandatory = bool(mandatory)
            insights = references.Insights()
            paused = aiotoggles.ToggleSet(any)
            box: dict[str, Any] = {}

            async def setup() -> None:
                box['pm'] = await paused.make_toggle(name='peering CRD is missing')
            loop.spawn(setup())
            loop.settle()
            ensemble = orchestration.Ensemble(peering_missing=box['pm'], operator_paused=paused,
                                              operator_indexed=aiotoggles.ToggleSet(all))
            identity = peering.Identity('c19')
            peer_rid = {'clusterwide': PEER_C, 'namespaced': PEER_N}.get(mode)
            registry: dict[int, tuple] = {}      # id(toggle) -> (rid, ns, serial): identity taken from conflicts_found
            keepalive_refs: list[Any] = []       # while it is there (the toggles are kept alive so that ids stay unique)

            def register() -> None:
                for k, tg in sorted(ensemble.conflicts_found.items(), key=lambda kv: (rid_of[kv[0].resource], kv[0].namespace or '')):
                    if id(tg) not in registry:
                        registry[id(tg)] = (rid_of[k.resource], k.namespace, len(registry))
                        keepalive_refs.append(tg)

            for step in history:
                # the script turns the conflict toggles of the current peerings on / off (a peer appears / withdraws)
                if 'on_ns' in step:
                    for k, tg in list(ensemble.conflicts_found.items()):
                        loop.spawn(tg.turn_to(k.namespace in step['on_ns']))
                    loop.settle()
                if step.get('peer_crd') and peer_rid is not None:
                    t = loop.spawn(insights.backbone.fill(resources=[pool[peer_rid]]))
                    loop.settle()
                    t.result()
                insights.watched_resources.clear()
                insights.watched_resources.update(pool[r] for r in step['watched'])
                insights.indexed_resources.clear()
                insights.indexed_resources.update(pool[r] for r in step.get('indexed', []))
                insights.namespaces.clear()
                insights.namespaces.update(step['namespaces'])
                mark = len(log)
                t = loop.spawn(orchestration.adjust_tasks(processor=dummy_processor, insights=insights, settings=settings,
                                                          identity=identity, ensemble=ensemble))
                loop.run_until(t.done, loop.time() + 60)
                if not t.done():
                    raise RuntimeError('adjust_tasks did not finish')
                err = t.exception()
                register()
                seg = log[mark:]
                peer_now = [peer_rid] if peer_rid is not None and any(rid_of[r] == peer_rid for r in insights.backbone.values()) else []

                def keys(d: dict) -> list:
                    return sorted(((rid_of[k.resource], k.namespace) for k in d), key=lambda k: (k[0], k[1] or ''))
                stops = [(kind, k) for what, kind, k in seg if what == 'stop']
                starts = [(kind, k) for what, kind, k in seg if what == 'start']
                last_stop = max([i for i, x in enumerate(seg) if x[0] == 'stop'], default=-1)
                first_start = min([i for i, x in enumerate(seg) if x[0] == 'start'], default=len(seg))
                snaps.append({
                    'insights': {'watched': sorted(step['watched']), 'namespaces': sorted(step['namespaces'], key=lambda n: n or ''),
                                 'peering': peer_now},
                    'error': type(err).__name__ if err is not None else None,
                    'watchers': keys(ensemble.watcher_tasks), 'peerings': keys(ensemble.peering_tasks),
                    'pingers': keys(ensemble.pinging_tasks), 'conflicts': keys(ensemble.conflicts_found),
                    'stops': stops, 'starts': starts, 'stops_before_starts': last_stop < first_start,
                    'alive': {f'{kind}|{k[0]}|{k[1]}': n for (kind, k), n in sorted(alive.items(), key=lambda x: (x[0][0], x[0][1][0], x[0][1][1] or '')) if n},
                    'task_state': {'watcher_done': sorted(str((rid_of[k.resource], k.namespace)) for k, tk in ensemble.watcher_tasks.items() if tk.done())},
                    'paused_toggles': len(paused),
                    'mandatory': bool(mandatory),
                    'pset': sorted((list(registry.get(id(tg), (-1, None, 999))) for tg in paused if tg is not box['pm']),
                                   key=lambda t: (t[0], t[1] or '', t[2])),
                    'flags': sorted((list(registry[id(tg)]) for tg in ensemble.conflicts_found.values()), key=lambda t: (t[0], t[1] or '', t[2])),
                    'on_keys': sorted(([rid_of[k.resource], k.namespace] for k, tg in ensemble.conflicts_found.items() if tg.is_on()),
                                      key=lambda k: (k[0], k[1] or '')),
                    'pm_on': box['pm'].is_on(), 'is_on': paused.is_on(),
                })
            for tk in list(ensemble.watcher_tasks.values()) + list(ensemble.peering_tasks.values()) + list(ensemble.pinging_tasks.values()):
                tk.cancel()
            loop.settle()
    finally:
        orchestration.queueing, orchestration.peering = saved
        vloop.close_loop(loop)
    return snaps


# ======================================================================================
# generators
# ======================================================================================

def gen_history(r: Any, flavour: str) -> tuple[list[dict], str]:
    """flavour: 'clusterwide' (namespaces in {}, {None}), 'namespaced' (subsets of names), 'mixed' (anything)."""
    mode = r.choice(['standalone', 'standalone', 'clusterwide', 'namespaced'])
    hist = []
    watched: set[int] = set()
    nss: set = set()
    peer_crd = False
    peer_rid = {'clusterwide': PEER_C, 'namespaced': PEER_N}.get(mode)
    for i in range(r.randrange(2, 8)):
        # resources appear / disappear
        for _ in range(r.randrange(0, 3)):
            x = r.randrange(N_RES)
            (watched.discard if x in watched and r.random() < 0.6 else watched.add)(x)
        if peer_rid is not None and r.random() < 0.15:
            (watched.discard if peer_rid in watched else watched.add)(peer_rid)    # a handler on the peering CRD itself
        # namespaces appear / disappear
        if flavour == 'clusterwide':
            if i > 0 or r.random() < 0.5:
                nss = {None}
        else:
            for _ in range(r.randrange(0, 3)):
                pool = NAMES + ([None] if flavour == 'mixed' else [])
                x = r.choice(pool)
                (nss.discard if x in nss and r.random() < 0.6 else nss.add)(x)
            if r.random() < 0.12:
                nss = set()
        if r.random() < 0.4:
            peer_crd = True
        if peer_rid in watched and not peer_crd:
            watched.discard(peer_rid)       # cannot watch a CRD that does not exist
        step = {'watched': sorted(watched), 'indexed': sorted(x for x in watched if r.random() < 0.3),
                'namespaces': sorted(nss, key=lambda n: n or ''), 'peer_crd': peer_crd}
        if hist and peer_rid is not None:
            # which peerings report a conflict just before this adjustment (among the namespaces served so far)
            step['on_ns'] = sorted((n for n in hist[-1]['namespaces'] + [None] if r.random() < 0.5), key=lambda n: n or '')
        hist.append(step)
    return hist, mode


def own_served(ins: dict) -> set[tuple]:
    """The harness's reading of "served (resource, namespace) pairs": every watched kind in every served namespace;
    a cluster-scoped kind is one pair whatever the namespace."""
    return {(rid, ns if res_namespaced(rid) else None) for rid in ins['watched'] for ns in ins['namespaces']}


def monitor_step(prev: dict | None, snap: dict) -> list[dict]:
    out = []
    ins = snap['insights']
    if snap['is_on'] and not snap['pm_on'] and not snap['on_keys']:
        out.append({'sig': 'paused-without-blocker',
                    'what': 'the operator is paused although no current peering reports a conflict and the peering CRD is not missing: '
                            'no served (resource, namespace) pair can be watched',
                    'observed': {'toggles_in_operator_paused': snap['pset'], 'current_peerings': snap['peerings'], 'on': snap['on_keys']}})
    served = own_served(ins)
    have = set(map(tuple, snap['watchers']))
    alive = {}
    for name, n in snap['alive'].items():
        kind, rid, ns = name.split('|')
        if kind == 'watcher':
            alive[(int(rid), None if ns == 'None' else ns)] = n
    if snap['error']:
        out.append({'sig': 'adjust-raised', 'what': 'adjust_tasks raised', 'observed': snap['error']})
    for k in served:
        n = alive.get(k, 0)
        if n != 1:
            out.append({'sig': 'missing-watch' if n == 0 else 'duplicate-watch',
                        'what': 'a served (resource, namespace) pair does not have exactly one active watch', 'observed': {'key': list(k), 'active': n}})
    for k, n in alive.items():
        if k in served or n == 0:
            continue
        rid, ns = k
        # corners stated as theorems (C19_cluster_scoped_corner / C19_peering_corner), reported and counted, not alarmed:
        corner = None
        if ns is None and rid in ins['watched'] and not res_namespaced(rid) and not ins['namespaces']:
            corner = 'O2: cluster-scoped kind keeps its watcher when no namespace is left'
        elif ns is None and rid in ins['watched'] and res_namespaced(rid) and None not in ins['namespaces']:
            corner = 'O2b: cluster-wide watcher of a namespaced kind survives the switch to specific namespaces'
        elif rid in ins['peering'] and rid not in ins['watched']:
            corner = 'P: un-watched peering resource keeps its watcher'
        if corner:
            out.append({'sig': 'corner', 'what': corner, 'observed': {'key': list(k)}})
        else:
            out.append({'sig': 'unserved-watch', 'what': 'a watch is active for a pair that is not served', 'observed': {'key': list(k), 'active': n}})
    return out


def ensemble_layer(ctx: fw.Ctx, header: str) -> None:
    from kopf._cogs.structs import bodies, references
    from kopf._core.reactor import observation
    r = ctx.rng
    cases_adj: list[fw.Case] = []
    n_hist = ctx.scale(260, 6000)
    for hi in range(n_hist):
        flavour = ['namespaced', 'clusterwide', 'mixed'][hi % 3]
        hist, mode = gen_history(r, flavour)
        mandatory = mode != 'standalone' and r.random() < 0.3
        snaps = run_history(hist, mode, mandatory)
        data0 = {'layer': 'ensemble', 'history': hist, 'mode': mode, 'mandatory': mandatory}
        ctx.count('history', f'{flavour}/{mode}')
        removal = False
        prev = {'watchers': [], 'peerings': [], 'pingers': [], 'conflicts': [], 'pset': [], 'flags': []}
        for si, snap in enumerate(snaps):
            ins = snap['insights']
            if si and (set(snaps[si - 1]['insights']['namespaces']) - set(ins['namespaces'])
                       or set(snaps[si - 1]['insights']['watched']) - set(ins['watched'])):
                removal = True
            e0, i0 = c_ens(prev), c_insights(ins)
            w_stop = [k for kind, k in snap['stops'] if kind == 'watcher']
            w_start = [k for kind, k in snap['starts'] if kind == 'watcher']
            p_stop = [k for kind, k in snap['stops'] if kind == 'peering']
            p_start = [k for kind, k in snap['starts'] if kind == 'peering']
            g_stop = [k for kind, k in snap['stops'] if kind == 'pinger']
            g_start = [k for kind, k in snap['starts'] if kind == 'pinger']
            term = (f'(let e0 := {e0} in let i := {i0} in let e1 := adjust i e0 in '
                    f'keys_same (watchers e1) {c_keys(snap["watchers"])} && keys_same (peerings e1) {c_keys(snap["peerings"])} && '
                    f'keys_same (pingers e1) {c_keys(snap["pingers"])} && keys_same (conflicts e1) {c_keys(snap["conflicts"])} && '
                    f'keys_same (stopped i (watchers e0)) {c_keys(w_stop)} && keys_same (started (watchers (terminate i e0)) (watchers e1)) {c_keys(w_start)} && '
                    f'keys_same (stopped i (peerings e0)) {c_keys(p_stop)} && keys_same (started (peerings (terminate i e0)) (peerings e1)) {c_keys(p_start)} && '
                    f'keys_same (stopped i (pingers e0)) {c_keys(g_stop)} && keys_same (started (pingers (terminate i e0)) (pingers e1)) {c_keys(g_start)} && '
                    f'{cq.cbool(snap["stops_before_starts"])} && {cq.cbool(snap["error"] is None)} && '
                    # the conflict toggles: conflicts_found and the content of operator_paused, old toggles by identity, new ones by key
                    f'(let fr := {cq.cnat(1 + max([t[2] for t in prev["pset"] + prev["flags"]], default=-1))} in '
                    f'let t1 := tadjust i {{| te := e0; flags := {c_togs(prev["flags"])}; pset := {c_togs(prev["pset"])}; fresh := fr |}} in '
                    f'let old := fun f : tog => Nat.ltb (snd f) fr in '
                    f'keys_same (map fst (pset t1)) {c_keys([(t[0], t[1]) for t in snap["pset"]])} && '
                    f'Nat.eqb (List.length (pset t1)) {cq.cnat(len(snap["pset"]))} && '
                    f'keys_same (map fst (flags t1)) {c_keys([(t[0], t[1]) for t in snap["flags"]])} && '
                    f'togs_same (filter old (pset t1)) (filter old {c_togs(snap["pset"])}) && '
                    f'togs_same (filter old (flags t1)) (filter old {c_togs(snap["flags"])}) && '
                    f'Bool.eqb (peering_missing {cq.cbool(snap["mandatory"])} i) {cq.cbool(snap["pm_on"])} && '
                    f'Bool.eqb (paused_on {cq.cbool(snap["mandatory"])} i {c_keys([tuple(k) for k in snap["on_keys"]])} t1) {cq.cbool(snap["is_on"])}))')
            data = {**data0, 'step': si, 'snapshot': {k: v for k, v in snap.items() if k != 'alive'}}
            cases_adj.append(fw.Case(term, data, diag=f'adjust {i0} {e0}'))
            for f in monitor_step(None, snap):
                if f['sig'] == 'corner':
                    ctx.count('corner', f['what'])
                else:
                    ctx.fail(f['what'], {**data0, 'step': si}, observed=f['observed'], sig=f['sig'])
            if len(w_stop) != len(set(w_stop)) or len(w_start) != len(set(w_start)):
                ctx.fail('a watcher task was started or stopped twice in one adjustment', {**data0, 'step': si},
                         observed={'stops': w_stop, 'starts': w_start}, sig='double-start-stop')
            ctx.count('adjust', 'stops+starts' if w_stop and w_start else 'stops' if w_stop else 'starts' if w_start else 'no-op')
            prev = {k: snap[k] for k in ('watchers', 'peerings', 'pingers', 'conflicts', 'pset', 'flags')}
            if snap['is_on']:
                ctx.count('paused', 'peering CRD missing (mandatory)' if snap['pm_on'] else 'a current peering reports a conflict')
            if si and any(tuple(t) not in {tuple(x) for x in snap['pset']} and t in snaps[si - 1]['pset'] and
                          [t[0], t[1]] in snaps[si - 1]['on_keys'] for t in snaps[si - 1]['pset']):
                ctx.count('paused', 'a toggle that was ON was dropped with its key')
        if removal and len(hist) >= 3:
            ctx.nontriv(['ens', hist, mode])
        if hi < 2:
            ctx.sample({'history': hist, 'mode': mode, 'watchers_after_each_step': [s['watchers'] for s in snaps]})
    ctx.differential('D_adjust', header, cases_adj, shard=150)

    # ---- revise_namespaces + match_namespace
    cases_ns: list[fw.Case] = []
    cases_glob: list[fw.Case] = []
    patterns_pool = ['ns*', 'ns1', '!ns2', 'ns?, !ns3', '*, !ns1, ns1', '!*-x, ns1', 'ns1,ns2', ' ns1 , ns3 ', '', '!ns*,ns1', 'a*,ns1']
    for _ in range(ctx.scale(300, 5000)):
        pats = r.sample(patterns_pool, r.randrange(1, 3))
        start = set(r.sample(NAMES, r.randrange(0, 3)))
        ins = references.Insights()
        ins.namespaces.update(start)
        evs, mevs = [], []
        for _ in range(r.randrange(1, 6)):
            name = r.choice(NAMES + ['other'])
            typ = r.choice([None, 'ADDED', 'MODIFIED', 'DELETED'])
            obj: dict = {'metadata': {'name': name}}
            if r.random() < 0.4:
                obj['metadata']['deletionTimestamp'] = '2030-01-01T00:00:00Z'
            conds = []
            if r.random() < 0.5:
                conds = [{'type': 'X', 'status': r.choice(['True', 'False']), 'reason': 'r', 'message': 'm'} for _ in range(r.randrange(1, 3))]
                obj['status'] = {'conditions': conds}
            elif r.random() < 0.2:
                obj['status'] = {'conditions': []}
            evs.append(bodies.RawEvent(type=typ, object=obj))   # type: ignore[typeddict-item]
            matched = any(references.match_namespace(name, p) for p in pats)
            mevs.append(f'{{| ne_name := {cq.cstr(name)}; ne_matched := {cq.cbool(matched)}; ne_type_deleted := {cq.cbool(typ == "DELETED")}; '
                        f'ne_marked := {cq.cbool("deletionTimestamp" in obj["metadata"])}; ne_conditions := {cq.cbool(bool(conds))}; '
                        f'ne_blocked := {cq.cbool(any(c["status"] == "True" for c in conds))} |}}')
            # the glob combination with fnmatch as the oracle
            for p in pats:
                globs = [g.strip() for g in p.split(',')]
                gl = []
                for gi, g in enumerate(globs):
                    neg = g.startswith('!')
                    hit = fnmatch.fnmatch(name, g.lstrip('!')) if neg else fnmatch.fnmatch(name, g)
                    gl.append(f'{{| g_neg := {cq.cbool(neg)}; g_hit := {cq.cbool(hit)} |}}')
                got = references.match_namespace(name, p)
                cases_glob.append(fw.Case(f'Bool.eqb (match_globs {cq.clist(gl)}) {cq.cbool(got)}', {'layer': 'glob', 'name': name, 'pattern': p, 'got': got},
                                          diag=f'match_globs {cq.clist(gl)}'))
        observation.revise_namespaces(insights=ins, namespaces=pats, raw_events=evs)
        got_ns = sorted(ins.namespaces)
        cases_ns.append(fw.Case(f'ns_same (revise_namespaces {cq.clist(c_ns(n) for n in sorted(start))} {cq.clist(mevs)}) {cq.clist(c_ns(n) for n in got_ns)}',
                                {'layer': 'nsrev', 'patterns': pats, 'start': sorted(start), 'events': evs, 'got': got_ns},
                                diag=f'revise_namespaces {cq.clist(c_ns(n) for n in sorted(start))} {cq.clist(mevs)}'))
        # monitor: a namespace that was really deleted is not served; a matching live one is
        for ev in evs[-1:]:
            nm = ev['object']['metadata']['name']
            if ev['type'] == 'DELETED' and not any(c.get('status') == 'True' for c in ev['object'].get('status', {}).get('conditions', [])):
                if nm in ins.namespaces:
                    ctx.fail('a deleted namespace is still served', {'layer': 'nsrev', 'patterns': pats, 'start': sorted(start), 'events': evs},
                             observed=got_ns, sig='deleted-namespace-served')
    ctx.differential('D_nsrev', header, cases_ns, shard=150)

    # ---- observation._update_resources (D_updres)
    cases_upd: list[fw.Case] = []
    groups = ['a.dev', 'b.dev', '']
    gpool = [(g, n, nsd) for g in groups for n in range(3) for nsd in (True,)]
    gres = {(g, n): references.Resource(group=g, version='v1', plural=f'kind{n}', kind=f'Kind{n}', namespaced=(n % 2 == 0),
                                         verbs=frozenset({'list', 'watch', 'patch'})) for g, n, _ in gpool}
    back = {v: k for k, v in gres.items()}

    def c_gres(k: tuple) -> str:
        return cq.cpair(cq.cstr(k[0]), f'{{| rid := {cq.cZ(k[1])}; rns := {cq.cbool(k[1] % 2 == 0)} |}}')
    for _ in range(ctx.scale(250, 4000)):
        before = set(r.sample(sorted(gres), r.randrange(0, 6)))
        grp = r.choice([None, None, 'a.dev', 'b.dev', ''])
        source_keys = [k for k in sorted(gres) if (grp is None or k[0] == grp) and r.random() < 0.6]     # what the (re)scan found
        sels = [references.Selector(k[0] + '/v1' if k[0] else 'v1', f'kind{k[1]}') for k in r.sample(sorted(gres), r.randrange(0, 5))]
        if r.random() < 0.15:
            sels.append(references.Selector(references.EVERYTHING))
        resources = {gres[k] for k in before}
        source = [gres[k] for k in source_keys]
        selected = sorted({back[x] for sel in sels for x in sel.select(source)})
        observation._update_resources(resources, sels, group=grp, source=source)
        after = sorted(back[x] for x in resources)
        ctx.count('update_resources', ('full scan' if grp is None else 'group rescan') + (': kinds left' if set(before) - set(after) else '') +
                  (': kinds joined' if set(after) - set(before) else ''))
        gterm = cq.copt(cq.cstr(grp) if grp is not None else None)
        cases_upd.append(fw.Case(
            f'gres_same (update_resources {gterm} {cq.clist(c_gres(k) for k in sorted(before))} {cq.clist(c_gres(k) for k in selected)}) '
            f'{cq.clist(c_gres(k) for k in after)}',
            {'layer': 'updres', 'group': grp, 'before': sorted(before), 'source': source_keys, 'selected': selected, 'after': after},
            diag=f'update_resources {gterm} {cq.clist(c_gres(k) for k in sorted(before))} {cq.clist(c_gres(k) for k in selected)}'))
        # monitor: a kind of the rescanned group that the scan no longer shows is not watched any more
        for k in before:
            if (grp is None or k[0] == grp) and k not in source_keys and k in after:
                ctx.fail('a resource kind that disappeared from the cluster scan is still in the insights',
                         {'layer': 'updres', 'group': grp, 'before': sorted(before), 'source': source_keys}, observed=after, sig='kind-not-removed')
    ctx.differential('D_updres', header, cases_upd, shard=150)

    # ---- observation.revise_resources with a real registry: _update_resources ; _disable_unsuitable_resources (D_revise)
    cases_rev: list[fw.Case] = []
    specs = []
    corpus = fw.ROOT / 'corpus' / 'C19'
    if corpus.is_dir():
        for cp in sorted(corpus.glob('*.json')):
            body = json.loads(cp.read_text())
            if body.get('layer') == 'revise':
                specs.append((body, 'corpus'))
    for _ in range(ctx.scale(300, 4000)):
        specs.append((gen_revise(r), 'random'))
    for spec, origin in specs:
        res = eval_revise(spec)
        ctx.count('revise', res['class'])
        for f in res['fails']:
            ctx.fail(f['what'], {**spec, 'after': res['after']}, observed=f['observed'], sig=f['sig'])
        cases_rev.append(fw.Case(res['term'], {**spec, 'after': res['after']}, diag=res['diag']))
    ctx.differential('D_revise', header, cases_rev, shard=150)
    ctx.differential('D_glob', header, cases_glob, shard=300)


# ======================================================================================
# observation.revise_resources with a real registry (spec-driven, also re-run from the corpus)
# ======================================================================================

REV_GROUPS = ['a.dev', 'b.dev', '']
REV_KEYS = [(g, n) for g in REV_GROUPS for n in range(3)]
REV_VERBS = {'all': {'list', 'watch', 'patch', 'get'}, 'ro': {'list', 'watch', 'get'}, 'nowatch': {'list', 'patch', 'get'}, 'nolist': {'watch', 'patch'}}


def _kname(k: Any) -> str:
    return f'{k[0]}/{k[1]}'


def _kparse(s_: str) -> tuple:
    g, n = s_.rsplit('/', 1)
    return (g, int(n))


def gen_revise(r: Any) -> dict:
    verbs = {_kname(k): r.choice(['all', 'all', 'all', 'ro', 'ro', 'nowatch', 'nolist']) for k in REV_KEYS}
    handlers = []
    for k in r.sample(REV_KEYS, r.randrange(1, 6)):
        for hk in r.sample(['event', 'index', 'create', 'update', 'timer', 'daemon'], r.randrange(1, 3)):
            handlers.append([_kname(k), hk])
    grp = r.choice([None, None, 'a.dev', 'b.dev', ''])
    return {'layer': 'revise', 'verbs': verbs, 'handlers': handlers, 'before': sorted(_kname(k) for k in r.sample(REV_KEYS, r.randrange(0, 5))),
            'group': grp, 'scan': [_kname(k) for k in REV_KEYS if (grp is None or k[0] == grp) and r.random() < 0.7]}


def eval_revise(spec: dict) -> dict:
    """Real revise_resources on the spec; the model term; the harness's judgement by the documented rule: a kind is served iff a
    handler selects it in the latest scan (or it belongs to a group that was not re-scanned), it can be listed and watched,
    and it can be patched unless only event/index handlers are declared for it."""
    import kopf
    from kopf._cogs.structs import references
    from kopf._core.reactor import observation
    verbs = {_kparse(k): v for k, v in spec['verbs'].items()}
    pool = {k: references.Resource(group=k[0], version='v1', plural=f'kind{k[1]}', kind=f'Kind{k[1]}', namespaced=(k[1] % 2 == 0),
                                   verbs=frozenset(REV_VERBS[verbs[k]])) for k in REV_KEYS}
    back = {v: k for k, v in pool.items()}

    async def _noop(**_: Any) -> None:
        return None
    registry = kopf.OperatorRegistry()
    hkinds: dict[tuple, list[str]] = {}
    for kn, hk in spec['handlers']:
        k = _kparse(kn)
        args = (k[0], 'v1', f'kind{k[1]}') if k[0] else ('v1', f'kind{k[1]}')
        hid = f'h_{hk}_{k[0]}_{k[1]}'
        if hk == 'event':
            kopf.on.event(*args, id=hid, registry=registry)(_noop)
        elif hk == 'index':
            kopf.index(*args, id=hid, registry=registry)(_noop)
        elif hk == 'timer':
            kopf.timer(*args, id=hid, registry=registry, interval=1)(_noop)
        elif hk == 'daemon':
            kopf.daemon(*args, id=hid, registry=registry)(_noop)
        else:
            getattr(kopf.on, hk)(*args, id=hid, registry=registry)(_noop)
        hkinds.setdefault(k, []).append(hk)
    watched_sel = (registry._indexing.get_all_selectors() | registry._watching.get_all_selectors() |
                   registry._spawning.get_all_selectors() | registry._changing.get_all_selectors())
    patched_sel = registry._spawning.get_all_selectors() | registry._changing.get_all_selectors()
    ins = references.Insights()
    before = sorted(_kparse(k) for k in spec['before'])
    ins.watched_resources.update(pool[k] for k in before)
    grp = spec['group']
    scan = [_kparse(k) for k in spec['scan']]
    source = [pool[k] for k in scan]
    selected = sorted({back[x] for sel in watched_sel for x in sel.select(source)})
    psel = sorted(k for k in REV_KEYS if any(sel.select([pool[k]]) for sel in patched_sel))
    observation.revise_resources(group=grp, insights=ins, registry=registry, resources=source)
    after = sorted(back[x] for x in ins.watched_resources)
    nowatch = sorted(k for k in REV_KEYS if verbs[k] in ('nowatch', 'nolist'))
    nopatch = sorted(k for k in REV_KEYS if verbs[k] == 'ro')
    cand = set(selected) | {k for k in before if not (grp is None or k[0] == grp)}
    expect = {k for k in cand if k not in nowatch and not (k in nopatch and k in psel)}
    fails = []
    for k in sorted(expect - set(after)):
        fails.append({'sig': 'served-kind-dropped',
                      'what': 'a resource kind that the handlers select and that can be listed and watched is not in the insights (it will not be watched)',
                      'observed': {'missing': list(k), 'verbs': verbs[k], 'handlers_on_it': hkinds.get(k, []),
                                   'state_storing_handlers_on': [_kname(x) for x in psel]}})
    for k in sorted(set(after) - expect):
        fails.append({'sig': 'unsuitable-kind-served', 'what': 'a resource kind that must not be served is in the insights',
                      'observed': {'extra': list(k), 'verbs': verbs[k]}})
    cls = ('read-only kind with a state-storing handler (dropped)' if any(k in nopatch and k in psel and k not in nowatch for k in cand) else
           'read-only kinds, event/index handlers only' if any(k in nopatch for k in cand) else 'no read-only kind')
    if any(k in nopatch and k not in psel and k not in nowatch for k in cand) and any(k in nopatch and k in psel for k in cand):
        cls += ' next to a read-only kind with event/index handlers only (stays: F1902)'
    if any(k in psel and k not in nopatch for k in cand):
        cls += ', state-storing handlers on patchable kinds'

    def c_g(k: tuple) -> str:
        return cq.cpair(cq.cstr(k[0]), f'{{| rid := {cq.cZ(k[1])}; rns := {cq.cbool(k[1] % 2 == 0)} |}}')
    ml = lambda ks: cq.clist(c_g(k) for k in ks)
    gterm = cq.copt(cq.cstr(grp) if grp is not None else None)
    call = f'revise_watched {gterm} {ml(before)} {ml(selected)} {ml(nowatch)} {ml(nopatch)} {ml(psel)}'
    return {'after': [_kname(k) for k in after], 'fails': fails, 'class': cls, 'term': f'gres_same ({call}) {ml(after)}', 'diag': call}


# ======================================================================================
# whole operator: FakeAPI's connection table vs the served pairs
# ======================================================================================

SIM_NS_POOL = ['ns1', 'ns2', 'ns3', 'other']       # the operator serves the pattern 'ns*'


def _sim_kinds() -> dict:
    from kv import fakeapi
    return {'k': fakeapi.KOPFEXAMPLE,
            'ct': fakeapi.Kind('kopf.dev', 'v1', 'ClusterThing', 'clusterthings', namespaced=False),
            'nk': fakeapi.Kind('c19.dev', 'v1', 'SpacedThing', 'spacedthings', namespaced=True),
            # a read-only kind (no `patch` verb), served by an on.event handler only
            'ro': fakeapi.Kind('ro.c19.dev', 'v1', 'ReadOnlyThing', 'readonlythings', namespaced=True, verbs=('list', 'watch', 'get'))}


def gen_sim(r: Any) -> dict:
    clusterwide = r.random() < 0.3
    steps = []
    for _ in range(r.randrange(3, 9)):
        x = r.random()
        if x < 0.5:
            steps.append([r.choice(['ns+', 'ns-']), r.choice(SIM_NS_POOL)])
        elif x < 0.65:
            steps.append([r.choice(['kind+', 'kind-']), r.choice(['ct', 'nk'])])
        elif x < 0.85:
            # the CRD stays but is MODIFIED so that the selector matching flips: category / short name / verbs
            k = r.choice(['ct', 'nk'])
            steps.append(['crd~', k, r.choice(['sel-', 'sel-', 'sel+', 'verbs-', 'verbs+'])])
        else:
            steps.append(['end', r.choice(['eof', 'connection', 'timeout'])])     # every open stream reconnects (no re-list)
    # the version counter starts just below a power of ten: versions gain a digit while the streams are open
    return {'clusterwide': clusterwide, 'init_ns': r.sample(SIM_NS_POOL, r.randrange(0, 3)), 'init_kinds': r.sample(['ct', 'nk'], r.randrange(0, 3)),
            'steps': steps, 'rv0': r.choice([100, 3, 5, 7, 8, 93, 95, 97, 98, 995, 997]),
            # a read-only kind with an event handler, next to a kind with a state-storing (on.create) handler that may appear at runtime
            'ro': r.random() < 0.6, 'ct_handler': r.choice(['event', 'create', 'create'])}


def run_sim(case: dict) -> list[dict]:
    """One kopf.operator() incarnation (scanning enabled) under kv.sim; namespaces and CRDs come and go.
    Returns, after every step, the open watch streams of the served kinds and the harness's reading of the served pairs."""
    from kv import fakeapi, sim
    import kopf
    kinds = _sim_kinds()
    present = {'k'} | set(case['init_kinds']) | ({'ro'} if case.get('ro') else set())
    W = sim.World(kinds=[kinds[k] for k in sorted(present)])
    api = W.api
    api.rv = int(case.get('rv0', 100))
    out: list[dict] = []
    # what the discovery says about the two custom kinds NOW (the CRD can be modified while it exists):
    # `nk` is selected by its category only, `ct` by its short name only, `k` by its full name
    full = ('list', 'watch', 'patch', 'get', 'create', 'delete')
    attrs = {'ct': {'selected': True, 'verbs': full}, 'nk': {'selected': True, 'verbs': full}}
    plural_of = {kinds[x].plural: x for x in attrs}
    orig_discovery = api._discovery

    def discovery(group: str, version: str) -> Any:
        resp = orig_discovery(group, version)
        if resp.status == 200:
            for res in resp._payload['resources']:
                x = plural_of.get(res['name'])
                if x is not None:
                    res['verbs'] = list(attrs[x]['verbs'])
                    res['categories'] = ['c19cat'] if x == 'nk' and attrs[x]['selected'] else []
                    res['shortNames'] = ['cth'] if x == 'ct' and attrs[x]['selected'] else []
        return resp
    api._discovery = discovery      # type: ignore[method-assign]
    revision = [0]
    orig_build = sim.build_registry

    def build(world: Any, inc_: Any, handlers_: list, kind: Any) -> Any:
        reg = orig_build(world, inc_, [h for h in handlers_ if 'c19_selector' not in h], kind)
        for h in handlers_:
            if 'c19_selector' in h:
                args, kw = h['c19_selector']
                getattr(kopf.on, h.get('c19_deco', 'event'))(*args, **kw, id=h['id'], registry=reg)(sim.make_handler(world, inc_, h))
        return reg
    try:
        for ns in case['init_ns']:
            api.create(fakeapi.NAMESPACE, None, ns)
        for k in sorted(present):
            api.create(fakeapi.CRD, None, f'{kinds[k].plural}.{kinds[k].group}', {'spec': {'group': kinds[k].group}})

        def conf(s: Any) -> None:
            s.scanning.disabled = False
            s.watching.reconnect_backoff = 0.125
        ct_kind = case.get('ct_handler', 'event')
        handlers = [{'id': 'ev_k', 'kind': 'event'}, {'id': 'h_ct', 'kind': ct_kind, 'c19_selector': (('cth',), {}), 'c19_deco': ct_kind},
                    {'id': 'ev_nk', 'kind': 'event', 'c19_selector': ((), {'category': 'c19cat'})},
                    {'id': 'ev_ro', 'kind': 'event', 'resource': kinds['ro']}]
        sim.build_registry = build
        try:
            inc = W.operator('op', handlers, namespaces=None if case['clusterwide'] else ['ns*'], configure=conf).start()
        finally:
            sim.build_registry = orig_build
        W.run_for(4)

        def snap(step: Any) -> dict:
            nss = sorted(k[2] for k in api.objects if k[0] == fakeapi.NAMESPACE.key)
            table: dict[str, int] = {}
            for st in api.streams:
                if not st.closed and st.kind.plural in ('kopfexamples', 'clusterthings', 'spacedthings', 'readonlythings'):
                    key = f'{st.kind.plural}|{st.namespace}'
                    table[key] = table.get(key, 0) + 1
            return {'step': step, 'namespaces': nss, 'kinds': sorted(present), 'table': dict(sorted(table.items())),
                    'latest_scan': {x: {'selected': attrs[x]['selected'], 'verbs': sorted(attrs[x]['verbs'])} for x in sorted(attrs)},
                    'operator': inc.state, 'exception': repr(inc.exception) if inc.exception else None}
        out.append(snap('start'))
        for step in case['steps']:
            a, x = step[0], step[1]
            if a == 'crd~':
                how = step[2]
                if how in ('sel-', 'sel+'):
                    attrs[x]['selected'] = how == 'sel+'
                else:
                    attrs[x]['verbs'] = full if how == 'verbs+' else tuple(v for v in full if v != 'watch')
                if x in present:       # the CRD object changes: a MODIFIED event on the CRD stream, kopf re-scans the group
                    revision[0] += 1
                    api.merge_edit(fakeapi.CRD, None, f'{kinds[x].plural}.{kinds[x].group}', {'spec': {'revision': revision[0]}})
            elif a == 'ns+' and api.get(fakeapi.NAMESPACE, None, x) is None:
                api.create(fakeapi.NAMESPACE, None, x)
            elif a == 'ns-':
                api.delete(fakeapi.NAMESPACE, None, x)
            elif a == 'kind+' and x not in present:
                present.add(x)
                api.kinds[kinds[x].key] = kinds[x]
                api.create(fakeapi.CRD, None, f'{kinds[x].plural}.{kinds[x].group}', {'spec': {'group': kinds[x].group}})
            elif a == 'kind-' and x in present:
                present.discard(x)
                del api.kinds[kinds[x].key]
                api.delete(fakeapi.CRD, None, f'{kinds[x].plural}.{kinds[x].group}')
            elif a == 'end':
                for st in api.open_streams():
                    st.terminate(x)
            W.run_for(3)
            out.append(snap(step))
        out[-1]['resume_violations'] = sim_resume_violations(api)
    finally:
        W.close()
    return out


def sim_resume_violations(api: Any) -> list[dict]:
    """The harness's reading of "resumed from the latest version seen" on FakeAPI's own records: for every
    (resource, namespace) the watch connections in the order they were opened; a connection that follows another one
    without a LIST of that pair in between must start from the version of the LAST event delivered on the previous
    connection (its own start version if it delivered nothing); after a LIST, from the LIST's version."""
    watches = [i for i, e in enumerate(api.tracelog) if e['what'] == 'watch']
    lists = [i for i, e in enumerate(api.tracelog) if e['what'] == 'list']
    list_reqs = [q for q in api.requests if q.method == 'GET' and q.target is not None and q.target[2] is None
                 and q.query.get('watch') != 'true' and q.status == 200]
    if len(watches) != len(api.streams) or len(lists) != len(list_reqs):
        raise RuntimeError('observation point missing: FakeAPI tracelog does not line up with its streams/requests')
    seq: dict[tuple, list] = {}
    for i, q in zip(lists, list_reqs):
        seq.setdefault((q.target[0], q.target[1]), []).append((i, 'list', api.tracelog[i]['rv'], None))
    for i, st in zip(watches, api.streams):
        seq.setdefault((st.kind.key, st.namespace), []).append((i, 'watch', api.tracelog[i]['since'], st))
    out = []
    for pair, items in seq.items():
        items.sort(key=lambda x: x[0])
        latest: int | None = None
        for _, what, v, st in items:
            if what == 'list':
                latest = v
                continue
            if latest is not None and v != latest:
                out.append({'pair': [pair[0][2], pair[1]], 'since': v, 'latest_seen': latest})
            if st.delivered:
                latest = st.delivered[-1][0]
            elif latest is None:
                latest = v
    return out


def monitor_sim(case: dict, snaps: list[dict]) -> tuple[list[dict], list[str]]:
    kinds = _sim_kinds()
    fails, corners = [], []
    for v in (snaps[-1].get('resume_violations') or []) if snaps else []:
        fails.append({'sig': 'sim-resume', 'what': 'a watch connection of the operator was (re)started from a version other than the latest one '
                      'seen on the previous connection / listing', 'observed': v})
    for s in snaps:
        if s['operator'] != 'running':
            fails.append({'sig': 'operator-exited', 'what': 'the operator exited during the scenario', 'observed': s})
            break
        served_ns: list = [None] if case['clusterwide'] else [n for n in s['namespaces'] if fnmatch.fnmatch(n, 'ns*')]
        want: dict[str, int] = {}
        undetermined = set()
        for k in s['kinds']:
            kd = kinds[k]
            scan = s.get('latest_scan', {}).get(k)
            # documented selector semantics on the LATEST scan only: the category / short name must still be there,
            # and a kind that cannot be listed and watched is not served
            if scan is not None and not (scan['selected'] and {'list', 'watch'} <= set(scan['verbs'])):
                continue
            if kd.namespaced:
                for ns in served_ns:
                    want[f'{kd.plural}|{ns}'] = 1
            elif served_ns:
                want[f'{kd.plural}|None'] = 1
            else:
                undetermined.add(f'{kd.plural}|None')       # O2: cluster-scoped kind while no namespace is served
        table = dict(s['table'])
        for key in undetermined:
            if table.pop(key, 0):
                corners.append('O2 in the whole operator: cluster-scoped kind watched while no namespace is served')
        if table != want:
            fails.append({'sig': 'connection-table', 'what': 'open watch streams differ from the served (resource, namespace) pairs',
                          'observed': {'step': s['step'], 'open': table, 'served': want, 'namespaces': s['namespaces'], 'kinds': s['kinds']}})
    return fails, corners


def sim_layer(ctx: fw.Ctx) -> None:
    r = ctx.rng
    for i in range(ctx.scale(60, 600)):
        case = gen_sim(r)
        snaps = run_sim(case)
        fails, corners = monitor_sim(case, snaps)
        ctx.count('sim', 'clusterwide' if case['clusterwide'] else 'namespaced')
        for c in corners:
            ctx.count('corner', c)
        for st in case['steps']:
            ctx.count('sim_steps', st[0] + (':' + st[1] if st[0] == 'end' else ':' + st[2] if st[0] == 'crd~' else ''))
        ctx.count('sim_rv0', str(case.get('rv0', 100)))
        ctx.count('sim_handlers', f"read-only kind with on.event: {bool(case.get('ro'))}; other kind's handler: on.{case.get('ct_handler', 'event')}")
        for sn in snaps:
            for x, scan in sn.get('latest_scan', {}).items():
                if x in sn['kinds']:
                    plural = _sim_kinds()[x].plural
                    watched = any(k.startswith(plural + '|') for k in sn['table'])
                    state = ('deselected (category / short name gone)' if not scan['selected'] else
                             'unwatchable (verb gone)' if 'watch' not in scan['verbs'] else 'selected by category / short name')
                    ctx.count('sim_kind_state', f'{state}: {"watched" if watched else "not watched"}')
        for f in fails:
            ctx.fail(f['what'], {'layer': 'sim', **case}, observed=f['observed'], sig=f['sig'])
        if len([s for s in case['steps'] if s[0] in ('ns-', 'kind-')]) >= 1 and len(case['steps']) >= 3:
            ctx.nontriv(['sim', case])
        if i == 0:
            ctx.sample({'sim': case, 'tables': [s['table'] for s in snaps]})


# ======================================================================================
# whole operator with namespaced peering: paused only while a CURRENT peering shows a live blocker
# ======================================================================================

def gen_peer_sims(r: Any, n_random: int) -> list[dict]:
    out = []
    for blocker_ns in ('ns2', 'ns1'):
        for action in ('remove-blocker-ns', 'remove-other-ns', 'withdraw', 'nothing', 'remove-blocker-ns-then-add-ns3'):
            out.append({'layer': 'peersim', 'blocker_ns': blocker_ns, 'action': action, 'rv0': 100, 'mandatory': False})
    for _ in range(n_random):
        out.append({'layer': 'peersim', 'blocker_ns': r.choice(['ns1', 'ns2']),
                    'action': r.choice(['remove-blocker-ns', 'remove-blocker-ns', 'remove-other-ns', 'withdraw', 'remove-blocker-ns-then-add-ns3']),
                    'rv0': r.choice([100, 5, 93, 995]), 'mandatory': r.random() < 0.5})
    return out


def run_peer_sim(case: dict) -> list[dict]:
    """Namespaces ns1, ns2, each with a KopfPeering `default`; one operator (priority 10, namespaced peering) serving ns*;
    a higher-priority peer record appears in one of them (the operator pauses); then that namespace goes away / the other
    one goes away / the peer withdraws.  A snapshot after every phase."""
    from kv import clock, fakeapi, sim
    K, P = fakeapi.KOPFEXAMPLE, fakeapi.KOPFPEERING
    W = sim.World(kinds=[K, P])
    api = W.api
    api.rv = int(case.get('rv0', 100))
    out: list[dict] = []
    try:
        for ns in ('ns1', 'ns2'):
            api.create(fakeapi.NAMESPACE, None, ns)
            api.create(P, ns, 'default', {})
        for k in (K, P):
            api.create(fakeapi.CRD, None, f'{k.plural}.{k.group}', {'spec': {'group': k.group}})

        def conf(s: Any) -> None:
            s.scanning.disabled = False
            s.watching.reconnect_backoff = 0.125
            s.peering.name = 'default'
            s.peering.priority = 10
            s.peering.lifetime = 60
            s.peering.mandatory = bool(case.get('mandatory', False))
        inc = W.operator('op', [{'id': 'ev', 'kind': 'event'}], namespaces=['ns*'], configure=conf,
                         peering={'standalone': False, 'peering_name': 'default', 'priority': 10}).start()

        def snap(phase: str) -> dict:
            nss = sorted(k[2] for k in api.objects if k[0] == fakeapi.NAMESPACE.key and fnmatch.fnmatch(k[2], 'ns*'))
            open_ = sorted(st.namespace for st in api.streams if not st.closed and st.kind.key == K.key)
            now = clock.vnow()
            blockers = []
            for ns in nss:            # the harness's own reading of "a current peering shows a live higher-priority peer"
                obj = api.get(P, ns, 'default') or {}
                for who, rec in (obj.get('status') or {}).items():
                    if not isinstance(rec, dict) or who == 'blocker-self':
                        continue
                    if who.startswith('blocker') and int(rec.get('priority', 0)) >= 10:
                        import datetime as _dt
                        seen = _dt.datetime.fromisoformat(rec['lastseen'])
                        if seen + _dt.timedelta(seconds=int(rec['lifetime'])) > now:
                            blockers.append(ns)
            return {'phase': phase, 'namespaces': nss, 'open_watches': open_, 'live_blockers_in_current_peerings': blockers,
                    'operator': inc.state, 'exception': repr(inc.exception) if inc.exception else None}

        W.run_for(5)
        out.append(snap('started'))
        bns = case['blocker_ns']
        other = 'ns1' if bns == 'ns2' else 'ns2'
        api.merge_edit(P, bns, 'default', {'status': {'blocker': {'priority': 100, 'lifetime': 600, 'lastseen': clock.vnow().isoformat()}}})
        W.run_for(5)
        out.append(snap('peer-appeared'))
        a = case['action']
        if a.startswith('remove-blocker-ns'):
            api.delete(P, bns, 'default')
            api.delete(fakeapi.NAMESPACE, None, bns)
        elif a == 'remove-other-ns':
            api.delete(P, other, 'default')
            api.delete(fakeapi.NAMESPACE, None, other)
        elif a == 'withdraw':
            api.merge_edit(P, bns, 'default', {'status': {'blocker': None}})
        W.run_for(8)
        out.append(snap(a))
        if a.endswith('then-add-ns3'):
            api.create(fakeapi.NAMESPACE, None, 'ns3')
            api.create(P, 'ns3', 'default', {})
            W.run_for(8)
            out.append(snap('ns3-added'))
    finally:
        W.close()
    return out


def monitor_peer_sim(case: dict, snaps: list[dict]) -> list[dict]:
    fails = []
    for s in snaps:
        if s['operator'] != 'running':
            fails.append({'sig': 'operator-exited', 'what': 'the operator exited during the scenario', 'observed': s})
            break
        if s['live_blockers_in_current_peerings']:
            if s['open_watches']:
                fails.append({'sig': 'watching-while-blocked', 'what': 'resources are watched although a current peering shows a live '
                              'higher-priority peer', 'observed': s})
            continue
        if s['open_watches'] != s['namespaces']:
            missing = [n for n in s['namespaces'] if n not in s['open_watches']]
            fails.append({'sig': 'paused-without-blocker' if not s['open_watches'] else 'served-pair-unwatched',
                          'what': 'at quiescence a served (resource, namespace) pair has no open watch although no current peering shows a '
                                  'live higher-priority peer (the operator stays paused by a peering that is gone)',
                          'observed': {**s, 'unwatched': missing}})
    return fails


def peer_sim_layer(ctx: fw.Ctx) -> None:
    for case in gen_peer_sims(ctx.rng, ctx.scale(6, 80)):
        snaps = run_peer_sim(case)
        ctx.count('peersim', case['action'])
        for s in snaps:
            ctx.count('peersim_phase', ('blocked' if s['live_blockers_in_current_peerings'] else 'free') + ':' + ('watching' if s['open_watches'] else 'not-watching'))
        for f in monitor_peer_sim(case, snaps):
            ctx.fail(f['what'], case, observed=f['observed'], sig=f['sig'])
        if case['action'].startswith('remove'):
            ctx.nontriv(['peersim', case])


def replay(ctx: fw.Ctx, case: dict) -> bool:
    if case.get('layer') == 'revise':
        res = eval_revise(case)
        for f in res['fails']:
            print('  ', f['sig'], f['what'], f['observed'])
        return bool(res['fails'])
    if case.get('layer') == 'peersim':
        fails = monitor_peer_sim(case, run_peer_sim(case))
        for f in fails:
            print('  ', f['sig'], f['what'], f['observed'])
        return bool(fails)
    if case.get('layer') == 'sim':
        fails, _ = monitor_sim(case, run_sim(case))
        for f in fails:
            print('  ', f['sig'], f['what'], f['observed'])
        return bool(fails)
    if case.get('layer') != 'ensemble':
        print('  (differential-only case: re-run the check)')
        return False
    snaps = run_history(case['history'], case['mode'], bool(case.get('mandatory', False)))
    bad = False
    for si, snap in enumerate(snaps):
        for f in monitor_step(None, snap):
            if f['sig'] != 'corner':
                print('  step', si, f['sig'], f['what'], f['observed'])
                bad = True
    return bad
