"""C19, ensemble part: the REAL orchestration.adjust_tasks driven with dummy insights and stub watcher /
keep-alive coroutines (key sets, stops, starts after every insight change == Model/Ensemble.v `adjust`),
the REAL observation.revise_namespaces and references.match_namespace, and the coverage monitor
("exactly one watch per served pair, none for anything else") evaluated on the stub tasks that are alive.
"""
from __future__ import annotations

import asyncio
import fnmatch
import logging
from typing import Any

from kv import coqio as cq, framework as fw, vloop

N_RES = 5          # dummy resource kinds 0..4: even = namespaced, odd = cluster-scoped
PEER_C, PEER_N = 100, 101     # clusterkopfpeerings (cluster-scoped), kopfpeerings (namespaced)
NAMES = ['ns1', 'ns2', 'ns3']


def res_namespaced(rid: int) -> bool:
    if rid == PEER_C:
        return False
    if rid == PEER_N:
        return True
    return rid % 2 == 0


def c_res(rid: int) -> str:
    return f'{{| rid := {cq.cZ(rid)}; rns := {cq.cbool(res_namespaced(rid))} |}}'


def c_ns(ns: str | None) -> str:
    return cq.copt(cq.cstr(ns) if ns is not None else None)


def c_key(k: tuple) -> str:
    return cq.cpair(c_res(k[0]), c_ns(k[1]))


def c_keys(ks: Any) -> str:
    return cq.clist(c_key(k) for k in sorted(ks, key=lambda k: (k[0], k[1] or '')))


def c_insights(ins: dict) -> str:
    return (f'{{| watched := {cq.clist(c_res(r) for r in ins["watched"])}; '
            f'namespaces := {cq.clist(c_ns(n) for n in ins["namespaces"])}; '
            f'peering := {cq.clist(c_res(r) for r in ins["peering"])} |}}')


def c_ens(e: dict) -> str:
    return (f'{{| watchers := {c_keys(e["watchers"])}; peerings := {c_keys(e["peerings"])}; '
            f'pingers := {c_keys(e["pingers"])}; conflicts := {c_keys(e["conflicts"])} |}}')


class _Proxy:
    def __init__(self, target: Any, **over: Any) -> None:
        self.__dict__['_t'] = target
        self.__dict__.update(over)

    def __getattr__(self, name: str) -> Any:
        return getattr(self._t, name)


def run_history(history: list[dict], mode: str) -> list[dict]:
    """history: insights per step {'watched': [rid], 'indexed': [rid], 'namespaces': [ns|None], 'peer_crd': bool};
    mode: 'standalone' | 'clusterwide' | 'namespaced' (settings.peering).  Returns one snapshot per step."""
    import kopf
    from kopf._cogs.aiokits import aiotoggles
    from kopf._cogs.structs import references
    from kopf._core.engines import peering
    from kopf._core.reactor import orchestration, queueing

    for name in ('adjust_tasks', 'terminate_redundancies', 'spawn_missing_peerings', 'spawn_missing_watchers', 'Ensemble', 'EnsembleKey'):
        if not hasattr(orchestration, name):
            raise RuntimeError(f'observation point missing: orchestration.{name}')
    if not hasattr(orchestration, 'queueing') or not hasattr(orchestration, 'peering'):
        raise RuntimeError('observation point missing: orchestration.queueing / orchestration.peering')
    logging.getLogger('kopf').setLevel(logging.CRITICAL + 1)

    pool: dict[int, Any] = {}
    for rid in range(N_RES):
        pool[rid] = references.Resource(group='c19.dev', version='v1', plural=f'kind{rid}', kind=f'Kind{rid}',
                                        namespaced=res_namespaced(rid), verbs=frozenset({'list', 'watch', 'patch'}))
    pool[PEER_C] = references.Resource(group='kopf.dev', version='v1', plural='clusterkopfpeerings', kind='ClusterKopfPeering',
                                       namespaced=False, verbs=frozenset({'list', 'watch', 'patch'}))
    pool[PEER_N] = references.Resource(group='kopf.dev', version='v1', plural='kopfpeerings', kind='KopfPeering',
                                       namespaced=True, verbs=frozenset({'list', 'watch', 'patch'}))
    rid_of = {v: k for k, v in pool.items()}

    log: list[tuple] = []      # (what, kind, key) in the order things happen
    alive: dict[tuple, int] = {}

    def key_of(resource: Any, namespace: Any) -> tuple:
        return (rid_of[resource], namespace)

    async def stub_watcher(*, namespace: Any, settings: Any, resource: Any, processor: Any, operator_paused: Any = None,
                           operator_indexed: Any = None, resource_indexed: Any = None) -> None:
        kind = 'watcher' if operator_paused is not None else 'peering'
        k = key_of(resource, namespace)
        log.append(('start', kind, k))
        alive[(kind, k)] = alive.get((kind, k), 0) + 1
        try:
            await asyncio.Event().wait()
        finally:
            alive[(kind, k)] -= 1
            log.append(('stop', kind, k))

    async def stub_keepalive(*, namespace: Any, resource: Any, identity: Any, settings: Any) -> None:
        k = key_of(resource, namespace)
        log.append(('start', 'pinger', k))
        alive[('pinger', k)] = alive.get(('pinger', k), 0) + 1
        try:
            await asyncio.Event().wait()
        finally:
            alive[('pinger', k)] -= 1
            log.append(('stop', 'pinger', k))

    async def dummy_processor(**_: Any) -> None:
        return None

    saved = (orchestration.queueing, orchestration.peering)
    orchestration.queueing = _Proxy(queueing, watcher=stub_watcher)      # type: ignore[assignment]
    orchestration.peering = _Proxy(peering, keepalive=stub_keepalive)    # type: ignore[assignment]
    loop = vloop.new_loop()
    snaps: list[dict] = []
    try:
        with vloop.running(loop):
            settings = kopf.OperatorSettings()
            settings.peering.standalone = mode == 'standalone'
            settings.peering.clusterwide = mode == 'clusterwide'
            settings.peering.mandatory = False
            insights = references.Insights()
            paused = aiotoggles.ToggleSet(any)
            box: dict[str, Any] = {}

            async def setup() -> None:
                box['pm'] = await paused.make_toggle(name='peering CRD is missing')
            loop.spawn(setup())
            loop.settle()
            ensemble = orchestration.Ensemble(peering_missing=box['pm'], operator_paused=paused,
                                              operator_indexed=aiotoggles.ToggleSet(all))
            identity = peering.Identity('c19')
            peer_rid = {'clusterwide': PEER_C, 'namespaced': PEER_N}.get(mode)

            for step in history:
                if step.get('peer_crd') and peer_rid is not None:
                    t = loop.spawn(insights.backbone.fill(resources=[pool[peer_rid]]))
                    loop.settle()
                    t.result()
                insights.watched_resources.clear()
                insights.watched_resources.update(pool[r] for r in step['watched'])
                insights.indexed_resources.clear()
                insights.indexed_resources.update(pool[r] for r in step.get('indexed', []))
                insights.namespaces.clear()
                insights.namespaces.update(step['namespaces'])
                mark = len(log)
                t = loop.spawn(orchestration.adjust_tasks(processor=dummy_processor, insights=insights, settings=settings,
                                                          identity=identity, ensemble=ensemble))
                loop.run_until(t.done, loop.time() + 60)
                if not t.done():
                    raise RuntimeError('adjust_tasks did not finish')
                err = t.exception()
                seg = log[mark:]
                peer_now = [peer_rid] if peer_rid is not None and any(rid_of[r] == peer_rid for r in insights.backbone.values()) else []

                def keys(d: dict) -> list:
                    return sorted(((rid_of[k.resource], k.namespace) for k in d), key=lambda k: (k[0], k[1] or ''))
                stops = [(kind, k) for what, kind, k in seg if what == 'stop']
                starts = [(kind, k) for what, kind, k in seg if what == 'start']
                last_stop = max([i for i, x in enumerate(seg) if x[0] == 'stop'], default=-1)
                first_start = min([i for i, x in enumerate(seg) if x[0] == 'start'], default=len(seg))
                snaps.append({
                    'insights': {'watched': sorted(step['watched']), 'namespaces': sorted(step['namespaces'], key=lambda n: n or ''),
                                 'peering': peer_now},
                    'error': type(err).__name__ if err is not None else None,
                    'watchers': keys(ensemble.watcher_tasks), 'peerings': keys(ensemble.peering_tasks),
                    'pingers': keys(ensemble.pinging_tasks), 'conflicts': keys(ensemble.conflicts_found),
                    'stops': stops, 'starts': starts, 'stops_before_starts': last_stop < first_start,
                    'alive': {f'{kind}|{k[0]}|{k[1]}': n for (kind, k), n in sorted(alive.items(), key=lambda x: (x[0][0], x[0][1][0], x[0][1][1] or '')) if n},
                    'task_state': {'watcher_done': sorted(str((rid_of[k.resource], k.namespace)) for k, tk in ensemble.watcher_tasks.items() if tk.done())},
                    'paused_toggles': len(paused),
                })
            for tk in list(ensemble.watcher_tasks.values()) + list(ensemble.peering_tasks.values()) + list(ensemble.pinging_tasks.values()):
                tk.cancel()
            loop.settle()
    finally:
        orchestration.queueing, orchestration.peering = saved
        vloop.close_loop(loop)
    return snaps


# ======================================================================================
# generators
# ======================================================================================

def gen_history(r: Any, flavour: str) -> tuple[list[dict], str]:
    """flavour: 'clusterwide' (namespaces in {}, {None}), 'namespaced' (subsets of names), 'mixed' (anything)."""
    mode = r.choice(['standalone', 'standalone', 'clusterwide', 'namespaced'])
    hist = []
    watched: set[int] = set()
    nss: set = set()
    peer_crd = False
    peer_rid = {'clusterwide': PEER_C, 'namespaced': PEER_N}.get(mode)
    for i in range(r.randrange(2, 8)):
        # resources appear / disappear
        for _ in range(r.randrange(0, 3)):
            x = r.randrange(N_RES)
            (watched.discard if x in watched and r.random() < 0.6 else watched.add)(x)
        if peer_rid is not None and r.random() < 0.15:
            (watched.discard if peer_rid in watched else watched.add)(peer_rid)    # a handler on the peering CRD itself
        # namespaces appear / disappear
        if flavour == 'clusterwide':
            if i > 0 or r.random() < 0.5:
                nss = {None}
        else:
            for _ in range(r.randrange(0, 3)):
                pool = NAMES + ([None] if flavour == 'mixed' else [])
                x = r.choice(pool)
                (nss.discard if x in nss and r.random() < 0.6 else nss.add)(x)
            if r.random() < 0.12:
                nss = set()
        if r.random() < 0.4:
            peer_crd = True
        if peer_rid in watched and not peer_crd:
            watched.discard(peer_rid)       # cannot watch a CRD that does not exist
        hist.append({'watched': sorted(watched), 'indexed': sorted(x for x in watched if r.random() < 0.3),
                     'namespaces': sorted(nss, key=lambda n: n or ''), 'peer_crd': peer_crd})
    return hist, mode


def own_served(ins: dict) -> set[tuple]:
    """The harness's reading of "served (resource, namespace) pairs": every watched kind in every served namespace;
    a cluster-scoped kind is one pair whatever the namespace."""
    return {(rid, ns if res_namespaced(rid) else None) for rid in ins['watched'] for ns in ins['namespaces']}


def monitor_step(prev: dict | None, snap: dict) -> list[dict]:
    out = []
    ins = snap['insights']
    served = own_served(ins)
    have = set(map(tuple, snap['watchers']))
    alive = {}
    for name, n in snap['alive'].items():
        kind, rid, ns = name.split('|')
        if kind == 'watcher':
            alive[(int(rid), None if ns == 'None' else ns)] = n
    if snap['error']:
        out.append({'sig': 'adjust-raised', 'what': 'adjust_tasks raised', 'observed': snap['error']})
    for k in served:
        n = alive.get(k, 0)
        if n != 1:
            out.append({'sig': 'missing-watch' if n == 0 else 'duplicate-watch',
                        'what': 'a served (resource, namespace) pair does not have exactly one active watch', 'observed': {'key': list(k), 'active': n}})
    for k, n in alive.items():
        if k in served or n == 0:
            continue
        rid, ns = k
        # corners stated as theorems (C19_cluster_scoped_corner / C19_peering_corner), reported and counted, not alarmed:
        corner = None
        if ns is None and rid in ins['watched'] and not res_namespaced(rid) and not ins['namespaces']:
            corner = 'O2: cluster-scoped kind keeps its watcher when no namespace is left'
        elif ns is None and rid in ins['watched'] and res_namespaced(rid) and None not in ins['namespaces']:
            corner = 'O2b: cluster-wide watcher of a namespaced kind survives the switch to specific namespaces'
        elif rid in ins['peering'] and rid not in ins['watched']:
            corner = 'P: un-watched peering resource keeps its watcher'
        if corner:
            out.append({'sig': 'corner', 'what': corner, 'observed': {'key': list(k)}})
        else:
            out.append({'sig': 'unserved-watch', 'what': 'a watch is active for a pair that is not served', 'observed': {'key': list(k), 'active': n}})
    return out


def ensemble_layer(ctx: fw.Ctx, header: str) -> None:
    from kopf._cogs.structs import bodies, references
    from kopf._core.reactor import observation
    r = ctx.rng
    cases_adj: list[fw.Case] = []
    n_hist = ctx.scale(260, 6000)
    for hi in range(n_hist):
        flavour = ['namespaced', 'clusterwide', 'mixed'][hi % 3]
        hist, mode = gen_history(r, flavour)
        snaps = run_history(hist, mode)
        data0 = {'layer': 'ensemble', 'history': hist, 'mode': mode}
        ctx.count('history', f'{flavour}/{mode}')
        removal = False
        prev = {'watchers': [], 'peerings': [], 'pingers': [], 'conflicts': []}
        for si, snap in enumerate(snaps):
            ins = snap['insights']
            if si and (set(snaps[si - 1]['insights']['namespaces']) - set(ins['namespaces'])
                       or set(snaps[si - 1]['insights']['watched']) - set(ins['watched'])):
                removal = True
            e0, i0 = c_ens(prev), c_insights(ins)
            w_stop = [k for kind, k in snap['stops'] if kind == 'watcher']
            w_start = [k for kind, k in snap['starts'] if kind == 'watcher']
            p_stop = [k for kind, k in snap['stops'] if kind == 'peering']
            p_start = [k for kind, k in snap['starts'] if kind == 'peering']
            g_stop = [k for kind, k in snap['stops'] if kind == 'pinger']
            g_start = [k for kind, k in snap['starts'] if kind == 'pinger']
            term = (f'(let e0 := {e0} in let i := {i0} in let e1 := adjust i e0 in '
                    f'keys_same (watchers e1) {c_keys(snap["watchers"])} && keys_same (peerings e1) {c_keys(snap["peerings"])} && '
                    f'keys_same (pingers e1) {c_keys(snap["pingers"])} && keys_same (conflicts e1) {c_keys(snap["conflicts"])} && '
                    f'keys_same (stopped i (watchers e0)) {c_keys(w_stop)} && keys_same (started (watchers (terminate i e0)) (watchers e1)) {c_keys(w_start)} && '
                    f'keys_same (stopped i (peerings e0)) {c_keys(p_stop)} && keys_same (started (peerings (terminate i e0)) (peerings e1)) {c_keys(p_start)} && '
                    f'keys_same (stopped i (pingers e0)) {c_keys(g_stop)} && keys_same (started (pingers (terminate i e0)) (pingers e1)) {c_keys(g_start)} && '
                    f'{cq.cbool(snap["stops_before_starts"])} && {cq.cbool(snap["error"] is None)})')
            data = {**data0, 'step': si, 'snapshot': {k: v for k, v in snap.items() if k != 'alive'}}
            cases_adj.append(fw.Case(term, data, diag=f'adjust {i0} {e0}'))
            for f in monitor_step(None, snap):
                if f['sig'] == 'corner':
                    ctx.count('corner', f['what'])
                else:
                    ctx.fail(f['what'], {**data0, 'step': si}, observed=f['observed'], sig=f['sig'])
            if len(w_stop) != len(set(w_stop)) or len(w_start) != len(set(w_start)):
                ctx.fail('a watcher task was started or stopped twice in one adjustment', {**data0, 'step': si},
                         observed={'stops': w_stop, 'starts': w_start}, sig='double-start-stop')
            ctx.count('adjust', 'stops+starts' if w_stop and w_start else 'stops' if w_stop else 'starts' if w_start else 'no-op')
            prev = {k: snap[k] for k in ('watchers', 'peerings', 'pingers', 'conflicts')}
        if removal and len(hist) >= 3:
            ctx.nontriv(['ens', hist, mode])
        if hi < 2:
            ctx.sample({'history': hist, 'mode': mode, 'watchers_after_each_step': [s['watchers'] for s in snaps]})
    ctx.differential('D_adjust', header, cases_adj, shard=150)

    # ---- revise_namespaces + match_namespace
    cases_ns: list[fw.Case] = []
    cases_glob: list[fw.Case] = []
    patterns_pool = ['ns*', 'ns1', '!ns2', 'ns?, !ns3', '*, !ns1, ns1', '!*-x, ns1', 'ns1,ns2', ' ns1 , ns3 ', '', '!ns*,ns1', 'a*,ns1']
    for _ in range(ctx.scale(300, 5000)):
        pats = r.sample(patterns_pool, r.randrange(1, 3))
        start = set(r.sample(NAMES, r.randrange(0, 3)))
        ins = references.Insights()
        ins.namespaces.update(start)
        evs, mevs = [], []
        for _ in range(r.randrange(1, 6)):
            name = r.choice(NAMES + ['other'])
            typ = r.choice([None, 'ADDED', 'MODIFIED', 'DELETED'])
            obj: dict = {'metadata': {'name': name}}
            if r.random() < 0.4:
                obj['metadata']['deletionTimestamp'] = '2030-01-01T00:00:00Z'
            conds = []
            if r.random() < 0.5:
                conds = [{'type': 'X', 'status': r.choice(['True', 'False']), 'reason': 'r', 'message': 'm'} for _ in range(r.randrange(1, 3))]
                obj['status'] = {'conditions': conds}
            elif r.random() < 0.2:
                obj['status'] = {'conditions': []}
            evs.append(bodies.RawEvent(type=typ, object=obj))   # type: ignore[typeddict-item]
            matched = any(references.match_namespace(name, p) for p in pats)
            mevs.append(f'{{| ne_name := {cq.cstr(name)}; ne_matched := {cq.cbool(matched)}; ne_type_deleted := {cq.cbool(typ == "DELETED")}; '
                        f'ne_marked := {cq.cbool("deletionTimestamp" in obj["metadata"])}; ne_conditions := {cq.cbool(bool(conds))}; '
                        f'ne_blocked := {cq.cbool(any(c["status"] == "True" for c in conds))} |}}')
            # the glob combination with fnmatch as the oracle
            for p in pats:
                globs = [g.strip() for g in p.split(',')]
                gl = []
                for gi, g in enumerate(globs):
                    neg = g.startswith('!')
                    hit = fnmatch.fnmatch(name, g.lstrip('!')) if neg else fnmatch.fnmatch(name, g)
                    gl.append(f'{{| g_neg := {cq.cbool(neg)}; g_hit := {cq.cbool(hit)} |}}')
                got = references.match_namespace(name, p)
                cases_glob.append(fw.Case(f'Bool.eqb (match_globs {cq.clist(gl)}) {cq.cbool(got)}', {'layer': 'glob', 'name': name, 'pattern': p, 'got': got},
                                          diag=f'match_globs {cq.clist(gl)}'))
        observation.revise_namespaces(insights=ins, namespaces=pats, raw_events=evs)
        got_ns = sorted(ins.namespaces)
        cases_ns.append(fw.Case(f'ns_same (revise_namespaces {cq.clist(c_ns(n) for n in sorted(start))} {cq.clist(mevs)}) {cq.clist(c_ns(n) for n in got_ns)}',
                                {'layer': 'nsrev', 'patterns': pats, 'start': sorted(start), 'events': evs, 'got': got_ns},
                                diag=f'revise_namespaces {cq.clist(c_ns(n) for n in sorted(start))} {cq.clist(mevs)}'))
        # monitor: a namespace that was really deleted is not served; a matching live one is
        for ev in evs[-1:]:
            nm = ev['object']['metadata']['name']
            if ev['type'] == 'DELETED' and not any(c.get('status') == 'True' for c in ev['object'].get('status', {}).get('conditions', [])):
                if nm in ins.namespaces:
                    ctx.fail('a deleted namespace is still served', {'layer': 'nsrev', 'patterns': pats, 'start': sorted(start), 'events': evs},
                             observed=got_ns, sig='deleted-namespace-served')
    ctx.differential('D_nsrev', header, cases_ns, shard=150)
    ctx.differential('D_glob', header, cases_glob, shard=300)


# ======================================================================================
# whole operator: FakeAPI's connection table vs the served pairs
# ======================================================================================

SIM_NS_POOL = ['ns1', 'ns2', 'ns3', 'other']       # the operator serves the pattern 'ns*'


def _sim_kinds() -> dict:
    from kv import fakeapi
    return {'k': fakeapi.KOPFEXAMPLE,
            'ct': fakeapi.Kind('kopf.dev', 'v1', 'ClusterThing', 'clusterthings', namespaced=False),
            'nk': fakeapi.Kind('c19.dev', 'v1', 'SpacedThing', 'spacedthings', namespaced=True)}


def gen_sim(r: Any) -> dict:
    clusterwide = r.random() < 0.3
    steps = []
    for _ in range(r.randrange(3, 9)):
        x = r.random()
        if x < 0.5:
            steps.append([r.choice(['ns+', 'ns-']), r.choice(SIM_NS_POOL)])
        elif x < 0.75:
            steps.append([r.choice(['kind+', 'kind-']), r.choice(['ct', 'nk'])])
        else:
            steps.append(['end', r.choice(['eof', 'connection', 'timeout'])])     # every open stream reconnects (no re-list)
    # the version counter starts just below a power of ten: versions gain a digit while the streams are open
    return {'clusterwide': clusterwide, 'init_ns': r.sample(SIM_NS_POOL, r.randrange(0, 3)), 'init_kinds': r.sample(['ct', 'nk'], r.randrange(0, 3)),
            'steps': steps, 'rv0': r.choice([100, 3, 5, 7, 8, 93, 95, 97, 98, 995, 997])}


def run_sim(case: dict) -> list[dict]:
    """One kopf.operator() incarnation (scanning enabled) under kv.sim; namespaces and CRDs come and go.
    Returns, after every step, the open watch streams of the served kinds and the harness's reading of the served pairs."""
    from kv import fakeapi, sim
    kinds = _sim_kinds()
    present = {'k'} | set(case['init_kinds'])
    W = sim.World(kinds=[kinds[k] for k in sorted(present)])
    api = W.api
    api.rv = int(case.get('rv0', 100))
    out: list[dict] = []
    try:
        for ns in case['init_ns']:
            api.create(fakeapi.NAMESPACE, None, ns)
        for k in sorted(present):
            api.create(fakeapi.CRD, None, f'{kinds[k].plural}.{kinds[k].group}', {'spec': {'group': kinds[k].group}})

        def conf(s: Any) -> None:
            s.scanning.disabled = False
            s.watching.reconnect_backoff = 0.125
        handlers = [{'id': 'ev_k', 'kind': 'event'}, {'id': 'ev_ct', 'kind': 'event', 'resource': kinds['ct']},
                    {'id': 'ev_nk', 'kind': 'event', 'resource': kinds['nk']}]
        inc = W.operator('op', handlers, namespaces=None if case['clusterwide'] else ['ns*'], configure=conf).start()
        W.run_for(4)

        def snap(step: Any) -> dict:
            nss = sorted(k[2] for k in api.objects if k[0] == fakeapi.NAMESPACE.key)
            table: dict[str, int] = {}
            for st in api.streams:
                if not st.closed and st.kind.plural in ('kopfexamples', 'clusterthings', 'spacedthings'):
                    key = f'{st.kind.plural}|{st.namespace}'
                    table[key] = table.get(key, 0) + 1
            return {'step': step, 'namespaces': nss, 'kinds': sorted(present), 'table': dict(sorted(table.items())),
                    'operator': inc.state, 'exception': repr(inc.exception) if inc.exception else None}
        out.append(snap('start'))
        for step in case['steps']:
            a, x = step
            if a == 'ns+' and api.get(fakeapi.NAMESPACE, None, x) is None:
                api.create(fakeapi.NAMESPACE, None, x)
            elif a == 'ns-':
                api.delete(fakeapi.NAMESPACE, None, x)
            elif a == 'kind+' and x not in present:
                present.add(x)
                api.kinds[kinds[x].key] = kinds[x]
                api.create(fakeapi.CRD, None, f'{kinds[x].plural}.{kinds[x].group}', {'spec': {'group': kinds[x].group}})
            elif a == 'kind-' and x in present:
                present.discard(x)
                del api.kinds[kinds[x].key]
                api.delete(fakeapi.CRD, None, f'{kinds[x].plural}.{kinds[x].group}')
            elif a == 'end':
                for st in api.open_streams():
                    st.terminate(x)
            W.run_for(3)
            out.append(snap(step))
        out[-1]['resume_violations'] = sim_resume_violations(api)
    finally:
        W.close()
    return out


def sim_resume_violations(api: Any) -> list[dict]:
    """The harness's reading of "resumed from the latest version seen" on FakeAPI's own records: for every
    (resource, namespace) the watch connections in the order they were opened; a connection that follows another one
    without a LIST of that pair in between must start from the version of the LAST event delivered on the previous
    connection (its own start version if it delivered nothing); after a LIST, from the LIST's version."""
    watches = [i for i, e in enumerate(api.tracelog) if e['what'] == 'watch']
    lists = [i for i, e in enumerate(api.tracelog) if e['what'] == 'list']
    list_reqs = [q for q in api.requests if q.method == 'GET' and q.target is not None and q.target[2] is None
                 and q.query.get('watch') != 'true' and q.status == 200]
    if len(watches) != len(api.streams) or len(lists) != len(list_reqs):
        raise RuntimeError('observation point missing: FakeAPI tracelog does not line up with its streams/requests')
    seq: dict[tuple, list] = {}
    for i, q in zip(lists, list_reqs):
        seq.setdefault((q.target[0], q.target[1]), []).append((i, 'list', api.tracelog[i]['rv'], None))
    for i, st in zip(watches, api.streams):
        seq.setdefault((st.kind.key, st.namespace), []).append((i, 'watch', api.tracelog[i]['since'], st))
    out = []
    for pair, items in seq.items():
        items.sort(key=lambda x: x[0])
        latest: int | None = None
        for _, what, v, st in items:
            if what == 'list':
                latest = v
                continue
            if latest is not None and v != latest:
                out.append({'pair': [pair[0][2], pair[1]], 'since': v, 'latest_seen': latest})
            if st.delivered:
                latest = st.delivered[-1][0]
            elif latest is None:
                latest = v
    return out


def monitor_sim(case: dict, snaps: list[dict]) -> tuple[list[dict], list[str]]:
    kinds = _sim_kinds()
    fails, corners = [], []
    for v in (snaps[-1].get('resume_violations') or []) if snaps else []:
        fails.append({'sig': 'sim-resume', 'what': 'a watch connection of the operator was (re)started from a version other than the latest one '
                      'seen on the previous connection / listing', 'observed': v})
    for s in snaps:
        if s['operator'] != 'running':
            fails.append({'sig': 'operator-exited', 'what': 'the operator exited during the scenario', 'observed': s})
            break
        served_ns: list = [None] if case['clusterwide'] else [n for n in s['namespaces'] if fnmatch.fnmatch(n, 'ns*')]
        want: dict[str, int] = {}
        undetermined = set()
        for k in s['kinds']:
            kd = kinds[k]
            if kd.namespaced:
                for ns in served_ns:
                    want[f'{kd.plural}|{ns}'] = 1
            elif served_ns:
                want[f'{kd.plural}|None'] = 1
            else:
                undetermined.add(f'{kd.plural}|None')       # O2: cluster-scoped kind while no namespace is served
        table = dict(s['table'])
        for key in undetermined:
            if table.pop(key, 0):
                corners.append('O2 in the whole operator: cluster-scoped kind watched while no namespace is served')
        if table != want:
            fails.append({'sig': 'connection-table', 'what': 'open watch streams differ from the served (resource, namespace) pairs',
                          'observed': {'step': s['step'], 'open': table, 'served': want, 'namespaces': s['namespaces'], 'kinds': s['kinds']}})
    return fails, corners


def sim_layer(ctx: fw.Ctx) -> None:
    r = ctx.rng
    for i in range(ctx.scale(60, 600)):
        case = gen_sim(r)
        snaps = run_sim(case)
        fails, corners = monitor_sim(case, snaps)
        ctx.count('sim', 'clusterwide' if case['clusterwide'] else 'namespaced')
        for c in corners:
            ctx.count('corner', c)
        for st in case['steps']:
            ctx.count('sim_steps', st[0] + (':' + st[1] if st[0] == 'end' else ''))
        ctx.count('sim_rv0', str(case.get('rv0', 100)))
        for f in fails:
            ctx.fail(f['what'], {'layer': 'sim', **case}, observed=f['observed'], sig=f['sig'])
        if len([s for s in case['steps'] if s[0] in ('ns-', 'kind-')]) >= 1 and len(case['steps']) >= 3:
            ctx.nontriv(['sim', case])
        if i == 0:
            ctx.sample({'sim': case, 'tables': [s['table'] for s in snaps]})


def replay(ctx: fw.Ctx, case: dict) -> bool:
    if case.get('layer') == 'sim':
        fails, _ = monitor_sim(case, run_sim(case))
        for f in fails:
            print('  ', f['sig'], f['what'], f['observed'])
        return bool(fails)
    if case.get('layer') != 'ensemble':
        print('  (differential-only case: re-run the check)')
        return False
    snaps = run_history(case['history'], case['mode'])
    bad = False
    for si, snap in enumerate(snaps):
        for f in monitor_step(None, snap):
            if f['sig'] != 'corner':
                print('  step', si, f['sig'], f['what'], f['observed'])
                bad = True
    return bad
